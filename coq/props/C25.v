(** * C25 -- time rescaling is an order-preserving recalibration.
    Only statements, each closed by [exact]; proofs live in proofs/Rescale*.v.
    Model: model/Rescale.v (rescaling.py mutational_area, mutational_timescale,
    piecewise_scale_point_estimate, piecewise_scale_posterior; the loop and the breakpoint
    recovery of ExpectationPropagation.rescale in variational.py). *)
From Coq Require Import List Reals QArith.
From TsdateV Require Import lib.Num model.Rescale proofs.RescalePW proofs.RescaleArea
  proofs.RescalePost proofs.RescaleEx proofs.RescaleMain.
Import ListNotations.
Open Scope R_scope.

(** [breaks_ok] is exactly the two assertions of the code ("Use fewer rescaling intervals"):
    both break vectors strictly increasing, same (non-zero) length *)
Theorem C25_breaks_ok_meaning : forall ob rb : list R,
  breaks_ok RNum ob rb = true <->
  (forall i, (S i < length ob)%nat -> nth i ob 0 < nth (S i) ob 0) /\
  (forall i, (S i < length rb)%nat -> nth i rb 0 < nth (S i) rb 0) /\
  length ob = length rb /\ (0 < length ob)%nat.
Proof. exact breaks_ok_meaning. Qed.
Print Assumptions C25_breaks_ok_meaning.

(** the map x |-> rescaled[i] + scalings[i] * (x - original[i]), i = searchsorted(original, x, right) - 1,
    for strictly increasing breaks starting at 0: fixes 0, non-decreasing on [0, oo), strictly
    increasing up to the last break, constant afterwards, interpolates the break pairs linearly,
    continuous on [0, oo) *)
Theorem C25_piecewise_monotone : forall ob rb : list R,
  breaks_ok RNum ob rb = true -> nth 0 ob 0 = 0 -> nth 0 rb 0 = 0 ->
  let f := pw RNum ob rb in
  f 0 = 0 /\
  (forall x y, 0 <= x -> x <= y -> f x <= f y) /\
  (forall x y, 0 <= x -> x < y -> y <= last_of ob -> f x < f y) /\
  (forall x, last_of ob <= x -> f x = last_of rb) /\
  (forall i, (i < length ob)%nat -> f (nth i ob 0) = nth i rb 0) /\
  (forall i x, (S i < length ob)%nat -> nth i ob 0 <= x -> x < nth (S i) ob 0 ->
     f x = nth i rb 0
           + (nth (S i) rb 0 - nth i rb 0) / (nth (S i) ob 0 - nth i ob 0) * (x - nth i ob 0)) /\
  (forall x, 0 <= x -> forall eps, 0 < eps -> exists delta, 0 < delta /\
     forall y, 0 <= y -> Rabs (y - x) < delta -> Rabs (f y - f x) < eps).
Proof. exact piecewise_monotone. Qed.
Print Assumptions C25_piecewise_monotone.

(** [piecewise_scale_point_estimate]: fixed (sample) entries are returned unchanged, free
    entries go through the map *)
Theorem C25_fixed_untouched : forall (xs : list R) fixed (ob rb out : list R),
  piecewise_scale_point_estimate RNum xs fixed ob rb = Some out ->
  length out = length xs /\
  forall i, (i < length xs)%nat ->
    (nth i fixed false = true -> nth i out 0 = nth i xs 0) /\
    (nth i fixed false = false -> nth i out 0 = pw RNum ob rb (nth i xs 0)).
Proof. exact fixed_untouched. Qed.
Print Assumptions C25_fixed_untouched.

(** the [rescale_iterations] loop (any number of iterations, any changepoints containing 0):
    fixed nodes keep their time; all free nodes are mapped by ONE non-decreasing function
    fixing 0; hence the order of free nodes' point estimates is never reversed *)
Theorem C25_loop_monotone : forall (liks : list (R * R)) edges fixed cpss (x x' : list R) last',
  (forall cps, In cps cpss -> In O cps) ->
  (forall i, 0 <= nth i x 0) ->
  rescale_loop RNum liks edges fixed cpss x None = Some (x', last') ->
  length x' = length x /\
  (forall i, (i < length x)%nat -> nth i fixed false = true -> nth i x' 0 = nth i x 0) /\
  (exists g : R -> R, g 0 = 0 /\ (forall u v, 0 <= u -> u <= v -> g u <= g v) /\
     forall i, (i < length x)%nat -> nth i fixed false = false -> nth i x' 0 = g (nth i x 0)) /\
  (forall i j, (i < length x)%nat -> (j < length x)%nat ->
     nth i fixed false = false -> nth j fixed false = false ->
     nth i x 0 <= nth j x 0 -> nth i x' 0 <= nth j x' 0).
Proof. exact loop_monotone. Qed.
Print Assumptions C25_loop_monotone.

(** [piecewise_scale_posterior]: for ANY quantile function [ginv] and ANY quantile-fitting
    function [fit] that returns a natural shape parameter with 0 < a + 1 <= max_shape (the
    contract of approximate_gamma_iqr), every free row of the result is a gamma with mean
    f(old mean), shape (a' + 1) <= max_shape and positive rate *)
Theorem C25_mean_mapped_shape_capped :
  forall (ginv : R -> R -> R) (fit : R -> R -> R -> R -> R -> option (R * R)),
  (forall q1 q2 x1 x2 ms a b, fit q1 q2 x1 x2 ms = Some (a, b) -> -1 < a /\ a + 1 <= ms) ->
  forall (posts : list (R * R)) fixed (ob rb : list R) qw ms out,
  piecewise_scale_posterior RNum ginv fit posts fixed ob rb qw ms = Some out ->
  nth 0 ob 0 = 0 -> nth 0 rb 0 = 0 -> (2 <= length ob)%nat ->
  forall i, (i < length posts)%nat -> nth i fixed false = false ->
    let a := fst (nth i posts (0, 0)) in
    let b := snd (nth i posts (0, 0)) in
    exists a' b', nth_error out i = Some (Some (a', b')) /\
      0 < (a + 1) / b /\
      (a' + 1) / b' = pw RNum ob rb ((a + 1) / b) /\
      -1 < a' /\ a' + 1 <= ms /\ 0 < b'.
Proof. exact psp_mean_shape. Qed.
Print Assumptions C25_mean_mapped_shape_capped.

(** ... and the order of two free rows' posterior means is never reversed *)
Theorem C25_order_preserved :
  forall (ginv : R -> R -> R) (fit : R -> R -> R -> R -> R -> option (R * R)),
  (forall q1 q2 x1 x2 ms a b, fit q1 q2 x1 x2 ms = Some (a, b) -> -1 < a /\ a + 1 <= ms) ->
  forall (posts : list (R * R)) fixed (ob rb : list R) qw ms out,
  piecewise_scale_posterior RNum ginv fit posts fixed ob rb qw ms = Some out ->
  nth 0 ob 0 = 0 -> nth 0 rb 0 = 0 -> (2 <= length ob)%nat ->
  forall i j, (i < length posts)%nat -> (j < length posts)%nat ->
    nth i fixed false = false -> nth j fixed false = false ->
    (fst (nth i posts (0, 0)) + 1) / snd (nth i posts (0, 0))
      <= (fst (nth j posts (0, 0)) + 1) / snd (nth j posts (0, 0)) ->
    exists ai bi aj bj,
      nth_error out i = Some (Some (ai, bi)) /\ nth_error out j = Some (Some (aj, bj)) /\
      (ai + 1) / bi <= (aj + 1) / bj.
Proof. exact psp_order. Qed.
Print Assumptions C25_order_preserved.

(** [ExpectationPropagation.rescale] end to end: the breaks recovered from the rescaled
    node times (variational.py:802-808) start at 0, so on every successful run fixed rows are
    left without a posterior (the code writes nan; node_moments uses the constraint), free rows
    get mean f(mean), shape <= max_shape, and the order of posterior means is preserved *)
Theorem C25_rescale_composed :
  forall (ginv : R -> R -> R) (fit : R -> R -> R -> R -> R -> option (R * R)),
  (forall q1 q2 x1 x2 ms a b, fit q1 q2 x1 x2 ms = Some (a, b) -> -1 < a /\ a + 1 <= ms) ->
  forall (means : list R) fixed (liks : list (R * R)) edges cpss
      (ob rb x' : list R) (posts : list (R * R)) qw ms out,
    ep_rescale_breaks RNum means fixed liks edges cpss = Some (ob, rb, x') ->
    (forall cps, In cps cpss -> In O cps) ->
    (forall i, 0 <= nth i means 0) ->
    (2 <= length rb)%nat ->
    piecewise_scale_posterior RNum ginv fit posts fixed ob rb qw ms = Some out ->
    (forall i, (i < length posts)%nat -> nth i fixed false = true -> nth_error out i = Some None) /\
    (forall i, (i < length posts)%nat -> nth i fixed false = false ->
       exists a' b', nth_error out i = Some (Some (a', b')) /\
         (a' + 1) / b' = pw RNum ob rb ((fst (nth i posts (0, 0)) + 1) / snd (nth i posts (0, 0))) /\
         -1 < a' /\ a' + 1 <= ms /\ 0 < b') /\
    (forall i j, (i < length posts)%nat -> (j < length posts)%nat ->
       nth i fixed false = false -> nth j fixed false = false ->
       (fst (nth i posts (0, 0)) + 1) / snd (nth i posts (0, 0))
         <= (fst (nth j posts (0, 0)) + 1) / snd (nth j posts (0, 0)) ->
       exists ai bi aj bj,
         nth_error out i = Some (Some (ai, bi)) /\ nth_error out j = Some (Some (aj, bj)) /\
         (ai + 1) / bi <= (aj + 1) / bj).
Proof. exact rescale_composed. Qed.
Print Assumptions C25_rescale_composed.

(** [mutational_area]: with s the sorted distinct node times, for every interval
    [s_k, s_(k+1)] the returned count / area equal the direct sums of y_e / length_e and of
    span_e over the edges of positive length whose child is at or below s_k and whose parent is
    at or above s_(k+1) -- for every vector of node times, ties and inverted edges included;
    durations are the interval lengths (the first one measured from 0) and nodes_index is
    the position of each node's time in s *)
Theorem C25_area_is_overlap :
  forall (times : list R) (liks : list (R * R)) edges (counts offset duration : list R) index,
  (forall p c, In (p, c) edges -> (p < length times)%nat) ->
  mutational_area RNum times liks edges = (counts, offset, duration, index) ->
  let s := usort RNum times in
  let t := nthT RNum times in
  incr s /\ (forall x, In x s <-> In x times) /\
  length counts = (length s - 1)%nat /\ length offset = (length s - 1)%nat /\
  length duration = (length s - 1)%nat /\ length index = length times /\
  (forall k, (S k < length s)%nat ->
     nth k counts 0
       = Rsum (map (fun e => if covers t (nth k s 0) (nth (S k) s 0) e
                             then fst (snd e) / (t (fst (fst e)) - t (snd (fst e))) else 0)
                   (combine edges liks)) /\
     nth k offset 0
       = Rsum (map (fun e => if covers t (nth k s 0) (nth (S k) s 0) e then snd (snd e) else 0)
                   (combine edges liks)) /\
     nth k duration 0 = nth (S k) s 0 - (if (k =? 0)%nat then 0 else nth k s 0)) /\
  (forall i, (i < length times)%nat ->
     (nth i index O < length s)%nat /\ nth (nth i index O) s 0 = t i).
Proof. exact area_is_overlap. Qed.
Print Assumptions C25_area_is_overlap.

(** [mutational_timescale]: the rescaled breaks start at 0 and consecutive ones differ by
    duration * count / area of the interval between two changepoints (so they are the cumulative
    sum), the area being positive; the original breaks are the epoch breaks at the changepoints *)
Theorem C25_rescaled_breaks_cumulative :
  forall (times : list R) (liks : list (R * R)) edges cps (ob rb : list R),
  mutational_timescale RNum times liks edges cps = Some (ob, rb) ->
  forall co off du ix, mutational_area RNum times liks edges = (co, off, du, ix) ->
  let cp := nat_usort cps in
  length ob = length cp /\ length rb = S (length cp - 1) /\
  nth 0 rb 0 = 0 /\
  (In O cps -> nth 0 ob 0 = 0) /\
  (forall k, (k < length cp)%nat -> nth k ob 0 = nth (nth k cp O) (0 :: cumsum RNum du) 0) /\
  (forall k, (S k < length cp)%nat ->
     0 < Rsum (slice off (nth k cp O) (nth (S k) cp O)) /\
     nth (S k) rb 0 - nth k rb 0
       = Rsum (slice du (nth k cp O) (nth (S k) cp O)) * Rsum (slice co (nth k cp O) (nth (S k) cp O))
         / Rsum (slice off (nth k cp O) (nth (S k) cp O))).
Proof. exact timescale_spec. Qed.
Print Assumptions C25_rescaled_breaks_cumulative.

(** non-vacuity: the hypotheses are satisfiable over R, and the models compute the expected
    values on a 5-node example over Q (area by hand: 2 + 1 + 3/2 and 3/2 + 1) *)
Example C25_nonvacuous :
  (breaks_ok RNum [0; 1; 2] [0; 9 / 2; 6] = true /\
   pw RNum [0; 1; 2] [0; 9 / 2; 6] (3 / 2) = 21 / 4) /\
  mutational_area QNum ex_times ex_liks ex_edges
    = ([9 # 2; 5 # 2], [3; 2], [1; 1], [0; 0; 0; 1; 2]%nat)%Q /\
  mutational_timescale QNum ex_times ex_liks ex_edges [0; 1; 2]%nat
    = Some ([0; 1; 2], [0; 3 # 2; 11 # 4])%Q /\
  ep_rescale_breaks QNum ex_times ex_fixed ex_liks ex_edges [[0; 1; 2]; [0; 2]]%nat
    = Some ([0; 2], [0; 137 # 50], [0; 0; 0; 411 # 275; 137 # 50])%Q /\
  piecewise_scale_posterior QNum (fun a q => a * q)%Q (fun _ _ _ _ _ => Some (3, 1)%Q)
    [(0, 1); (0, 1); (0, 1); (1, 2); (3, 2)]%Q ex_fixed [0; 1; 2]%Q [0; 9 # 2; 6]%Q (1 # 2)%Q 10%Q
    = Some [None; None; None; Some (3, 8 # 9)%Q; Some (3, 2 # 3)%Q].
Proof. exact C25_example. Qed.
