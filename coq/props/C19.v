(** * C19 -- special-function and gamma-fitting helpers are accurate.
    Only statements, each closed by [exact]; proofs live in proofs/ApproxC19.v (and ApproxC18.v for
    the method of moments).  Everything is about the text REGENERATED from tsdate/hypergeo.py and
    tsdate/approx.py on every check, instantiated over the reals.

    PROVED: the algebra and the control flow (moment matching exact; the KL fit returns the requested
    mean exactly or reports the documented failures; digamma / trigamma reduce every argument to
    the two base branches by the recurrence and the reflection formula with the right signs;
    betaln is the log beta function).
    NOT PROVED (no formal digamma / trigamma / incomplete gamma here): "near machine precision" of
    the asymptotic series, the mean-log match of the KL fit up to its Newton tolerance, convergence
    of the Newton iterations of both fits, and that the quantile fit matches the requested quantile
    RATIO (needs the derivative of the incomplete gamma).  Those clauses are decided by the oracle
    of tools/props/c19.py against mpmath / scipy references. *)
From Coq Require Import Reals Lra.
From TsdateV Require Import lib.Num model.ApproxBase gen.HypergeoGen gen.ApproxGen gen.GenEqC19
  proofs.ApproxTac proofs.ApproxC18 proofs.ApproxC19.
Open Scope R_scope.

(** method of moments: returns natural parameters whose gamma has exactly the requested mean and
    variance, and reports failure exactly when [mean <= 0 \/ var <= 0] *)
Theorem C19_mom_exact : forall (lgam : R -> R) (eg : R) (H : HypFns RNum) (mean var : R),
  let F := RF lgam eg in
  (forall p, approximate_gamma_mom RNum F H mean var = Ok p ->
     0 < mean /\ 0 < var /\ nat_mean p = mean /\ nat_var p = var) /\
  (0 < mean -> 0 < var ->
     approximate_gamma_mom RNum F H mean var = Ok (mean * mean / var - 1, mean / var)) /\
  (~ (0 < mean /\ 0 < var) -> approximate_gamma_mom RNum F H mean var = Err EKLFail).
Proof.
  exact (fun lgam eg H mean var =>
    conj (mom_exact lgam eg H mean var) (conj (mom_ok lgam eg H mean var) (mom_fail lgam eg H mean var))).
Qed.
Print Assumptions C19_mom_exact.

(** KL fit.  Full statement (C19_kl_mean_exact of DESIGN.md): on success the gamma has the requested
    mean AND the requested mean log up to the Newton tolerance; failure is reported exactly on
    (non-positive mean, Jensen violated, iteration cap, non-finite shape).
    Proved here, for ARBITRARY digamma / trigamma [H]: on success the mean is exact and the shape
    positive; non-positive mean and Jensen's inequality violated give the exception; in the
    asymptotic regime the closed-form lower bound is returned.  Missing: the mean-log match and
    convergence (needs a formal digamma), hence [_partial]. *)
Theorem C19_kl_mean_exact_partial : forall (lgam : R -> R) (eg : R) (H : HypFns RNum) (x logx : R),
  let F := RF lgam eg in
  (forall a b, approximate_gamma_kl RNum F H x logx = Ok (a, b) ->
     0 < x /\ logx < ln x /\ 0 < a + 1 /\ (a + 1) / b = x) /\
  (x <= 0 \/ ~ (logx < ln x) -> approximate_gamma_kl RNum F H x logx = Err EKLFail) /\
  (0 < x -> logx < ln x -> 1 / (5 / 10 / (ln x - logx)) < 1 / 10000 ->
     approximate_gamma_kl RNum F H x logx = Ok (5 / 10 / (ln x - logx) - 1, 5 / 10 / (ln x - logx) / x)).
Proof.
  exact (fun lgam eg H x logx =>
    conj (kl_ok lgam eg H x logx) (conj (kl_fail lgam eg H x logx) (kl_asymptotic lgam eg H x logx))).
Qed.
Print Assumptions C19_kl_mean_exact_partial.

(** quantile fit (C19_iqr_control of DESIGN.md).  [E] = (scipy's gammaincinv, the AS 239 derivative)
    and [H] are ARBITRARY functions: whatever the Newton iteration does, a successful return has a
    shape <= cap -- either the capped shape itself or a positive shape -- and the rate
    gammaincinv(shape, q1) / x1, so that, the two incomplete-gamma functions being mutually
    inverse, the LOWER quantile of the returned gamma is the requested one; equal quantiles and a
    log-ratio bound above the cap give the capped shape at once; unsorted quantiles raise.
    Not proved: that the requested quantile RATIO is matched when the shape is not capped. *)
Theorem C19_iqr_control : forall (lgam : R -> R) (eg : R) (H : HypFns RNum) (E : ExtFns RNum)
    (q1 q2 x1 x2 cap : R),
  let F := RF lgam eg in
  let ginv := e_gammainc_inv RNum E in
  (forall a b, approximate_gamma_iqr RNum F H E q1 q2 x1 x2 cap = Ok (a, b) ->
     (a = cap - 1 /\ b = ginv cap q1 / x1) \/ (0 < a + 1 /\ a + 1 <= cap /\ b = ginv (a + 1) q1 / x1)) /\
  (forall (ginc : R -> R -> R) a b, (forall s q, ginc s (ginv s q) = q) -> x1 <> 0 ->
     approximate_gamma_iqr RNum F H E q1 q2 x1 x2 cap = Ok (a, b) ->
     a + 1 <= cap /\ ginc (a + 1) (b * x1) = q1) /\
  (approximate_gamma_iqr RNum F H E q1 q2 x1 x1 cap = Ok (cap - 1, ginv cap q1 / x1)) /\
  (x2 <> x1 -> ~ (q1 < q2 /\ x1 < x2) -> approximate_gamma_iqr RNum F H E q1 q2 x1 x2 cap = Err EKLFail) /\
  (q1 < q2 -> x1 < x2 -> cap < ln (q2 / q1) / ln (x2 / x1) ->
     approximate_gamma_iqr RNum F H E q1 q2 x1 x2 cap = Ok (cap - 1, ginv cap q1 / x1)).
Proof.
  exact (fun lgam eg H E q1 q2 x1 x2 cap =>
    conj (iqr_ok lgam eg H E q1 q2 x1 x2 cap)
   (conj (fun ginc a b => iqr_lower_quantile lgam eg H E ginc q1 q2 x1 x2 cap a b)
   (conj (iqr_equal lgam eg H E q1 q2 x1 cap)
   (conj (iqr_unsorted lgam eg H E q1 q2 x1 x2 cap) (iqr_capped_at_once lgam eg H E q1 q2 x1 x2 cap))))).
Qed.
Print Assumptions C19_iqr_control.

(** digamma: IF the series branch (x >= 8.5) and the pole branch (0 < x <= 1e-5) are exact for a
    function [psi] with psi(1+x) = psi(x) + 1/x, THEN the code returns psi(x) for every x > 0 (the
    fuel of the translated recursion never runs out); with the reflection formula also for x <= 0.
    [digamma_tail] is the series as the code writes it (proofs/ApproxC19.v). *)
Theorem C19_digamma_recurrence : forall (lgam : R -> R) (eg : R) (psi : R -> R),
  (forall x, 0 < x -> psi (1 + x) = psi x + 1 / x) ->
  (forall x, 0 < x -> x <= 1 / 100000 -> psi x = - eg - 1 / x) ->
  (forall x, 85 / 10 <= x -> psi x = digamma_tail x) ->
  (forall x, 0 < x -> digamma RNum (RF lgam eg) x = Ok (psi x)) /\
  ((forall x, x <= 0 -> psi x = psi (1 - x) - PI / tan (PI * x)) ->
   forall x, x <= 0 -> digamma RNum (RF lgam eg) x = Ok (psi x)).
Proof.
  exact (fun lgam eg psi h1 h2 h3 =>
    conj (digamma_positive lgam eg psi h1 h2 h3) (digamma_nonpositive lgam eg psi h1 h2 h3)).
Qed.
Print Assumptions C19_digamma_recurrence.

Theorem C19_trigamma_recurrence : forall (lgam : R -> R) (eg : R) (psi1 : R -> R),
  (forall x, 0 < x -> psi1 (1 + x) = psi1 x - 1 / (x * x)) ->
  (forall x, 0 < x -> x <= 1 / 10000 -> psi1 x = 1 / (x * x)) ->
  (forall x, 5 <= x -> psi1 x = trigamma_tail x) ->
  (forall x, 0 < x -> trigamma RNum (RF lgam eg) x = Ok (psi1 x)) /\
  ((forall x, x <= 0 -> psi1 x = - psi1 (1 - x) + PI * PI / (sin (PI * x) * sin (PI * x))) ->
   forall x, x <= 0 -> trigamma RNum (RF lgam eg) x = Ok (psi1 x)).
Proof.
  exact (fun lgam eg psi1 h1 h2 h3 =>
    conj (trigamma_positive lgam eg psi1 h1 h2 h3) (trigamma_nonpositive lgam eg psi1 h1 h2 h3)).
Qed.
Print Assumptions C19_trigamma_recurrence.

(** log-beta: with lgamma = log o Gamma, exp (betaln p q) = Gamma(p) Gamma(q) / Gamma(p + q) *)
Theorem C19_betaln : forall (lgam : R -> R) (eg : R) (Gam : R -> R) (p q : R),
  (forall x, 0 < x -> 0 < Gam x) -> (forall x, 0 < x -> lgam x = ln (Gam x)) ->
  0 < p -> 0 < q ->
  betaln RNum (RF lgam eg) p q = lgam p + lgam q - lgam (p + q) /\
  exp (betaln RNum (RF lgam eg) p q) = Gam p * Gam q / Gam (p + q).
Proof.
  exact (fun lgam eg Gam p q h1 h2 hp hq =>
    conj (betaln_def lgam eg p q) (betaln_beta lgam eg Gam p q h1 h2 hp hq)).
Qed.
Print Assumptions C19_betaln.

Theorem C19_text_unchanged : unchanged_C19.
Proof. exact unchanged_C19_holds. Qed.

(** non-vacuity: mean 2, variance 4 is matched by Gamma(shape 1, rate 1/2) *)
Example C19_nonvacuous : forall lgam eg (H : HypFns RNum),
  approximate_gamma_mom RNum (RF lgam eg) H 2 4 = Ok (2 * 2 / 4 - 1, 2 / 4).
Proof. exact C19_example. Qed.
