(** * C09 -- results are deterministic and independent of thread count.
    Proved here (the order-independence LOGIC): the likelihood cache filled from worker
    results delivered in any order is the same map; re-using a prior object through any
    sequence of probability-space conversions never changes the probabilities it denotes.
    What a theorem cannot exhibit (scheduler, hash seed, process restarts) is explored by
    the check on the implementation. *)
From Coq Require Import List Permutation Reals.
From TsdateV Require Import lib.Num model.Gather proofs.GatherFacts.
Import ListNotations.
Open Scope R_scope.

Theorem C09_gather_order_independent : forall (K V : Type) (keqb : K -> K -> bool),
  (forall a b, keqb a b = true <-> a = b) ->
  forall keys (rs rs' : list (K * V)), NoDup (map fst rs) -> Permutation rs rs' ->
  forall k, gather K V keqb keys rs k = gather K V keqb keys rs' k.
Proof. exact gather_perm. Qed.
Print Assumptions C09_gather_order_independent.

Theorem C09_gather_complete : forall (K V : Type) (keqb : K -> K -> bool),
  (forall a b, keqb a b = true <-> a = b) ->
  forall keys (rs : list (K * V)), NoDup (map fst rs) ->
  forall k v, In (k, v) rs -> gather K V keqb keys rs k = Some (Some v).
Proof. exact gather_filled. Qed.
Print Assumptions C09_gather_complete.

Theorem C09_prior_reuse : forall (ss : list space) (d : stored R), wf d ->
  denote RNum exp (fold_left (fun d s => force RNum exp ln s d) ss d) = denote RNum exp d.
Proof. exact force_seq_denote. Qed.
Print Assumptions C09_prior_reuse.

Theorem C09_space_roundtrips :
  (forall w, force RNum exp ln LOG (force RNum exp ln LIN (Log w)) = Log w) /\
  (forall v, 0 <= v -> force RNum exp ln LIN (force RNum exp ln LOG (Lin v)) = Lin v).
Proof. exact (conj force_roundtrip_log force_roundtrip_lin). Qed.
Print Assumptions C09_space_roundtrips.
