(** * C33 -- provenance records each call exactly once.
    Only statements, each closed by [exact]; proofs live in proofs/GlueProv.v.

    Model (model/Glue.v, Section Prov): the provenance table is a list of records;
    [date_provenance rp m g args prov] is what [date()] / a named method does to it
    ([rp] = the [record_provenance] argument, [g] = the generic parameters stored by
    [EstimationMethod.__init__], [args] = the arguments of the method's [run()] in signature
    order); [preprocess_provenance] / [split_provenance] likewise for [preprocess_ts] /
    [split_disjoint_nodes].  [dump] = [json.dumps(..., default=_json_default)] of the provenance
    document (numpy arrays and scalars are converted), [None] when a value is not JSON
    serialisable even so; the statements hold for every [dump]. *)
From Coq Require Import String List Bool ZArith.
From TsdateV Require Import model.Glue proofs.GlueProv.
Import ListNotations.
Open Scope string_scope.

(** recording on (None or True): exactly one record is appended, all earlier records are kept in
    place; recording off: the table is unchanged *)
Theorem C33_exactly_one :
  forall (pv : Type) (pv_string : string -> pv) (record : Type) dump rp m g args
         (prov prov' : list record),
    date_provenance pv pv_string record dump rp m g args prov = Some prov' ->
    (recording rp = true ->
       exists r, dump (date_params pv pv_string m g args) = Some r /\ prov' = (prov ++ [r])%list) /\
    (recording rp = false -> prov' = prov).
Proof. exact date_exactly_one. Qed.
Print Assumptions C33_exactly_one.

Theorem C33_count_and_prefix :
  forall (pv : Type) (pv_string : string -> pv) (record : Type) dump rp m g args
         (prov prov' : list record),
    date_provenance pv pv_string record dump rp m g args prov = Some prov' ->
    length prov' = length prov + (if recording rp then 1 else 0) /\
    firstn (length prov) prov' = prov.
Proof. exact date_count. Qed.
Print Assumptions C33_count_and_prefix.

(** the appended record's parameter dict names the method and holds every generic parameter and
    every argument of [run()] with the value passed *)
Theorem C33_parameters_recorded :
  forall (pv : Type) (pv_string : string -> pv) m (g : generic pv) args,
    length args = length (run_keys m) ->
    let d := date_params pv pv_string m g args in
    pget pv "command" d = Some (pv_string (method_name m)) /\
    pget pv "mutation_rate" d = Some (g_mutation_rate pv g) /\
    pget pv "recombination_rate" d = Some (g_recombination_rate pv g) /\
    pget pv "time_units" d = Some (g_time_units pv g) /\
    pget pv "progress" d = Some (g_progress pv g) /\
    pget pv "population_size" d = Some (g_population_size pv g) /\
    Forall2 (fun k v => pget pv k d = Some v) (run_keys m) args.
Proof. exact date_parameters. Qed.
Print Assumptions C33_parameters_recorded.

(** preprocess_ts: one record at the end (the inner tskit / tsdate calls record nothing) *)
Theorem C33_preprocess_exactly_one :
  forall (pv : Type) (pv_string : string -> pv) (record : Type) dump rp p (prov prov' : list record),
    preprocess_provenance pv pv_string record dump rp p prov = Some prov' ->
    (recording rp = true ->
       exists r, dump (prep_final pv pv_string p) = Some r /\ prov' = (prov ++ [r])%list) /\
    (recording rp = false -> prov' = prov).
Proof. exact prep_exactly_one. Qed.
Print Assumptions C33_preprocess_exactly_one.

Theorem C33_preprocess_parameters :
  forall (pv : Type) (pv_string : string -> pv) (p : prep pv),
    let d := prep_final pv pv_string p in
    pget pv "command" d = Some (pv_string "preprocess_ts") /\
    pget pv "minimum_gap" d = Some (p_minimum_gap pv p) /\
    pget pv "erase_flanks" d = Some (p_erase_flanks pv p) /\
    pget pv "split_disjoint" d = Some (p_split_disjoint pv p) /\
    pget pv "filter_populations" d = Some (p_filter_populations pv p) /\
    pget pv "filter_individuals" d = Some (p_filter_individuals pv p) /\
    pget pv "filter_sites" d = Some (p_filter_sites pv p) /\
    pget pv "delete_intervals" d = Some (p_delete_intervals pv p).
Proof. exact prep_parameters. Qed.
Print Assumptions C33_preprocess_parameters.

(** the one way a dating call that records can fail to append its record: a parameter value that
    [json.dumps(..., default=_json_default)] cannot encode makes the whole call raise (no tree
    sequence is returned).  Before the repair of finding K4 (commit 41e0a45) numpy arrays, numpy
    integers and float32 were such values; they are now written as lists / python numbers, and no
    documented parameter form is left in this case *)
Theorem C33_undumpable_value_raises :
  forall (pv : Type) (pv_string : string -> pv) (record : Type) dump m g args (prov : list record) rp,
    recording rp = true -> dump (date_params pv pv_string m g args) = None ->
    date_provenance pv pv_string record dump rp m g args prov = None.
Proof. exact date_unserialisable. Qed.
Print Assumptions C33_undumpable_value_raises.

(** non-vacuity: an inside_outside call on a table with one earlier record *)
Example C33_nonvacuous :
  run_date_prov None 1%Z ex_generic [21; 22; 23; 24; 25; 26]%Z [[("command", 99%Z)]]
  = Some [[("command", 99%Z)];
          [("mutation_rate", 11%Z); ("recombination_rate", 12%Z); ("time_units", 13%Z); ("progress", 14%Z);
           ("population_size", 15%Z); ("eps", 21%Z); ("outside_standardize", 22%Z); ("ignore_oldest_root", 23%Z);
           ("probability_space", 24%Z); ("num_threads", 25%Z); ("cache_inside", 26%Z); ("command", (-2)%Z)]]
  /\ run_date_prov (Some false) 1%Z ex_generic [21; 22; 23; 24; 25; 26]%Z [[("command", 99%Z)]]
     = Some [[("command", 99%Z)]].
Proof. exact prov_example. Qed.
