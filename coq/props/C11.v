(** * C11 -- discrete-time dating is invariant to node numbering and input time order.
    Only statements, each closed by [exact]; proofs live in proofs/DiscreteInside.v and
    proofs/DiscreteOutside.v.

    The inside and outside passes visit the edges in an order derived from the input node
    times and ids (discrete.py:537-585).  The theorems say that this order cannot matter:
    the final values satisfy a system of equations (one per parent / child group) that has
    exactly one solution, by induction along ANY valid order.  They hold for every
    probability space, in particular for binary64 floats, where "the same" means bit for bit.

    Over the reals the order of the edges INSIDE a parent group does not matter either
    ([C11_inside_group_order_independent]; renumbering the children permutes a parent's edges,
    since tskit sorts them by child id); in floats this holds only up to rounding, which is
    why the property says "up to floating-point tolerance".

    NOT proved: (a) that a bijection on node ids commutes with the whole pipeline including
    prior construction and the constraint pass ([C11_relabel] of DESIGN.md); (b) the statement
    for the outside pass under re-ordering inside a child's group, and for
    [outside_maximization] up to ties.  These are covered by the metamorphic oracle of
    tools/props/c11.py (renumbering and valid re-timing through the public API), hence
    [_partial]. *)
From Coq Require Import List Arith Reals Permutation.
From TsdateV Require Import lib.Num model.Discrete proofs.DiscreteBase proofs.DiscreteInside
  proofs.DiscreteInsidePerm proofs.DiscreteOutside proofs.DiscreteEx.
Import ListNotations.

(** after the inside pass over any sequence of parent groups in a valid order (distinct
    parents, children first), the inside values satisfy the belief-propagation equations *)
Theorem C11_inside_equation : forall (P : Space) (G : nat) lik sfrac fixed prior std gs st st',
  inside_order fixed [] gs ->
  inside_groups P G lik sfrac fixed prior std st gs = Some st' ->
  (forall g, In g gs -> fixed (fst g) = false ->
     exists val, fold_msgs P G lik sfrac fixed (i_ins P st') (prior (fst g)) (snd g) = Some val /\
       let d := if std then npmax P val else s_id P in
       i_ins P st' (fst g) = Some (vratio P val d) /\ i_den P st' (fst g) = Some d) /\
  i_marg P st' = (if std then marg_acc P fixed (i_den P st') (i_marg P st) gs else i_marg P st).
Proof. exact inside_equation. Qed.
Print Assumptions C11_inside_equation.

(** two valid orders of the same parent groups give the same inside values and denominators *)
Theorem C11_inside_order_independent_partial :
  forall (P : Space) (G : nat) lik sfrac fixed prior std gs1 gs2 st1 st2 s1 s2,
  inside_order fixed [] gs1 -> inside_order fixed [] gs2 ->
  (forall g, In g gs1 <-> In g gs2) ->
  inside_groups P G lik sfrac fixed prior std s1 gs1 = Some st1 ->
  inside_groups P G lik sfrac fixed prior std s2 gs2 = Some st2 ->
  forall g, In g gs1 -> fixed (fst g) = false ->
    i_ins P st1 (fst g) = i_ins P st2 (fst g) /\ i_den P st1 (fst g) = i_den P st2 (fst g).
Proof. exact inside_order_independent. Qed.
Print Assumptions C11_inside_order_independent_partial.

(** linear space over the reals: the groups may in addition list their edges in a different order *)
Theorem C11_inside_group_order_independent :
  forall (G : nat) (lik : nat -> nat -> nat -> R) (sfrac : nat -> R) fixed (prior : nat -> list R) std
         gs1 gs2 st1 st2 s1 s2,
  inside_order fixed [] gs1 -> inside_order fixed [] gs2 ->
  (forall g, In g gs1 -> exists es', Permutation (snd g) es' /\ In (fst g, es') gs2) ->
  inside_groups LinR G lik sfrac fixed prior std s1 gs1 = Some st1 ->
  inside_groups LinR G lik sfrac fixed prior std s2 gs2 = Some st2 ->
  forall g, In g gs1 -> fixed (fst g) = false ->
    i_ins LinR st1 (fst g) = i_ins LinR st2 (fst g) /\ i_den LinR st1 (fst g) = i_den LinR st2 (fst g).
Proof. exact inside_group_order_independent. Qed.
Print Assumptions C11_inside_group_order_independent.

(** two valid orders (parents first) of the same child groups, started from outside maps that
    agree (the roots' initial values), give the same outside values; [st] is the state left by
    the inside pass, the three booleans are cache_inside / standardize / ignore_oldest_root *)
Theorem C11_outside_order_independent_partial :
  forall (P : Space) (G : nat) lik sfrac fixed (st : istate P) cache std ign num_nodes gs1 gs2 o1 o2 out1 out2,
  outside_order (map fst gs1) [] gs1 -> outside_order (map fst gs2) [] gs2 ->
  (forall g, In g gs1 <-> In g gs2) ->
  (forall u, o1 u = o2 u) ->
  out_groups P G lik sfrac fixed st cache std ign num_nodes o1 gs1 = Some out1 ->
  out_groups P G lik sfrac fixed st cache std ign num_nodes o2 gs2 = Some out2 ->
  forall g, In g gs1 -> fixed (fst g) = false -> out1 (fst g) = out2 (fst g).
Proof. exact outside_order_independent. Qed.
Print Assumptions C11_outside_order_independent_partial.

(** non-vacuity: a balanced 4-leaf tree over exact rationals; the two cherries can be visited in
    either order, both orders are valid, the pass succeeds and returns identical values *)
Example C11_nonvacuous :
  inside_order ex11_fixed [] [ex11_g4; ex11_g5; ex11_g6] /\
  inside_order ex11_fixed [] [ex11_g5; ex11_g4; ex11_g6] /\
  ex11_run [ex11_g4; ex11_g5; ex11_g6] = ex11_run [ex11_g5; ex11_g4; ex11_g6] /\
  ex11_run [ex11_g4; ex11_g5; ex11_g6] <> None.
Proof. exact C11_example. Qed.
