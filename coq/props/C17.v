(** * C17 -- population-size time transforms are exact and mutually inverse.
    Only statements, each closed by [exact]; proofs live in proofs/Demography*.v.
    Model: model/Demography.v (demography.py PopulationSizeHistory: _change_time_measure,
    __init__, to_natural_timescale, to_coalescent_timescale, as_dict, gamma_to_natural).
    All theorems are over the reals; doubles are covered by the correspondence (exact on
    dyadic histories) and by the oracle of tools/props/c17.py.
    NOT proved (tested by numerical quadrature only): that for SEVERAL epochs the mean and
    variance returned by gamma_to_natural equal the moments of the coalescent-scale gamma mapped
    to generations (no formal incomplete gamma function is available). *)
From Coq Require Import List Reals QArith.
From TsdateV Require Import lib.Num model.Rescale model.Demography proofs.RescalePW proofs.RescaleArea
  proofs.DemographyFacts proofs.DemographyMain.
Import ListNotations.
Open Scope R_scope.

(** the constructor accepts exactly: positive sizes, one more size than breaks, breaks
    positive and strictly increasing *)
Theorem C17_valid_histories : forall pop brks : list R,
  (exists h, mk_history RNum pop brks = Some h) <->
  (allpos pop /\ length (0 :: brks) = length pop /\ incr (0 :: brks)).
Proof. exact demo_valid_iff. Qed.
Print Assumptions C17_valid_histories.

(** generations -> coalescent units is the integral of 1/(2N): with i the epoch containing t,
    the result is  sum_{j<i} (b_{j+1} - b_j) / (2 N_j)  +  (t - b_i) / (2 N_i)
    (the telescoping of the code's [step] vector) *)
Theorem C17_is_integral : forall (pop brks : list R) h, mk_history RNum pop brks = Some h ->
  forall ts, nonneg_list ts ->
  exists out, to_coalescent RNum h ts = Some out /\ length out = length ts /\
    forall n, (n < length ts)%nat ->
      let t := nth n ts 0 in
      let i := widx RNum (0 :: brks) t in
      (i < length (0%R :: brks))%nat /\ nth i (0 :: brks) 0 <= t /\
      ((S i < length (0%R :: brks))%nat -> t < nth (S i) (0 :: brks) 0) /\
      nth n out 0
      = Rsum (map (fun j => (nth (S j) (0 :: brks) 0 - nth j (0 :: brks) 0) / (2 * nth j pop 0)) (seq 0 i))
        + (t - nth i (0 :: brks) 0) / (2 * nth i pop 0).
Proof. exact demo_integral. Qed.
Print Assumptions C17_is_integral.

(** negative times are rejected (the code's assertion), never mapped to junk *)
Theorem C17_rejects_negative : forall (pop brks : list R) h, mk_history RNum pop brks = Some h ->
  forall ts, (exists t, In t ts /\ t < 0) -> to_coalescent RNum h ts = None.
Proof. exact demo_rejects_negative. Qed.
Print Assumptions C17_rejects_negative.

(** converting back recovers the input, in both directions *)
Theorem C17_inverse : forall (pop brks : list R) h, mk_history RNum pop brks = Some h ->
  (forall ts, nonneg_list ts ->
     exists cs, to_coalescent RNum h ts = Some cs /\ to_natural RNum h cs = Some ts) /\
  (forall cs, nonneg_list cs ->
     exists ts, to_natural RNum h cs = Some ts /\ to_coalescent RNum h ts = Some cs).
Proof. exact demo_inverse. Qed.
Print Assumptions C17_inverse.

(** both maps are pointwise functions F, G on [0, oo) that fix 0, are strictly increasing and
    continuous and mutually inverse; inside epoch i, F is affine with slope 1/(2 N_i) (so
    1/(2N(t)) is its derivative at every non-break point: F is the integral) *)
Theorem C17_strictly_increasing_continuous : forall (pop brks : list R) h,
  mk_history RNum pop brks = Some h ->
  exists F G : R -> R,
    (forall ts, nonneg_list ts -> to_coalescent RNum h ts = Some (map F ts)) /\
    (forall cs, nonneg_list cs -> to_natural RNum h cs = Some (map G cs)) /\
    F 0 = 0 /\ G 0 = 0 /\
    (forall x y, 0 <= x -> x < y -> F x < F y) /\
    (forall x y, 0 <= x -> x < y -> G x < G y) /\
    continuous_on_nonneg F /\ continuous_on_nonneg G /\
    (forall t, 0 <= t -> G (F t) = t) /\ (forall c, 0 <= c -> F (G c) = c) /\
    (forall i x y, (i < length (0%R :: brks))%nat -> nth i (0 :: brks) 0 <= x -> x <= y ->
       ((S i < length (0%R :: brks))%nat -> y < nth (S i) (0 :: brks) 0) ->
       F y - F x = (y - x) / (2 * nth i pop 0)).
Proof. exact demo_monotone_continuous. Qed.
Print Assumptions C17_strictly_increasing_continuous.

(** as_dict() returns the constructor arguments, and rebuilding from it gives the same object *)
Theorem C17_as_dict_roundtrip : forall (pop brks : list R) h, mk_history RNum pop brks = Some h ->
  as_dict RNum h = (pop, brks) /\
  mk_history RNum (fst (as_dict RNum h)) (snd (as_dict RNum h)) = Some h.
Proof. exact demo_as_dict. Qed.
Print Assumptions C17_as_dict_roundtrip.

(** constant size: gamma_to_natural is the exactly rescaled gamma (shape, rate / 2N), for ANY
    functions satisfying the textbook identities of the incomplete gamma function at 0, of
    Gamma (recurrence, positivity), of the power function, of the normalising constant and of the scalar square *)
Theorem C17_gamma_constant_size :
  forall (ginc : R -> R -> R) (gam : R -> R) (powr : R -> R -> R) (cnorm : R -> R -> R) (sqs : R -> R),
  (forall x, sqs x = x * x) ->
  (forall a, 0 < a -> ginc a 0 = 0) ->
  (forall x, 0 < x -> 0 < gam x) ->
  (forall x, 0 < x -> gam (x + 1) = x * gam x) ->
  (forall r x, 0 < r -> 0 < powr r x) ->
  (forall r x, 0 < r -> powr r (x + 1) = r * powr r x) ->
  (forall s r, 0 < s -> 0 < r -> cnorm s r * gam s = powr r s) ->
  forall n h shape rate,
    mk_history RNum [n] [] = Some h -> 0 < shape -> 0 < rate ->
    gamma_to_natural RNum ginc gam powr cnorm sqs h shape rate = Some (shape, rate / (2 * n)).
Proof. exact gamma_constant_size. Qed.
Print Assumptions C17_gamma_constant_size.

(** non-vacuity: sizes (1, 2, 1/2) with breaks at 10 and 30 generations (coalescent breaks 5, 10),
    six times mapped forth and back (exh = the history object: coalescent breaks 0, 5, 10), the as_dict round trip, a rejected negative time; and a
    constant-size gamma with exact special-function values (shape 2, rate 5, N = 3) *)
Example C17_nonvacuous :
  (mk_history QNum exh_pop exh_brk = Some exh /\
   to_coalescent QNum exh [0; 5; 10; 20; 30; 40]%Q = Some [0; 5 # 2; 5; 15 # 2; 10; 20]%Q /\
   to_natural QNum exh [0; 5 # 2; 5; 15 # 2; 10; 20]%Q = Some [0; 5; 10; 20; 30; 40]%Q /\
   as_dict QNum exh = (exh_pop, exh_brk) /\
   to_coalescent QNum exh [-1]%Q = None) /\
  (mk_history QNum [3]%Q [] = Some exh1 /\
   gamma_to_natural QNum (fun _ _ => 0)%Q ex_gam ex_pow (fun _ _ => 25)%Q (fun x => x * x)%Q exh1 2%Q 5%Q
   = Some (2, 5 # 6)%Q).
Proof. exact (conj C17_example C17_gamma_example). Qed.
