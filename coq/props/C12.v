(** * C12 -- linear and logarithmic probability spaces agree.
    Only statements, each closed by [exact]; proofs live in proofs/DiscreteLog.v.

    The two spaces are the two instances [LinSpace] / [LogSpace] of model/Discrete.v; every
    algorithm of the model (inside_pass, outside_pass, outside_maximization) is ONE Gallina
    text parameterised by the space, so the two runs differ only in the operations below.
    Theorems are over the reals: [LinR] (model/../DiscreteBase.v) and [LogER], the logarithmic
    space over the extended line [ER] (-inf, +inf and NaN are values; model/DiscreteER.v).
    [rel l x] says that the log-space value [l] is -inf or finite and that [x] is its
    exponential (exp(-inf) = 0).

    What is proved: [logsumexp] (discrete.py:370-383) computes log(sum(exp)), and every
    operation of the logarithmic space is mapped to the linear one by exp, under the side
    condition of the property text (no linear denominator is 0, except 0/0 with div_0_null).
    NOT proved here: the induction over a whole inside/outside/maximization run that chains
    these operation-level facts (it needs the invariant that no denominator vanishes); that
    part of C12 is tested (both spaces run on generated inputs, tools/props/c12.py), hence
    the suffix [_partial] on the homomorphism theorem. *)
From Coq Require Import List Reals.
From TsdateV Require Import lib.Num model.Discrete model.DiscreteER proofs.DiscreteBase proofs.DiscreteLog.
Import ListNotations.
Open Scope R_scope.

(** logsumexp xs = log (sum_i exp x_i), for vectors of -inf / finite entries *)
Theorem C12_logsumexp_correct : forall l : list ER,
  Forall (fun x => x = ENInf \/ exists y, x = EFin y) l ->
  logsumexp ERNum ENInf er_exp er_log l
  = let s := fold_right (fun x acc => match x with EFin y => exp y | _ => 0 end + acc) 0 l in
    if Req_EM_T s 0 then ENInf else EFin (ln s).
Proof. exact logsumexp_correct. Qed.
Print Assumptions C12_logsumexp_correct.

(** ... and it is -inf exactly when every term is -inf *)
Theorem C12_logsumexp_neg_inf : forall l : list ER,
  Forall (fun x => x = ENInf \/ exists y, x = EFin y) l ->
  (logsumexp ERNum ENInf er_exp er_log l = ENInf <-> Forall (fun x => x = ENInf) l).
Proof. exact logsumexp_neg_inf_iff. Qed.
Print Assumptions C12_logsumexp_neg_inf.

(** exp maps every log-space operation to its linear counterpart (operation level) *)
Theorem C12_homomorphism_partial :
  rel (s_id LogER) (s_id LinR) /\ rel (s_null LogER) (s_null LinR) /\
  (* combine *)
  (forall a x b y, rel a x -> rel b y -> rel (s_comb LogER a b) (s_comb LinR x y)) /\
  (* ratio: non-zero linear denominator *)
  (forall a x b y, rel a x -> rel b y -> y <> 0 -> rel (s_ratio LogER a b) (s_ratio LinR x y)) /\
  (* ratio with div_0_null: 0/0 allowed, and it is the null constant in both spaces *)
  (forall a x b y, rel a x -> rel b y -> (y <> 0 \/ x = 0) -> rel (ratio0 LogER a b) (ratio0 LinR x y)) /\
  (* the row sums of rowsum_lower_tri / rowsum_upper_tri, and marginalize *)
  (forall l xs, Forall2 rel l xs -> rel (s_rsum LogER l) (s_rsum LinR xs)) /\
  (forall l xs, Forall2 rel l xs -> rel (s_msum LogER l) (s_msum LinR xs)) /\
  (* scale_geometric with a span fraction f > 0 *)
  (forall f v x, 0 < f -> rel v x -> rel (s_geom LogER (EFin f) v) (s_geom LinR f x)) /\
  (* np.max, <=, np.argmax: the maximisation picks the same index in both spaces *)
  (forall l xs, Forall2 rel l xs -> rel (npmax LogER l) (npmax LinR xs)) /\
  (forall a x b y, rel a x -> rel b y -> s_leb LogER a b = s_leb LinR x y) /\
  (forall l xs, Forall2 rel l xs -> argmax LogER l = argmax LinR xs) /\
  (* force_probability_space on a non-negative linear number *)
  (forall x, 0 <= x -> rel (s_oflin LogER (EFin x)) (s_oflin LinR x)).
Proof. exact homomorphism_ops. Qed.
Print Assumptions C12_homomorphism_partial.

(** non-vacuity: a vector mixing -inf and finite entries satisfies the hypothesis, and [rel]
    relates 0 ~ log 1 and -inf ~ 0 *)
Example C12_nonvacuous :
  Forall proper [ENInf; EFin 0; EFin 1] /\
  logsumexp ERNum ENInf er_exp er_log [ENInf; EFin 0; EFin 1] = EFin (ln (0 + (exp 0 + (exp 1 + 0)))) /\
  rel (EFin 0) 1 /\ rel ENInf 0.
Proof. exact C12_example. Qed.
