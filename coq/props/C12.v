(** * C12 -- linear and logarithmic probability spaces agree.
    Only statements, each closed by [exact]; proofs live in proofs/DiscreteLog.v.

    The two spaces are the two instances [LinSpace] / [LogSpace] of model/Discrete.v; every
    algorithm of the model (inside_pass, outside_pass, outside_maximization) is ONE Gallina
    text parameterised by the space, so the two runs differ only in the operations below.
    Theorems are over the reals: [LinR] (model/../DiscreteBase.v) and [LogER], the logarithmic
    space over the extended line [ER] (-inf, +inf and NaN are values; model/DiscreteER.v).
    [rel l x] says that the log-space value [l] is -inf or finite and that [x] is its
    exponential (exp(-inf) = 0).

    What is proved: [logsumexp] (discrete.py:370-383) computes log(sum(exp)); every
    operation of the logarithmic space is mapped to the linear one by exp, under the side
    condition of the property text (no linear denominator is 0, except 0/0 with div_0_null);
    and, at run level, the whole INSIDE pass: inside values and the returned marginal
    likelihood of the logarithmic run are the logarithms of those of the linear run, for every
    input (any DAG, several trees, span fractions), provided no linear denominator is 0.
    Also at run level: inside + outside pass together ([C12_inside_outside_agrees]: the returned
    likelihood and every posterior grid correspond, under the explicit premise that the linear
    run never divides by 0 except 0/0 under div_0_null), and outside_maximization returns the
    same indices in both spaces.
    NOT proved: that the premise "0/0 only under div_0_null" always holds for states produced by
    inside_pass (it does structurally -- a zero g_i forces a zero parent inside value -- but here
    it is a hypothesis); the cached-g_i variant; the final normalisation / mean and variance in
    core.py.  Those are tested (both spaces run on generated inputs, tools/props/c12.py). *)
From Coq Require Import List Reals.
From TsdateV Require Import lib.Num model.Discrete model.DiscreteER proofs.DiscreteBase proofs.DiscreteInside
  proofs.DiscreteOutside proofs.DiscreteLog proofs.DiscreteLogRun proofs.DiscreteOutRun proofs.DiscreteMaxRun.
Import ListNotations.
Open Scope R_scope.

(** logsumexp xs = log (sum_i exp x_i), for vectors of -inf / finite entries *)
Theorem C12_logsumexp_correct : forall l : list ER,
  Forall (fun x => x = ENInf \/ exists y, x = EFin y) l ->
  logsumexp ERNum ENInf er_exp er_log l
  = let s := fold_right (fun x acc => match x with EFin y => exp y | _ => 0 end + acc) 0 l in
    if Req_EM_T s 0 then ENInf else EFin (ln s).
Proof. exact logsumexp_correct. Qed.
Print Assumptions C12_logsumexp_correct.

(** ... and it is -inf exactly when every term is -inf *)
Theorem C12_logsumexp_neg_inf : forall l : list ER,
  Forall (fun x => x = ENInf \/ exists y, x = EFin y) l ->
  (logsumexp ERNum ENInf er_exp er_log l = ENInf <-> Forall (fun x => x = ENInf) l).
Proof. exact logsumexp_neg_inf_iff. Qed.
Print Assumptions C12_logsumexp_neg_inf.

(** exp maps every log-space operation to its linear counterpart (operation level) *)
Theorem C12_homomorphism_partial :
  rel (s_id LogER) (s_id LinR) /\ rel (s_null LogER) (s_null LinR) /\
  (* combine *)
  (forall a x b y, rel a x -> rel b y -> rel (s_comb LogER a b) (s_comb LinR x y)) /\
  (* ratio: non-zero linear denominator *)
  (forall a x b y, rel a x -> rel b y -> y <> 0 -> rel (s_ratio LogER a b) (s_ratio LinR x y)) /\
  (* ratio with div_0_null: 0/0 allowed, and it is the null constant in both spaces *)
  (forall a x b y, rel a x -> rel b y -> (y <> 0 \/ x = 0) -> rel (ratio0 LogER a b) (ratio0 LinR x y)) /\
  (* the row sums of rowsum_lower_tri / rowsum_upper_tri, and marginalize *)
  (forall l xs, Forall2 rel l xs -> rel (s_rsum LogER l) (s_rsum LinR xs)) /\
  (forall l xs, Forall2 rel l xs -> rel (s_msum LogER l) (s_msum LinR xs)) /\
  (* scale_geometric with a span fraction f > 0 *)
  (forall f v x, 0 < f -> rel v x -> rel (s_geom LogER (EFin f) v) (s_geom LinR f x)) /\
  (* np.max, <=, np.argmax: the maximisation picks the same index in both spaces *)
  (forall l xs, Forall2 rel l xs -> rel (npmax LogER l) (npmax LinR xs)) /\
  (forall a x b y, rel a x -> rel b y -> s_leb LogER a b = s_leb LinR x y) /\
  (forall l xs, Forall2 rel l xs -> argmax LogER l = argmax LinR xs) /\
  (* force_probability_space on a non-negative linear number *)
  (forall x, 0 <= x -> rel (s_oflin LogER (EFin x)) (s_oflin LinR x)).
Proof. exact homomorphism_ops. Qed.
Print Assumptions C12_homomorphism_partial.

(** run level, inside pass: [likL]/[likR] are the log-pmf / pmf tables, [priorL]/[priorR] the prior
    rows in the two spaces, span fractions [sfR e] > 0 enter the logarithmic run as [EFin (sfR e)];
    [gs] are the parent groups of the edge table in a valid order.  If no denominator of the
    linear run is 0, every inside vector of the logarithmic run is entrywise the logarithm of the
    linear one (-inf for 0), and so is the returned marginal likelihood. *)
Theorem C12_inside_pass_agrees :
  forall (G : nat) (likL : nat -> nat -> nat -> ER) (likR : nat -> nat -> nat -> R),
  (forall e i j, rel (likL e i j) (likR e i j)) ->
  forall (sfR : nat -> R), (forall e, 0 < sfR e) ->
  forall (fixed : nat -> bool) (priorL : nat -> list ER) (priorR : nat -> list R),
  (forall u, Forall2 rel (priorL u) (priorR u)) ->
  forall es (roots : list (nat * R)) stL mL stR mR,
  let gs := groupby e_parent es in
  inside_order fixed [] gs ->
  inside_pass LogER G likL (fun e => EFin (sfR e)) fixed priorL true es
      (map (fun rf => (fst rf, EFin (snd rf))) roots) = Some (stL, mL) ->
  inside_pass LinR G likR sfR fixed priorR true es roots = Some (stR, mR) ->
  (forall g d, In g gs -> fixed (fst g) = false -> i_den LinR stR (fst g) = Some d -> d <> 0) ->
  (forall rf, In rf roots -> 0 < snd rf /\ fixed (fst rf) = false /\ In (fst rf) (map fst gs)) ->
  (forall g, In g gs -> fixed (fst g) = false ->
     exists l xs, i_ins LogER stL (fst g) = Some l /\ i_ins LinR stR (fst g) = Some xs /\ Forall2 rel l xs) /\
  rel mL mR.
Proof. exact inside_pass_agree. Qed.
Print Assumptions C12_inside_pass_agrees.

(** run level, inside + outside pass.  [edge_safe G likR sfR stR std outR e]
    (proofs/DiscreteOutRun.v) is the premise of the property for one edge of the LINEAR run:
    wherever g_i of the edge is 0 the parent's inside value is 0 (so only 0/0 is divided, under
    div_0_null), and, with outside standardisation, the vector whose maximum is divided by has
    a non-zero maximum.  Then the marginal likelihood and, for every non-fixed child, the
    posterior grid inside*outside of the logarithmic run are the logarithms of the linear ones. *)
Theorem C12_inside_outside_agrees :
  forall (G : nat) (likL : nat -> nat -> nat -> ER) (likR : nat -> nat -> nat -> R),
  (forall e i j, rel (likL e i j) (likR e i j)) ->
  forall (sfR : nat -> R), (forall e, 0 < sfR e) ->
  forall (fixed : nat -> bool) (priorL : nat -> list ER) (priorR : nat -> list R),
  (forall u, Forall2 rel (priorL u) (priorR u)) ->
  forall es es_out (roots : list (nat * R)) nonfixed std ign num_nodes stL mL stR mR outL outR,
  let gs := groupby e_parent es in
  let gso := groupby e_child es_out in
  let rootsL := map (fun rf => (fst rf, EFin (snd rf))) roots in
  let sfL := fun e => EFin (sfR e) in
  inside_order fixed [] gs -> outside_order (map fst gso) [] gso ->
  (forall rf, In rf roots -> 0 < snd rf /\ fixed (fst rf) = false /\ In (fst rf) (map fst gs)) ->
  inside_pass LogER G likL sfL fixed priorL true es rootsL = Some (stL, mL) ->
  inside_pass LinR G likR sfR fixed priorR true es roots = Some (stR, mR) ->
  outside_pass LogER G likL sfL fixed stL false std ign num_nodes (EFin 0) es_out rootsL nonfixed = Some outL ->
  outside_pass LinR G likR sfR fixed stR false std ign num_nodes 0 es_out roots nonfixed = Some outR ->
  (forall g d, In g gs -> fixed (fst g) = false -> i_den LinR stR (fst g) = Some d -> d <> 0) ->
  (forall g e, In g gso -> In e (snd g) -> edge_safe G likR sfR stR std outR e) ->
  (std = true -> forall g val, In g gso -> fixed (fst g) = false ->
     out_edges LinR G likR sfR fixed stR false std ign num_nodes outR (repeat 1 G) (snd g) = Some val -> npmax LinR val <> 0) ->
  rel mL mR /\
  forall g, In g gso -> fixed (fst g) = false ->
    exists pl px, posterior_grid LogER stL outL (fst g) = Some pl /\ posterior_grid LinR stR outR (fst g) = Some px /\
      Forall2 rel pl px.
Proof. exact inside_outside_agree. Qed.
Print Assumptions C12_inside_outside_agrees.

(** run level, maximisation: given inside values and edge likelihoods that correspond under exp
    (positive likelihoods), outside_maximization returns exactly the same grid indices in the
    two spaces -- for every edge sequence, valid or not *)
Theorem C12_maximization_agrees :
  forall (fixed : nat -> bool) (insL : nat -> option (list ER)) (insR : nat -> option (list R)),
  (forall u, match insL u, insR u with
             | Some l, Some xs => Forall2 rel l xs
             | None, None => True
             | _, _ => False
             end) ->
  forall (poisL : nat -> nat -> nat -> ER) (poisR : nat -> nat -> nat -> R),
  (forall e p t, rel (poisL e p t) (poisR e p t)) -> (forall e p t, 0 < poisR e p t) ->
  forall n es,
  outside_maximization LogER fixed insL poisL n es = outside_maximization LinR fixed insR poisR n es.
Proof. exact maximization_agree. Qed.
Print Assumptions C12_maximization_agrees.

(** non-vacuity: a vector mixing -inf and finite entries satisfies the hypothesis, and [rel]
    relates 0 ~ log 1 and -inf ~ 0 *)
Example C12_nonvacuous :
  Forall proper [ENInf; EFin 0; EFin 1] /\
  logsumexp ERNum ENInf er_exp er_log [ENInf; EFin 0; EFin 1] = EFin (ln (0 + (exp 0 + (exp 1 + 0)))) /\
  rel (EFin 0) 1 /\ rel ENInf 0.
Proof. exact C12_example. Qed.
