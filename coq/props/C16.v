(** * C16 -- discretised prior grids hold the right probability masses.
    Only statements, each closed by [exact]; proofs live in proofs/PriorGrid.v.

    The distribution functions of scipy are universally quantified: [cdf i] / [ppf i]
    stand for the cdf / percent-point function of the prior of a node with [i]
    descendant tips; the facts used about them are explicit hypotheses (the ppf is a
    right inverse of the cdf on (0,1) and positive; the cdf vanishes at 0 and is strictly
    increasing on [0, oo)).  The time-scale maps of PopulationSizeHistory (property C17)
    are quantified the same way. *)
From Coq Require Import List ZArith QArith Reals Lra Sorted Permutation.
From TsdateV Require Import lib.Num model.PriorGrid proofs.PriorGrid.
Import ListNotations.
Open Scope R_scope.

(** [create_timepoints]: for every prior table with rows up to [max_n >= 2] and every
    [n_points >= 2], the call succeeds, the grid starts at 0, is STRICTLY increasing, and
    has at least [n_points] entries *)
Theorem C16_grid_strictly_increasing :
  forall (cdf ppf : nat -> R -> R) (max_n npts : nat),
  (2 <= max_n)%nat -> (2 <= npts)%nat ->
  (forall i p, (2 <= i <= max_n)%nat -> 0 < p < 1 -> cdf i (ppf i p) = p) ->
  (forall i p, (2 <= i <= max_n)%nat -> 0 < p < 1 -> 0 < ppf i p) ->
  exists ts, create_timepoints RNum cdf ppf max_n npts = Some (0 :: ts) /\
             StronglySorted Rlt (0 :: ts) /\ (npts - 1 <= length ts)%nat.
Proof. exact create_timepoints_increasing. Qed.
Print Assumptions C16_grid_strictly_increasing.

(** an integer [timepoints = k >= 2]: the stored (natural-scale) grid starts at 0 and is
    strictly increasing, given that the coalescent-to-natural map fixes 0 and is strictly
    increasing (C17) *)
Theorem C16_count_grid :
  forall (cdf ppf : nat -> R -> R) (to_c to_n : R -> R) (max_n k : nat),
  (2 <= max_n)%nat -> (2 <= k)%nat ->
  (forall i p, (2 <= i <= max_n)%nat -> 0 < p < 1 -> cdf i (ppf i p) = p) ->
  (forall i p, (2 <= i <= max_n)%nat -> 0 < p < 1 -> 0 < ppf i p) ->
  to_n 0 = 0 -> (forall x y, 0 <= x -> x < y -> to_n x < to_n y) ->
  exists ts, stored_timepoints RNum cdf ppf to_c to_n max_n (ReqCount RNum k) = Some (0 :: ts) /\
             StronglySorted Rlt (0 :: ts) /\ (k <= length ts)%nat.
Proof. exact count_grid. Qed.
Print Assumptions C16_count_grid.

(** a user grid (>= 2 distinct non-negative values, any order): the stored grid is exactly
    the user's grid, sorted -- given that natural -> coalescent -> natural is the identity
    (C17; in binary64 the round trip is exact only up to 1-2 ulp, see the check) *)
Theorem C16_user_grid :
  forall (cdf ppf : nat -> R -> R) (to_c to_n : R -> R) (max_n : nat) (g : list R),
  (forall x, 0 <= x -> to_n (to_c x) = x) ->
  (2 <= length g)%nat -> (forall x, In x g -> 0 <= x) -> NoDup g ->
  stored_timepoints RNum cdf ppf to_c to_n max_n (ReqGrid RNum g) = Some (sort RNum g) /\
  StronglySorted Rlt (sort RNum g) /\ Permutation (sort RNum g) g.
Proof. exact user_grid. Qed.
Print Assumptions C16_user_grid.

(** the row of a non-sample node ([fill_priors] + [standardize]) over a grid [0 :: ts]:
    entry 0 is 0; entry j >= 1 is the cdf mass of the interval (t_{j-1}, t_j] divided by
    [mx] = the largest cdf value (= cdf(t_max)) and by [rm]; all entries j >= 1 are in
    (0, 1] and one of them is exactly 1 *)
Theorem C16_row_masses :
  forall (F : R -> R) (ts : list R),
  StronglySorted Rlt (0 :: ts) -> ts <> [] -> F 0 = 0 ->
  (forall x y, 0 <= x -> x < y -> F x < F y) ->
  let cs := map F (0 :: ts) in
  exists mx rm, 0 < mx /\ 0 < rm /\ In mx cs /\ (forall c, In c cs -> c <= mx) /\
    prior_row RNum cs = Some (0 :: map (fun d => d / mx / rm) (diff RNum cs)) /\
    Forall (fun x => 0 < x <= 1) (map (fun d => d / mx / rm) (diff RNum cs)) /\
    In 1 (map (fun d => d / mx / rm) (diff RNum cs)).
Proof. exact prior_row_cdf. Qed.
Print Assumptions C16_row_masses.

(** rows exist exactly for the non-sample nodes, once each *)
Theorem C16_samples_have_no_row :
  forall (N : Num) (num_nodes : nat) (is_sample : nat -> bool) (time : nat -> T N),
  NoDup (nonfixed_nodes N num_nodes is_sample time) /\
  forall u, In u (nonfixed_nodes N num_nodes is_sample time) <-> (u < num_nodes)%nat /\ is_sample u = false.
Proof. exact nonfixed_spec. Qed.
Print Assumptions C16_samples_have_no_row.

(** non-vacuity: exact run on Q with a toy family cdf_i(t) = t/(t+i^2), ppf_i(p) = i^2 p/(1-p):
    a timepoint (80) is added by the thinning loop; a row; the node order *)
Example C16_nonvacuous :
  create_timepoints QNum toy_cdf toy_ppf 4 6 = Some [0; 4 # 5; 2 # 1; 4 # 1; 8 # 1; 20 # 1; 80 # 1]%Q /\
  prior_row QNum (map (toy_cdf 3) [0; 4 # 5; 2 # 1; 4 # 1; 8 # 1; 20 # 1; 80 # 1]%Q)
    = Some [0; 493 # 1323; 493 # 1078; 493 # 858; 29 # 39; 1; 85 # 89]%Q /\
  nonfixed_nodes QNum 6 (fun u => Nat.ltb u 3) (fun u => nth u [0; 0; 0; 5 # 1; 2 # 1; 3 # 1]%Q 0%Q)
    = [4; 5; 3]%nat.
Proof. exact C16_example. Qed.
