(** * C34 -- the command-line interface is faithful to the Python API.
    Only statements, each closed by [exact].  [cli] is gen/CliGen.v, regenerated from
    tsdate/cli.py on every run; the argparse / run_date semantics is model/Cli.v; the
    checkers ([spec_wf], [date_values_arrive], ...) are defined and explained in
    proofs/CliFacts.v and evaluated on the regenerated table by [vm_compute]. *)
From Coq Require Import List String.
From TsdateV Require Import model.Cli gen.CliGen proofs.CliFacts.
Import ListNotations.
Open Scope string_scope.

(** the regenerated tables are well formed: no flag or dest twice in a sub-parser, flags
    look like options, count/store_true defaults, file names first, truth spellings disjoint,
    the branch method of run_date is one of the --method choices, no API keyword bound twice *)
Theorem C34_table_wellformed : spec_wf cli = true.
Proof. exact cli_wf. Qed.
Print Assumptions C34_table_wellformed.

(** FULL STATEMENT (not provable today, finding K6): every option of either sub-parser,
    other than the file names / -v / -V, is, for every method, either bound to an API
    keyword or makes the command exit when given.
    PROVED: the same with the single exception (--epsilon, variational_gamma), which is
    parsed, not rejected and not forwarded (K6).  If that hole is closed the theorem
    still holds. *)
Theorem C34_every_option_reaches_api_partial :
  (forall m o, In m (methods cli) -> In o (c_date_options cli) -> api_option cli o = true ->
     (exists k, In (k, o_dest o) (branch_params cli m))
     \/ In (o_dest o) (branch_forbidden cli m)
     \/ (m = "variational_gamma" /\ o_dest o = "epsilon"))
  /\ (forall o, In o (c_preprocess_options cli) -> api_option cli o = true ->
        exists k, In (k, o_dest o) (c_preprocess_params cli)).
Proof. exact every_option_reaches_api_partial. Qed.
Print Assumptions C34_every_option_reaches_api_partial.

(** for EVERY parsed namespace: a call made by run_date / run_preprocess binds each API
    keyword of the mapping to the namespace value of its option *)
Theorem C34_call_keywords_are_the_mapping :
  (forall n api i o kws, run_date cli n = Call api i o kws ->
     api = "date" /\
     forall k d, In (k, d) (c_direct cli) \/
                 In (k, d) (if match getv n "method" with
                               | VStr s => String.eqb s (c_branch_method cli) | _ => false end
                            then c_then_params cli else c_else_params cli) ->
                 In (k, getv n d) kws)
  /\ (forall n k d, In (k, d) (c_preprocess_params cli) ->
        exists i o kws, run_preprocess cli n = Call "preprocess_ts" i o kws /\ In (k, getv n d) kws).
Proof. exact call_keywords_are_the_mapping. Qed.
Print Assumptions C34_call_keywords_are_the_mapping.

(** end to end through the argparse model, for every method x forwarded option x flag
    spelling x sample value (floats incl. negative and exponent form, ints, strings, every
    choice, ten boolean spellings), option before or after the file names, and given twice
    (last wins): the API keyword receives the converted value; options that are not given
    deliver the table default *)
Theorem C34_parsed_values_arrive :
  date_values_arrive cli = true /\ preprocess_values_arrive cli = true /\ defaults_arrive cli = true.
Proof. exact parsed_values_arrive. Qed.
Print Assumptions C34_parsed_values_arrive.

(** every boolean option can be switched off and on: "False"/"false"/"0"/"no"/... deliver
    False, "True"/... deliver True, for every flag spelling; store_true flags deliver False
    when absent (this is the theorem that was false before repair f473e6d: type=bool) *)
Theorem C34_booleans_can_be_switched_off : bool_options_switch cli = true.
Proof. exact cli_bools. Qed.
Print Assumptions C34_booleans_can_be_switched_off.

(** invalid combinations exit with an error and call nothing: an option the chosen method
    does not use (each method x each such option x each spelling x both positions), the
    deprecated positional population size, unknown method / option / sub-command, missing
    file names, an option without its argument, a boolean that is neither true nor false *)
Theorem C34_invalid_combinations_exit : invalid_combinations_exit cli = true.
Proof. exact cli_invalid. Qed.
Print Assumptions C34_invalid_combinations_exit.

Example C34_nonvacuous :
  methods cli = ["inside_outside"; "maximization"; "variational_gamma"] /\
  List.length (filter (api_option cli) (c_date_options cli)) = 11%nat /\
  List.length (filter (api_option cli) (c_preprocess_options cli)) = 3%nat /\
  (let r := cli_main cli ["preprocess"; "in.trees"; "out.trees"; "--erase-flanks"; "False"; "--split-disjoint"; "no"] in
   kw_is r "preprocess_ts" "erase_flanks" (VBool false) = true /\
   kw_is r "preprocess_ts" "split_disjoint" (VBool false) = true) /\
  (let r := cli_main cli ["date"; "in.trees"; "out.trees"; "-m"; "1e-8"; "--method"; "maximization"; "-n"; "100"; "-m"; "2e-8"] in
   kw_is r "date" "mutation_rate" (VFloatOf "2e-8") = true /\
   kw_is r "date" "population_size" (VFloatOf "100") = true /\
   kw_is r "date" "method" (VStr "maximization") = true /\
   kw_is r "date" "probability_space" VNone = true) /\
  cli_main cli ["date"; "in.trees"; "out.trees"; "-m"; "1e-8"; "-n"; "100"] = ExitError.
Proof. exact example_nonvacuous. Qed.
