(** * C05 -- variational posteriors are proper, precision-capped gammas.
    Only statements, each closed by [exact]; proofs in proofs/EPProper.v, EPEx.v.
    Model: coq/model/EP.v.  Natural parameters (alpha, beta): shape = alpha + 1, rate = beta;
    [proper S x]  :=  x = (0,0)  \/  (1/S <= shape <= S  /\  rate > 0).

    NOT proved here (stated so in the manifest; explored only by the oracle):
    - [C05_every_node_updated]: that no non-sample node is LEFT at the improper initial (0,0)
      depends on the Laplace approximants producing at least one valid message per node;
    - [C05_rescaled_shape_capped]: the re-projection of [rescaling.piecewise_scale_posterior] /
      [approx.approximate_gamma_iqr] after time rescaling, and the mutation posteriors of
      [propagate_mutations], are outside this model. *)
From Coq Require Import List Reals Lra QArith.
From TsdateV Require Import lib.Num model.EP proofs.EPSpec proofs.EPProper proofs.EPEx.
Import ListNotations.
Open Scope R_scope.

(** every sequence of EP operations run with cap [S >= 1], ARBITRARY projection results (valid,
    skipped or garbage): if no assertion fires, every posterior stays proper.  (An improper
    projection result makes [_rescale] assert, which is [None] here.) *)
Theorem C05_state_invariant : forall (tiny infty : R) nE ep ec nB bj bk nN (lo hi : nat -> R) (Orc : Type)
    (project : Orc -> call RNum -> option (V2 RNum * V2 RNum * Orc)) (S : R) ops so so',
  1 <= S -> Forall (shape_is S) ops ->
  run_ops RNum tiny infty nE ep ec nB bj bk nN lo hi Orc project ops so = Some so' ->
  (forall u, proper S (post (fst so) u)) -> forall u, proper S (post (fst so') u).
Proof. exact C05_inv. Qed.
Print Assumptions C05_state_invariant.

(** any number of [iterate] calls from the state built by [__init__] *)
Theorem C05_after_iterations : forall (tiny infty : R) nE ep ec nB bj bk nN (lo hi : nat -> R) (Orc : Type)
    (project : Orc -> call RNum -> option (V2 RNum * V2 RNum * Orc)) (S : R)
    block_order edge_order blik elik free s mx rt regularise k o so',
  1 <= S ->
  iterate_n RNum tiny infty nE ep ec nB bj bk nN lo hi Orc project block_order edge_order blik elik
    free S s mx rt regularise k (init, o) = Some so' ->
  forall u, proper S (post (fst so') u).
Proof. exact C05_iters. Qed.
Print Assumptions C05_after_iterations.

(** what [node_moments] reports for an updated free node: positive mean and variance, and
    mean^2 / variance = shape <= max_shape *)
Theorem C05_moments_proper : forall (lo hi : nat -> R) (S : R) (st : state RNum) u,
  1 <= S -> proper S (post st u) -> post st u <> (0, 0) -> eqb RNum (lo u) (hi u) = false ->
  0 < fst (node_moments RNum lo hi st u) /\ 0 < snd (node_moments RNum lo hi st u) /\
  fst (node_moments RNum lo hi st u) * fst (node_moments RNum lo hi st u) / snd (node_moments RNum lo hi st u)
    = fst (post st u) + 1 /\
  fst (node_moments RNum lo hi st u) * fst (node_moments RNum lo hi st u) / snd (node_moments RNum lo hi st u) <= S.
Proof. exact C05_mom. Qed.
Print Assumptions C05_moments_proper.

(** [_rescale]: the factor it returns caps the shape into [1/S, S] and keeps the rate positive *)
Theorem C05_rescale_caps_shape : forall (S : R) (x : V2 RNum) eta,
  1 <= S -> rescale1 x S = Some eta -> proper S (vscal x eta).
Proof. exact rescale1_proper. Qed.
Print Assumptions C05_rescale_caps_shape.

(** [_damp]: either everything is zero and delta = 1, or 0 < delta <= 1 and the damped cavity
    keeps at least the fraction [s] of the shape and of the rate (so it stays proper) *)
Theorem C05_damp_keeps_positive : forall (x y : V2 RNum) (s d : R),
  damp x y s = Some d ->
  d = 1 /\ x = (0, 0) /\ y = (0, 0) \/
  (0 < s < 1 /\ 0 < fst x + 1 /\ 0 < snd x /\ 0 < d <= 1 /\
   s * (fst x + 1) <= fst x + 1 - d * fst y /\ s * snd x <= snd x - d * snd y).
Proof. exact damp_spec. Qed.
Print Assumptions C05_damp_keeps_positive.

(** the phase switch of [infer]: a fitted phase in [0,1] is stored as a value in [1/2, 1], and it
    is the probability of the edge the mutation is placed on *)
Theorem C05_phase_in_half_one : forall p : R, 0 <= p <= 1 ->
  1 / 2 <= switch_phase RNum (1 / 2) p <= 1.
Proof. exact switch_phase_range. Qed.
Print Assumptions C05_phase_in_half_one.

Theorem C05_switch_consistent : forall (first second : nat) (p : R), 0 <= p <= 1 ->
  (switch_edge RNum (1 / 2) first second p = first /\ switch_phase RNum (1 / 2) p = p) \/
  (switch_edge RNum (1 / 2) first second p = second /\ switch_phase RNum (1 / 2) p = 1 - p).
Proof. exact switch_consistent. Qed.
Print Assumptions C05_switch_consistent.

(** non-vacuity: exact rational run in which the cap fires: shape exactly 20, rate > 0 *)
Example C05_nonvacuous : exQ_capped = true.
Proof. exact exQ_capped_ok. Qed.
