(** * C18 -- EP moment updates respect support and match the true tilted moments.
    Only statements, each closed by [exact]; proofs live in proofs/ApproxC18.v.

    Everything here is about the text REGENERATED from tsdate/approx.py and tsdate/hypergeo.py by
    tools/translate.py on every check (gen/ApproxGen.v, gen/HypergeoGen.v), instantiated over the
    reals: [RF lgam eg] interprets exp/log/sqrt as the real functions, [lgamma] and Euler's
    constant as arbitrary parameters, and np.isfinite as "true".  [H] is the record of the
    functions approx.py calls in hypergeo.py (the three Laplace approximants, betaln).

    What is NOT proved (no formal 2F1 / 1F1 / U here): that the Laplace-approximated means are
    within a few percent of the true tilted means, and that they lie in the support.  Those
    clauses are decided by the oracle of tools/props/c18.py (mpmath integration). *)
From Coq Require Import Reals Lra.
From TsdateV Require Import lib.Num model.ApproxBase gen.HypergeoGen gen.ApproxGen gen.GenEqC18
  proofs.ApproxTac proofs.ApproxC18.
Open Scope R_scope.

(** Every projection wrapper either skips ([Ok Nan]: `return nan, ...`), or returns the natural
    parameters [(mn^2/va - 1, mn/va)] of a gamma matched to a positive mean and a positive
    variance -- hence shape > 0 and rate > 0 ([is_mom_proper]) -- and, for the mutation
    wrappers, a phase probability in [0, 1]; the projection's own exception is never raised
    (the only possible failures are assertions).  [ok1 / ok2 / okp] spell this out per result
    shape.  Holds for ANY Laplace approximants that only assert. *)
Theorem C18_skip_or_valid : forall (lgam : R -> R) (eg : R) (H : HypFns RNum),
  hyp_noKL H ->
  let F := RF lgam eg in
  (forall pi pj pij, ok2 (gamma_projection RNum F H pi pj pij)) /\
  (forall pi pj pij, ok2 (unphased_projection RNum F H pi pj pij)) /\
  (forall t pj pij, ok1 (leafward_projection RNum F H t pj pij)) /\
  (forall t pi pij, ok1 (rootward_projection RNum F H t pi pij)) /\
  (forall t pj pij, ok1 (sideways_projection RNum F H t pj pij)) /\
  (forall pi pij, ok1 (twin_projection RNum F H pi pij)) /\
  (forall pi pj pij, okp (mutation_gamma_projection RNum F H pi pj pij)) /\
  (forall t pj pij, okp (mutation_leafward_projection RNum F H t pj pij)) /\
  (forall t pi pij, okp (mutation_rootward_projection RNum F H t pi pij)) /\
  (forall t_i t_j, okp (mutation_edge_projection RNum F H t_i t_j)) /\
  (forall pi pj pij, okp (mutation_unphased_projection RNum F H pi pj pij)) /\
  (forall pi pij, okp (mutation_twin_projection RNum F H pi pij)) /\
  (forall t pj pij, okp (mutation_sideways_projection RNum F H t pj pij)) /\
  (forall t_i t_j, okp (mutation_block_projection RNum F H t_i t_j)).
Proof. exact C18_skip_or_valid_any. Qed.
Print Assumptions C18_skip_or_valid.

(** ... in particular with the regenerated Laplace approximants of hypergeo.py plugged in
    (they only assert): no hypothesis left. *)
Theorem C18_skip_or_valid_linked : forall (lgam : R -> R) (eg : R),
  all_wrappers_ok (RF lgam eg) (hypfns RNum (RF lgam eg)).
Proof. exact C18_skip_or_valid_linked. Qed.
Print Assumptions C18_skip_or_valid_linked.

Theorem C18_valid_means_proper : forall p, is_mom p -> 0 < fst p + 1 /\ 0 < snd p.
Proof. exact is_mom_proper. Qed.

(** Closed-form cases are exact.
    (i)  child at time zero: cavity kernel x Poisson kernel is the kernel of Gamma(a+y, b+mu);
         the moment function returns that gamma's log normaliser, mean s/r and variance s/r^2,
         and the projection returns its natural parameters: cavity + likelihood, the exact
         conjugate update.
    (ii) both ends fixed: mean and variance of the uniform distribution on [t_j, t_i], mean
         strictly inside, never skipped.
    (iii) twin blocks: Gamma(a+y, b+2mu), same three facts. *)
Theorem C18_closed_forms_exact : forall (lgam : R -> R) (eg : R) (H : HypFns RNum),
  let F := RF lgam eg in
  (forall a b y mu t, 0 < t ->
     (Rpower t (a - 1) * exp (- b * t)) * (Rpower t y * exp (- mu * t))
     = Rpower t (a + y - 1) * exp (- (b + mu) * t)) /\
  (forall a_i b_i y mu, 0 < a_i + y -> 0 < mu + b_i ->
     rootward_moments RNum F H 0 a_i b_i y mu =
       Ok (Val (lgam (a_i + y) - (a_i + y) * ln (mu + b_i),
                (a_i + y) / (mu + b_i), (a_i + y) / ((mu + b_i) * (mu + b_i))))) /\
  (forall a_i b_i y mu, 0 < a_i + 1 + y -> 0 < b_i + mu ->
     exists logl, rootward_projection RNum F H 0 (a_i, b_i) (y, mu) = Ok (Val (logl, (a_i + y, b_i + mu)))) /\
  (forall t_i t_j,
     mutation_edge_moments RNum F H t_i t_j = (1 / 2 * (t_i + t_j), 1 / 12 * ((t_i - t_j) * (t_i - t_j)))) /\
  (forall t_i t_j, t_j < t_i -> 0 < t_i + t_j ->
     let mn := 1 / 2 * (t_i + t_j) in
     let va := 1 / 12 * ((t_i - t_j) * (t_i - t_j)) in
     mutation_edge_projection RNum F H t_i t_j = Ok (Val (1, (mn * mn / va - 1, mn / va)))
     /\ t_j < mn < t_i /\ 0 < va) /\
  (forall a b y mu t, 0 < t ->
     (Rpower t (a - 1) * exp (- b * t)) * (Rpower (2 * t) y * exp (- mu * (2 * t)))
     = Rpower 2 y * (Rpower t (a + y - 1) * exp (- (b + 2 * mu) * t))) /\
  (forall a b y mu,
     twin_moments RNum F H a b y mu =
       (ln 2 * y + lgam (a + y) - ln (b + 2 * mu) * (a + y),
        (a + y) / (b + 2 * mu), (a + y) / ((b + 2 * mu) * (b + 2 * mu)))) /\
  (forall a_i b_i y mu, 0 < a_i + 1 + y -> 0 < b_i + 2 * mu ->
     exists logl, twin_projection RNum F H (a_i, b_i) (y, mu) = Ok (Val (logl, (a_i + y, b_i + 2 * mu)))).
Proof.
  exact (fun lgam eg H =>
    conj (kernel_conj) (conj (rootward0 lgam eg H) (conj (rootward_projection_conjugate lgam eg H)
    (conj (edge_moments_uniform lgam eg H) (conj (edge_projection_closed lgam eg H)
    (conj (kernel_twin) (conj (twin_moments_closed lgam eg H) (twin_projection_conjugate lgam eg H)))))))).
Qed.
Print Assumptions C18_closed_forms_exact.

(** In the closed-form cases the returned mean lies in the support of the tilted distribution and the
    variance is positive: a free parent above a child at time zero, a twin block, a mutation between
    two fixed ends, a mutation between a child at time zero and its parent's mean. *)
Theorem C18_mean_in_support_closed : forall (lgam : R -> R) (eg : R) (H : HypFns RNum),
  let F := RF lgam eg in
  (forall a_i b_i y mu l m v, 0 < a_i + y -> 0 < mu + b_i ->
     rootward_moments RNum F H 0 a_i b_i y mu = Ok (Val (l, m, v)) -> 0 < m /\ 0 < v) /\
  (forall a b y mu, 0 < a + y -> 0 < b + 2 * mu ->
     0 < snd (fst (twin_moments RNum F H a b y mu)) /\ 0 < snd (twin_moments RNum F H a b y mu)) /\
  (forall t_i t_j, t_j < t_i ->
     t_j < fst (mutation_edge_moments RNum F H t_i t_j) < t_i /\ 0 < snd (mutation_edge_moments RNum F H t_i t_j)) /\
  (forall a_i b_i y mu m v, 0 < a_i + y -> 0 < mu + b_i ->
     mutation_rootward_moments RNum F H 0 a_i b_i y mu = Ok (Val (m, v)) ->
     0 < m < (a_i + y) / (mu + b_i) /\ 0 < v).
Proof.
  exact (fun lgam eg H =>
    conj (support_rootward0 lgam eg H) (conj (support_twin lgam eg H)
    (conj (support_edge lgam eg H) (support_mutation_rootward0 lgam eg H)))).
Qed.
Print Assumptions C18_mean_in_support_closed.

(** The mutation variants are the corresponding mixtures: a mutation is uniform on its branch, so
    its first two moments are E[(t_i + t_j)/2] and E[(t_i^2 + t_i t_j + t_j^2)/3] over the node
    update; whenever the node mean lies in the support so does the mutation mean, and its variance
    is positive whenever the node variance is.  With two fixed parents (block) the update is a
    mixture of two uniforms and is never skipped. *)
Theorem C18_mutation_mixtures : forall (lgam : R -> R) (eg : R) (H : HypFns RNum),
  let F := RF lgam eg in
  (forall t_j a b y mu,
     mutation_rootward_moments RNum F H t_j a b y mu =
     match rootward_moments RNum F H t_j a b y mu with
     | Ok (Val (_, m, v)) =>
         Ok (Val (m / 2 + t_j / 2, (v + m * m + m * t_j + t_j * t_j) / 3 - (m / 2 + t_j / 2) * (m / 2 + t_j / 2)))
     | Ok Nan => Ok Nan
     | Err e => Err e
     end) /\
  (forall t_i a b y mu,
     mutation_leafward_moments RNum F H t_i a b y mu =
     match leafward_moments RNum F H t_i a b y mu with
     | Ok (Val (_, m, v)) =>
         Ok (Val (m / 2 + t_i / 2, (v + m * m + m * t_i + t_i * t_i) / 3 - (m / 2 + t_i / 2) * (m / 2 + t_i / 2)))
     | Ok Nan => Ok Nan
     | Err e => Err e
     end) /\
  (forall t m : R, t < m -> t < m / 2 + t / 2 < m) /\
  (forall t m : R, m < t -> m < m / 2 + t / 2 < t) /\
  (forall t m v : R, 0 < v -> 0 < (v + m * m + m * t + t * t) / 3 - (m / 2 + t / 2) * (m / 2 + t / 2)) /\
  (forall a b y mu, b + 2 * mu <> 0 ->
     let '(_, m, v) := twin_moments RNum F H a b y mu in
     mutation_twin_moments RNum F H a b y mu = (5 / 10, m / 2, (v + m * m) / 3 - m / 2 * (m / 2))) /\
  (forall t_i t_j, 0 < t_i -> 0 < t_j ->
     exists pr p, mutation_block_projection RNum F H t_i t_j = Ok (Val (pr, p)) /\
       pr = t_i / (t_i + t_j) /\ 0 < pr < 1 /\ is_mom p).
Proof.
  exact (fun lgam eg H =>
    conj (mutation_rootward_mixture lgam eg H) (conj (mutation_leafward_mixture lgam eg H)
    (conj mutation_mean_between (conj mutation_mean_between' (conj mutation_mixture_var_pos
    (conj (mutation_twin_mixture lgam eg H) (block_projection_closed lgam eg H))))))).
Qed.
Print Assumptions C18_mutation_mixtures.

(** the text these theorems are about is, function by function, convertible with the frozen
    copy under coq/model (an edit of any formula C18 is about breaks this) *)
Theorem C18_text_unchanged : unchanged_C18.
Proof. exact unchanged_C18_holds. Qed.

(** non-vacuity: a concrete conjugate update (cavity Gamma(2, 2), three mutations on a branch of
    mutational span 1, child at time zero) is not skipped and gives Gamma(5, 3) *)
Example C18_nonvacuous : forall lgam eg (H : HypFns RNum),
  exists logl, rootward_projection RNum (RF lgam eg) H 0 (1, 2) (3, 1) = Ok (Val (logl, (1 + 3, 2 + 1))).
Proof. exact C18_example. Qed.
