(** * C21 -- EP message bookkeeping is consistent after every iteration.
    Only statements, each closed by [exact]; proofs live in proofs/EPSpec.v, EPInv.v, EPEx.v.
    The model is coq/model/EP.v; projections ([approx.*_projection]) are an ARBITRARY, possibly
    stateful oracle [project], so nothing below depends on their numerics. *)
From Coq Require Import List Reals Lra QArith.
From TsdateV Require Import lib.Num model.EP proofs.EPSpec proofs.EPInv proofs.EPEx.
Import ListNotations.
Open Scope R_scope.

(** For every sequence of operations (likelihood passes over blocks or edges in any order and
    with any repetition, prior updates with the EM penalty or any penalty, [_rescale_factors]
    anywhere), every damping/capping outcome and every projection oracle: if no assertion
    fires and every [max_shape] used is > 1, then
    [posterior u = scale u * (sum of all edge, block, prior and constraint messages to u)]
    and [scale u > 0] are preserved. *)
Theorem C21_invariant : forall (tiny infty : R) nE ep ec nB bj bk nN (lo hi : nat -> R)
    (Orc : Type) (project : Orc -> call RNum -> option (V2 RNum * V2 RNum * Orc)) ops so so',
  Forall shape_ok ops ->
  run_ops RNum tiny infty nE ep ec nB bj bk nN lo hi Orc project ops so = Some so' ->
  consistent nE ep ec nB bj bk (fst so) -> (forall u, 0 < scl (fst so) u) ->
  consistent nE ep ec nB bj bk (fst so') /\ (forall u, 0 < scl (fst so') u).
Proof. exact C21_inv. Qed.
Print Assumptions C21_invariant.

(** one [iterate] (blocks, edges, optional root prior, final [_rescale_factors]) from a
    consistent state ends with [scale = 1] and [_assemble_factors(factors) = posterior] *)
Theorem C21_after_iterate : forall (tiny infty : R) nE ep ec nB bj bk nN (lo hi : nat -> R)
    (Orc : Type) (project : Orc -> call RNum -> option (V2 RNum * V2 RNum * Orc))
    block_order edge_order blik elik free S s mx rt regularise so so',
  1 < S ->
  iterate RNum tiny infty nE ep ec nB bj bk nN lo hi Orc project block_order edge_order blik elik
    free S s mx rt regularise so = Some so' ->
  consistent nE ep ec nB bj bk (fst so) -> (forall u, 0 < scl (fst so) u) ->
  (forall u, scl (fst so') u = 1) /\
  (forall u, post (fst so') u = assemble RNum nE ep ec nB bj bk (fst so') u) /\
  consistent nE ep ec nB bj bk (fst so').
Proof. exact C21_iter. Qed.
Print Assumptions C21_after_iterate.

(** any positive number of iterations from the state built by [__init__] *)
Theorem C21_after_every_iteration : forall (tiny infty : R) nE ep ec nB bj bk nN (lo hi : nat -> R)
    (Orc : Type) (project : Orc -> call RNum -> option (V2 RNum * V2 RNum * Orc))
    block_order edge_order blik elik free S s mx rt regularise k o so',
  1 < S ->
  iterate_n RNum tiny infty nE ep ec nB bj bk nN lo hi Orc project block_order edge_order blik elik
    free S s mx rt regularise (Datatypes.S k) (init, o) = Some so' ->
  (forall u, scl (fst so') u = 1) /\
  (forall u, post (fst so') u = assemble RNum nE ep ec nB bj bk (fst so') u).
Proof. exact C21_iter_n. Qed.
Print Assumptions C21_after_every_iteration.

(** [_rescale_factors] changes no posterior, resets the scale, and leaves the messages
    summing to the posterior *)
Theorem C21_rescale_factors_neutral : forall nE ep ec nB bj bk (st : state RNum),
  consistent nE ep ec nB bj bk st -> (forall u, 0 < scl st u) ->
  (forall u, post (rescale_factors RNum ep ec bj bk st) u = post st u) /\
  (forall u, scl (rescale_factors RNum ep ec bj bk st) u = 1) /\
  (forall u, post st u = assemble RNum nE ep ec nB bj bk (rescale_factors RNum ep ec bj bk st) u).
Proof. exact C21_rf. Qed.
Print Assumptions C21_rescale_factors_neutral.

(** for EVERY numeric instance (reals, rationals, binary64): no operation writes the
    posterior of a node whose lower and upper constraints coincide (as long as the prior is
    only applied to unconstrained nodes), and [node_moments] reports its constraint with
    variance zero *)
Theorem C21_fixed_untouched : forall (N : Num) (tiny infty : T N) nE ep ec nB bj bk nN (lo hi : nat -> T N)
    (Orc : Type) (project : Orc -> call N -> option (V2 N * V2 N * Orc)) ops so so' w,
  Forall (fun o => forall u, op_free N o u = true -> fixedb N lo hi u = false) ops ->
  run_ops N tiny infty nE ep ec nB bj bk nN lo hi Orc project ops so = Some so' ->
  fixedb N lo hi w = true ->
  post (fst so') w = post (fst so) w /\ node_moments N lo hi (fst so') w = (lo w, zero N).
Proof. exact C21_fixed. Qed.
Print Assumptions C21_fixed_untouched.

(** [iterate] is one of the operation sequences the invariant quantifies over *)
Theorem C21_iterate_is_ops : forall (N : Num) (tiny infty : T N) nE ep ec nB bj bk nN (lo hi : nat -> T N)
    (Orc : Type) (project : Orc -> call N -> option (V2 N * V2 N * Orc))
    block_order edge_order blik elik free S s mx rt (regularise : bool) so,
  iterate N tiny infty nE ep ec nB bj bk nN lo hi Orc project block_order edge_order blik elik
    free S s mx rt regularise so
  = run_ops N tiny infty nE ep ec nB bj bk nN lo hi Orc project
      ([OLik N true block_order blik S s; OLik N false edge_order elik S s]
       ++ (if regularise then [OPrior N free S mx rt] else []) ++ [ORescale N]) so.
Proof. exact iterate_as_ops. Qed.
Print Assumptions C21_iterate_is_ops.

(** non-vacuity: on exact rationals the model runs a real iteration (two edges, a regularised
    root, arbitrary positive projection results, with and without the shape cap firing) to
    [Some] state whose posteriors equal the sums of their messages *)
Example C21_nonvacuous : exQ_check 1000 = true /\ exQ_check 20 = true.
Proof. exact exQ_ok. Qed.
