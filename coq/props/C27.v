(** * C27 -- constraint enforcement is minimal and idempotent.
    Only statements, each closed by [exact]; proofs live in proofs/Constrain*.v. *)
From Coq Require Import List QArith Reals Lra.
From TsdateV Require Import lib.Num model.Constrain proofs.ConstrainForced proofs.ConstrainLS proofs.ConstrainEx.
Import ListNotations.
Open Scope R_scope.

(** least-squares phase off ([max_iterations = 0]): the output [t'] is above the input,
    satisfies every branch constraint, each value is the input value or exactly one of its
    children's output values plus eps (so [t' u = max (t u) (max_c (t' c + eps))]), and it
    is the least such vector: times are raised only as much as needed. *)
Theorem C27_least_fixed_point : forall (eps : R) fixed es (t : nat -> R),
  children_first es ->
  exists t', constrain RNum eps fixed 0 es t = Some t' /\
    (forall u, t u <= t' u) /\
    satR eps es t' /\
    (forall u, t' u = t u \/ exists c, In (u, c) es /\ t' u = t' c + eps) /\
    (forall s, (forall u, t u <= s u) -> satR eps es s -> forall u, t' u <= s u).
Proof. exact C27_lfp. Qed.
Print Assumptions C27_least_fixed_point.

(** the same four facts for ANY totally pre-ordered time type with a monotone
    "plus epsilon" -- in particular finite IEEE doubles with round-to-nearest addition *)
Theorem C27_forced_any_order : forall (T : Type) (le : T -> T -> Prop) (leb : T -> T -> bool),
  (forall x y, leb x y = true <-> le x y) -> (forall x, le x x) ->
  (forall x y z, le x y -> le y z -> le x z) -> (forall x y, le x y \/ le y x) ->
  forall bump : T -> T, (forall x y, le x y -> le (bump x) (bump y)) ->
  forall es t, children_first es ->
    (forall u, le (t u) (forced T leb bump es t u)) /\
    (forall p c, In (p, c) es -> le (bump (forced T leb bump es t c)) (forced T leb bump es t p)) /\
    (forall u, forced T leb bump es t u = t u \/
               exists c, In (u, c) es /\ forced T leb bump es t u = bump (forced T leb bump es t c)) /\
    (forall s, (forall u, le (t u) (s u)) -> (forall p c, In (p, c) es -> le (bump (s c)) (s p)) ->
               forall u, le (forced T leb bump es t u) (s u)).
Proof. exact C27_forced_abstract. Qed.
Print Assumptions C27_forced_any_order.

(** any number of least-squares iterations: strictly satisfied constraints => unchanged *)
Theorem C27_strict_unchanged : forall (eps : R) fixed k es (t : nat -> R),
  0 <= eps ->
  (forall p c, In (p, c) es -> t c + eps < t p) ->
  exists t', constrain RNum eps fixed k es t = Some t' /\ forall u, t' u = t u.
Proof. exact C27_strict. Qed.
Print Assumptions C27_strict_unchanged.

(** any number of iterations: constraining constrained times changes nothing *)
Theorem C27_idempotent : forall (eps : R) fixed k es (t t1 : nat -> R),
  0 <= eps -> children_first es ->
  constrain RNum eps fixed k es t = Some t1 ->
  exists t2, constrain RNum eps fixed k es t1 = Some t2 /\ forall u, t2 u = t1 u.
Proof. exact C27_idem. Qed.
Print Assumptions C27_idempotent.

(** non-vacuity: a real edge order satisfies [children_first], and the model moves times *)
Example C27_nonvacuous :
  children_first [(4, 0); (4, 1); (5, 2); (5, 4)]%nat /\
  constrain_list QNum (1 # 10)%Q [true; true; true; false; false; false] 0
      [(4, 0); (4, 1); (5, 2); (5, 4)]%nat [0; 0; 0; 0; 5 # 1; 1 # 1]%Q
    = Some [0; 0; 0; 0; 5 # 1; 51 # 10]%Q.
Proof. exact C27_example. Qed.
