(** * C03 -- sample times are kept, except for the minimal push above dated children.
    Statements only. [fixed u = true] marks a sample node; [constrain] is the model of
    util._constrain_ages, which is what core.get_modified_ts writes into nodes.time. *)
From Coq Require Import List QArith Reals Lra.
From TsdateV Require Import lib.Num model.Constrain proofs.ConstrainForced proofs.ConstrainLS
  proofs.ConstrainFixed proofs.ConstrainEx.
Import ListNotations.
Open Scope R_scope.

(** For every number of least-squares iterations: a sample's output time is at least its
    input time, at least eps above every child's output time, and EQUAL to its input time
    or to some child's output time plus eps -- i.e. max (t u) (max_c (t' c + eps)):
    moved exactly as far as needed and no further. *)
Theorem C03_sample_time : forall (eps : R) fixed k es (t t' : nat -> R) u,
  children_first es ->
  constrain RNum eps fixed k es t = Some t' -> fixed u = true ->
  t u <= t' u /\
  (forall c, In (u, c) es -> t' c + eps <= t' u) /\
  (t' u = t u \/ exists c, In (u, c) es /\ t' u = t' c + eps).
Proof. exact constrain_fixed. Qed.
Print Assumptions C03_sample_time.

(** samples without children keep their exact input time *)
Theorem C03_leaf_sample_unchanged : forall (eps : R) fixed k es (t t' : nat -> R) u,
  children_first es ->
  constrain RNum eps fixed k es t = Some t' -> fixed u = true ->
  (forall c, ~ In (u, c) es) -> t' u = t u.
Proof. exact constrain_fixed_leaf. Qed.
Print Assumptions C03_leaf_sample_unchanged.

(** non-vacuity: a sample (node 3, time 1) that is the parent of a node dated older (node 4,
    unconstrained time 5) makes the
    least-squares phase pull the child down to 1 and the forced pass push the sample to 1 + eps,
    while leaf samples keep their times *)
Example C03_nonvacuous :
  constrain_list QNum (1 # 10)%Q [true; true; true; true; false] 2
      [(4, 0); (4, 1); (3, 2); (3, 4)]%nat [0; 0; 0; 1 # 1; 5 # 1]%Q
    = Some [0; 0; 0; 11 # 10; 1 # 1]%Q.
Proof. exact C03_example. Qed.
