(** * C13 -- maximization picks ordered grid timepoints by the documented rule.
    Only statements, each closed by [exact]; proofs live in proofs/DiscreteMax.v.

    Model: [outside_maximization] of model/Discrete.v (discrete.py:763-838, literally: the
    running minimum [youngest_par_index], the [result] buffer that keeps the first edge's
    length, the slicing, the division of every factor by its own slice maximum, [np.argmax]).
    [ins] are the inside values, [pois e p t] is the Poisson likelihood of the mutations of
    edge [e] when its parent sits at grid index [p] and the child at index [t] (abstract,
    positive).  [es] is the edge sequence in the order the code visits it; the hypothesis
    [outside_order] (every parent was assigned before its children's group, groups have distinct
    children) is checked on every generated input by [outside_orderb].

    [C13_rule] is for the linear probability space over the reals; [C13_both_spaces] shows that
    the logarithmic space returns exactly the same indices (exp is strictly increasing). *)
From Coq Require Import List QArith Reals Arith.
From TsdateV Require Import lib.Num model.Discrete model.DiscreteER proofs.DiscreteBase proofs.DiscreteMax
  proofs.DiscreteLog proofs.DiscreteMaxRun proofs.DiscreteEx.
Import ListNotations.
Open Scope R_scope.

(** [first_max l k]: k is the first index at which the list l is maximal *)
Theorem C13_rule : forall (G : nat) (fixed : nat -> bool) (ins : nat -> option (list R))
    (pois : nat -> nat -> nat -> R),
  (forall e p t, 0 < pois e p t) -> (forall u iv, ins u = Some iv -> length iv = G) -> (0 < G)%nat ->
  forall num_nodes es mx,
  outside_order (map fst (groupby e_child es)) [] (groupby e_child es) ->
  outside_maximization LinR fixed ins pois num_nodes es = Some mx ->
  (* a node that is never a child takes the timepoint maximising its inside value *)
  (forall r, (r < num_nodes)%nat -> (forall e, In e es -> e_child e <> r) -> fixed r = false ->
     exists iv, ins r = Some iv /\ mx r = argmax LinR iv /\
       (mx r < length iv)%nat /\ (forall j, (j < length iv)%nat -> nth j iv 0 <= nth (mx r) iv 0) /\
       (forall j, (j < mx r)%nat -> nth j iv 0 < nth (mx r) iv 0)) /\
  (* every other non-fixed node c, with parent edges e0 :: rest, takes the first timepoint, no later
     than its youngest parent's, maximising inside * product of the edge likelihoods to the parents'
     chosen timepoints *)
  (forall c e0 rest, In (c, e0 :: rest) (groupby e_child es) -> fixed c = false ->
     exists iv, ins c = Some iv /\
       let youngest := fold_left (fun m e => Nat.min m (mx (e_parent e))) rest (mx (e_parent e0)) in
       let score := fun t => nth t iv 0 *
            fold_right (fun e acc => pois (e_id e) (mx (e_parent e)) t * acc) 1 (e0 :: rest) in
       let l := map score (seq 0 (youngest + 1)) in
       (mx c < length l)%nat /\ (forall j, (j < length l)%nat -> nth j l 0 <= nth (mx c) l 0) /\
       (forall j, (j < mx c)%nat -> nth j l 0 < nth (mx c) l 0)) /\
  (* C13_ordered: no node gets a later timepoint than any of its parents *)
  (forall e, In e es -> fixed (e_child e) = false -> (mx (e_child e) <= mx (e_parent e))%nat) /\
  (* every index is on the grid *)
  (forall u, (mx u < G)%nat).
Proof. exact C13_rule_lemma. Qed.
Print Assumptions C13_rule.

(** the logarithmic space: with inside values and edge likelihoods that are the logarithms of
    the linear ones (rel l x: l is -inf or finite and x = exp l), the model returns the same
    indices, so [C13_rule] applies to the logarithmic run as well *)
Theorem C13_both_spaces :
  forall (fixed : nat -> bool) (insL : nat -> option (list ER)) (insR : nat -> option (list R)),
  (forall u, match insL u, insR u with
             | Some l, Some xs => Forall2 rel l xs
             | None, None => True
             | _, _ => False
             end) ->
  forall (poisL : nat -> nat -> nat -> ER) (poisR : nat -> nat -> nat -> R),
  (forall e p t, rel (poisL e p t) (poisR e p t)) -> (forall e p t, 0 < poisR e p t) ->
  forall n es,
  outside_maximization LogER fixed insL poisL n es = outside_maximization LinR fixed insR poisR n es.
Proof. exact maximization_agree. Qed.
Print Assumptions C13_both_spaces.

(** C13_on_grid: the returned time is [timepoints[idx]], in either probability space *)
Theorem C13_on_grid : forall (P : Space) (tp : list (S P)) n mx u, (u < n)%nat ->
  nth u (posterior_mean P tp n mx) (s_null P) = nth (mx u) tp (s_null P).
Proof. exact posterior_mean_nth. Qed.
Print Assumptions C13_on_grid.

(** the pass cannot fail when every non-fixed node has inside values, in either space
    (so the premise [outside_maximization ... = Some mx] of C13_rule is satisfiable) *)
Theorem C13_total : forall (P : Space) fixed (ins : nat -> option (list (S P))) pois,
  (forall u, fixed u = false -> ins u <> None) ->
  forall n es, outside_maximization P fixed ins pois n es <> None.
Proof. exact maximization_total. Qed.
Print Assumptions C13_total.

(** non-vacuity: a 3-leaf tree with exact rationals; the order hypothesis holds, and node 3 is
    moved away from the maximum of its inside values (index 1) to index 2 by the rule *)
Example C13_nonvacuous :
  outside_order (map fst (groupby e_child ex13_es)) [] (groupby e_child ex13_es) /\
  option_map (fun mx => map mx (seq 0 5))
    (outside_maximization LinQ ex13_fixed ex13_ins ex13_pois 5 ex13_es) = Some [0; 0; 0; 2; 2]%nat /\
  argmax LinQ [0; 1; 2 # 3]%Q = 1%nat.
Proof. exact C13_example. Qed.
