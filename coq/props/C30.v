(** * C30 -- unary-node detection is exact.
    Only statements, each closed by [exact]; proofs live in proofs/Unary*.v, proofs/SweepFacts.v,
    proofs/TablesFacts.v.  [num_children es x u] is the number of edges with parent [u] whose
    interval contains position [x] (reference semantics, lib/Tables.v). *)
From Coq Require Import List ZArith Bool.
From TsdateV Require Import lib.Tables model.Sweep model.Unary proofs.TablesFacts proofs.UnaryThms.
Import ListNotations.
Open Scope Z_scope.

(** util._contains_unary_nodes: for every edge table with non-empty edge intervals inside
    [[0, L]] and insertion / removal indexes that list every edge once by non-decreasing left /
    right end, the sweep terminates and returns True exactly when some non-masked node has
    exactly one child at some position. *)
Theorem C30_util_exact : forall es L mask insq remq,
  edges_in_range L es -> valid_index es insq remq -> 0 <= L ->
  exists b, contains_unary es mask L insq remq = Some b /\
    (b = true <-> exists x u, mask u = false /\ num_children es x u = 1).
Proof. exact C30_util. Qed.
Print Assumptions C30_util_exact.

(** prior.has_locally_unary_nodes (child counts of the parents of the edges going out / coming
    in at every tree transition) fires exactly when some node has exactly one child somewhere. *)
Theorem C30_prior_exact : forall es L, edges_in_range L es ->
  (prior_unary es = true <-> exists x u, num_children es x u = 1).
Proof. exact C30_prior. Qed.
Print Assumptions C30_prior_exact.

(** with an empty mask the two detectors agree *)
Theorem C30_two_detectors_agree : forall es L insq remq,
  edges_in_range L es -> valid_index es insq remq -> 0 <= L ->
  contains_unary es (fun _ => false) L insq remq = Some (prior_unary es).
Proof. exact C30_agree. Qed.
Print Assumptions C30_two_detectors_agree.

(** ExpectationPropagation._check_valid_inputs rejects iff allow_unary is off and a NON-SAMPLE
    node is unary somewhere; SpansBySamples.__init__ (discrete methods) rejects iff allow_unary
    is off and ANY node is unary somewhere. *)
Theorem C30_reject_iff : forall es L is_sample insq remq allow,
  edges_in_range L es -> valid_index es insq remq -> 0 <= L ->
  (exists b, vgamma_rejects allow es is_sample L insq remq = Some b /\
     (b = true <-> allow = false /\ exists x u, is_sample u = false /\ num_children es x u = 1)) /\
  (discrete_rejects allow es = true <-> allow = false /\ exists x u, num_children es x u = 1).
Proof. exact C30_reject. Qed.
Print Assumptions C30_reject_iff.

(** the executable validity check run on every generated input implies the hypotheses *)
Theorem C30_validity_check_sound : forall L es insq remq,
  valid_tablesb L es insq remq = true ->
  edges_in_range L es /\ one_parent es /\ valid_index es insq remq.
Proof. exact valid_tablesb_spec. Qed.
Print Assumptions C30_validity_check_sound.

(** non-vacuity: a valid table with a unary stretch is flagged, one without is not *)
Example C30_nonvacuous :
  valid_tablesb 10 ex_edges ex_ins ex_rem = true /\
  contains_unary ex_edges (fun _ => false) 10 ex_ins ex_rem = Some true /\
  num_children ex_edges 4 2 = 1 /\
  contains_unary [mkEdge 0 10 2 0; mkEdge 0 10 2 1] (fun _ => false) 10 [0; 1]%nat [0; 1]%nat = Some false.
Proof. exact C30_example. Qed.
