(** * C28 -- preprocessing removes only data-free regions (the interval logic).
    Only statements, each closed by [exact]; model: model/Preprocess.v (util.py:121-178),
    proofs: proofs/PreprocessFacts.v.  The intervals are handed to tskit's
    [delete_intervals], which removes [[l, r)]; what tskit then does (genotypes, sample
    order, node times, simplification, split_disjoint) is NOT modelled: those clauses of the
    property are decided by the oracle of tools/props/c28.py on the real function.
    Hypothesis [sites_ok L sites]: site positions strictly increasing and in [[0, L)]
    (tskit guarantees both for a valid tree sequence). *)
From Coq Require Import List Bool Reals Sorting.Sorted QArith.
From TsdateV Require Import lib.Num model.Preprocess proofs.PreprocessFacts.
Import ListNotations.
Open Scope R_scope.

(** every computed interval lies in [0, L], is non-empty, contains no site, and is the
    flank before the first site, the flank after the last site, or [(a+1, b-1)] for two
    consecutive sites [a < b] with [b - a >= minimum_gap]; without erase_flanks only the
    latter *)
Theorem C28_intervals_site_free : forall (erase : bool) (mg L : R) (sites : list R) (iv : R * R),
  sites_ok L sites ->
  In iv (computed_intervals RNum erase mg L sites) ->
  0 <= fst iv /\ fst iv < snd iv /\ snd iv <= L /\
  (forall x, In x sites -> ~ (fst iv <= x < snd iv)) /\
  origin L mg sites iv /\
  (erase = false -> exists pre post a b, sites = pre ++ a :: b :: post /\ iv = (a + 1, b - 1)).
Proof. exact intervals_site_free. Qed.
Print Assumptions C28_intervals_site_free.

(** the list is sorted by left end and each interval ends before the next one starts *)
Theorem C28_intervals_disjoint_sorted : forall (erase : bool) (mg L : R) (sites : list R),
  sites_ok L sites ->
  StronglySorted fst_le (computed_intervals RNum erase mg L sites) /\
  StronglySorted chain (computed_intervals RNum erase mg L sites).
Proof. exact intervals_disjoint_sorted. Qed.
Print Assumptions C28_intervals_disjoint_sorted.

(** nothing that should go is kept: every gap of at least minimum_gap (that leaves room
    between the two sites) and, with erase_flanks, both flanks are in the list *)
Theorem C28_intervals_complete : forall (erase : bool) (mg L : R) (sites : list R),
  (forall pre post a b, sites = pre ++ a :: b :: post -> mg <= b - a -> a + 1 < b - 1 ->
     In (a + 1, b - 1) (computed_intervals RNum erase mg L sites)) /\
  (erase = true -> forall s0 rest, sites = s0 :: rest ->
     (0 < s0 - 1 -> In (0, s0 - 1) (computed_intervals RNum erase mg L sites)) /\
     (last sites s0 + 1 < L -> In (last sites s0 + 1, L) (computed_intervals RNum erase mg L sites))).
Proof. exact intervals_complete. Qed.
Print Assumptions C28_intervals_complete.

(** user-given delete_intervals are passed on verbatim, and only when minimum_gap,
    erase_flanks and remove_telomeres are all None; otherwise ValueError ([None]) *)
Theorem C28_user_intervals_verbatim :
  (forall (rt ef : option bool) (mg : option R) (ivs : list (R * R)) L sites r,
     preprocess_intervals RNum rt ef mg (Some ivs) L sites = Some r ->
     r = ivs /\ rt = None /\ ef = None /\ mg = None)
  /\ (forall (rt ef : option bool) (mg : option R) (ivs : list (R * R)) L sites,
        rt <> None \/ ef <> None \/ mg <> None ->
        preprocess_intervals RNum rt ef mg (Some ivs) L sites = None).
Proof. exact (conj user_intervals_verbatim user_intervals_conflict). Qed.
Print Assumptions C28_user_intervals_verbatim.

(** without user intervals: at least one site is required, remove_telomeres and erase_flanks
    exclude each other, and the defaults are erase_flanks = True, minimum_gap = 1000000 *)
Theorem C28_computed_when_no_user_intervals : forall (rt ef : option bool) (mg : option R) L sites r,
  preprocess_intervals RNum rt ef mg None L sites = Some r ->
  sites <> [] /\ (rt = None \/ ef = None) /\
  r = computed_intervals RNum
        (match rt, ef with Some b, _ => b | None, Some b => b | None, None => true end)
        (match mg with Some g => g | None => 1000000 end) L sites.
Proof. exact computed_when_no_user_intervals. Qed.
Print Assumptions C28_computed_when_no_user_intervals.

Example C28_nonvacuous :
  computed_intervals QNum true 20%Q 100%Q [5; 6; 30; 63 # 2; 90]%Q
    = [(0, 4); (7, 29); (65 # 2, 89); (91, 100)]%Q /\
  computed_intervals QNum false 24%Q 100%Q [5; 6; 30; 63 # 2; 90]%Q = [(7, 29); (65 # 2, 89)]%Q /\
  computed_intervals QNum false 25%Q 100%Q [5; 6; 30; 63 # 2; 90]%Q = [(65 # 2, 89)]%Q /\
  preprocess_intervals QNum None None None (Some [(10, 20)]%Q) 100%Q [5; 6]%Q = Some [(10, 20)]%Q /\
  preprocess_intervals QNum None (Some false) None (Some [(10, 20)]%Q) 100%Q [5; 6]%Q = None /\
  preprocess_intervals QNum None None None None 100%Q [] = None.
Proof. exact example_nonvacuous. Qed.
