(** * C20 -- EP is exact in the conjugate (star) case.
    Only statements, each closed by [exact]; proofs in proofs/EPStar.v, EPProper.v, EPStarEx.v.
    Model: coq/model/EP.v (bookkeeping) with the closed-form projection of coq/model/EPConj.v
    ([approx.rootward_projection] for a child at time zero + [approximate_gamma_mom]). *)
From Coq Require Import List Reals Lra QArith.
From TsdateV Require Import lib.Num model.EP model.EPConj proofs.EPSpec proofs.EPInv proofs.EPProper
  proofs.EPStar proofs.EPStarEx.
Import ListNotations.
Open Scope R_scope.

(** [star]: every edge joins a free parent to a child fixed at time zero, counts >= 0,
    span * rate > 0.  [uncapped]: 1 + (mutations on the edges of a node) <= max_shape.
    Then for any number of iterations k+1, any number of trees/parents, any visiting order
    that covers every edge (and visits edges as often as it likes), any min_step in (0,1):
    no assertion fires and every parent's posterior is exactly
    (sum of mutation counts, sum of span * rate) over its edges, i.e. shape 1 + sum y, rate sum mu;
    samples keep the zero posterior. *)
Theorem C20_uncapped_exact : forall (tiny infty : R) nE ep ec nB bj bk nN (lo hi : nat -> R)
    (lik : nat -> V2 RNum) (S s : R) order blik free mx rt k,
  tiny <= 1 -> 0 < s < 1 -> 1 <= S ->
  star nE ep ec lo hi lik -> uncapped nE ep lik S ->
  Forall (fun e => (e < nE)%nat) order -> (forall e, (e < nE)%nat -> In e order) ->
  exists st',
    iterate_n RNum tiny infty nE ep ec nB bj bk nN lo hi unit (conj_project RNum)
      [] order blik lik free S s mx rt false (Datatypes.S k) (init, tt) = Some (st', tt) /\
    forall u, post st' u = vsum RNum nE (fun e => if Nat.eqb (ep e) u then lik e else vzero).
Proof. exact C20_exact. Qed.
Print Assumptions C20_uncapped_exact.

(** the traversal order that [__init__] builds when there are no unphased blocks is such an order *)
Theorem C20_code_order_covers : forall nE,
  Forall (fun e => (e < nE)%nat) (mk_edge_order nE []) /\
  (forall e, (e < nE)%nat -> In e (mk_edge_order nE [])).
Proof. exact mk_edge_order_all. Qed.
Print Assumptions C20_code_order_covers.

(** with the cap active (any counts): whatever happens, after any number of iterations every
    posterior is the untouched (0,0) or has 1/max_shape <= shape <= max_shape and rate > 0 *)
Theorem C20_capped_shape : forall (tiny infty : R) nE ep ec nB bj bk nN (lo hi : nat -> R)
    (S : R) block_order edge_order blik elik free s mx rt regularise k so',
  1 <= S ->
  iterate_n RNum tiny infty nE ep ec nB bj bk nN lo hi unit (conj_project RNum)
    block_order edge_order blik elik free S s mx rt regularise k (init, tt) = Some so' ->
  forall u, proper S (post (fst so') u).
Proof. exact C20_capshape. Qed.
Print Assumptions C20_capped_shape.

(** the second sentence of the property is FALSE of the faithful model (finding K1): star of 4
    samples, counts 30, 2, 0, 5, equal spans, max_shape = 20: the shape is capped to exactly 20
    but the rate is not the uniformly scaled (19/37) * (2/5).  Exact rational evaluation. *)
Theorem C20_capped_uniform_refuted :
  exists k a b, k1_post 20 k = Some (a, b) /\ (a == 19)%Q /\ ~ (b == (19 # 37) * (2 # 5))%Q.
Proof. exact k1_refuted. Qed.
Print Assumptions C20_capped_uniform_refuted.

(** non-vacuity: a concrete real input meets [star] and [uncapped]; and on exact rationals the
    model of the K1 star without cap gives exactly (37, 2/5) after 1 and after 5 iterations *)
Example C20_nonvacuous :
  (star 2 r_ep r_ec r_lo r_hi r_lik /\ uncapped 2 r_ep r_lik 5) /\
  (k1_post 1000 1 = Some (37, 2 # 5)%Q /\ k1_post 1000 5 = Some (37, 2 # 5)%Q).
Proof. exact (conj r_star k1_uncapped). Qed.
