(** * C14 -- conditional coalescent prior moments are exact.
    Only statements, each closed by [exact]; proofs live in proofs/PriorMarg.v and
    proofs/PriorKingman.v.

    Vocabulary (all defined in proofs/PriorMarg.v, model/Prior.v, model/Kingman.v):
    - [zbinom n k] : the binomial coefficient C(n, k) (Pascal recursion, in Z);
    - [W n k a = IZR (a (a-1) C(n-a-1, k-2)) / IZR (2 C(n, k+1))] : the closed-form
      probability that [a] lineages remain when a node with [k] of [n] tips forms;
    - [rsum f a c = f a + f (a+1) + ... + f (a+c-1)];
    - [Hmean n a], [Hvar n a] : sum over i = a+1..n of [2/(i(i-1))], resp. its square
      (mean / variance of the time from n lineages down to a lineages);
    - [EW n k f = sum_{a=2}^{n-k+1} W n k a * f a];
    - [RLogDom] : logs are real logarithms ([ln], [exp], [+], [-]) -- the code as written;
      [LinDom N] : the linear representation evaluated on [Q] and on binary64. *)
From Coq Require Import List ZArith QArith Reals Rpower Lra.
From TsdateV Require Import lib.Num model.Prior model.Kingman proofs.PriorMarg proofs.PriorWeights proofs.PriorKingman.
Import ListNotations.

(** [_marginalize_over_ancestors], as written (log space, real ln/exp), for every
    column [val] of every length [n >= 2]:
    [out = [0; 0; S_2; ...; S_{n-1}; val[1]]] with [S_k = sum_{a=2}^{n-k+1} W n k a * val[a]].
    In particular the recursion never fails ([Some]) and has exactly n+1 entries. *)
Theorem C14_marginalize_closed_form : forall val : list R, (2 <= length val)%nat ->
  marginalize RNum RLogDom val =
  Some (0 :: 0 :: map (fun k => rsum (fun a => W (length val) k a * nth a val 0) 2 (length val - k))
                      (seq 2 (length val - 2))
          ++ [nth 1 val 0])%R.
Proof. exact marginalize_log_closed_form. Qed.
Print Assumptions C14_marginalize_closed_form.

(** the linear representation (the one run on Q and on doubles) computes the same
    thing over R *)
Theorem C14_marginalize_linear_agrees : forall val : list R, (2 <= length val)%nat ->
  marginalize RNum (LinDom RNum) val = marginalize RNum RLogDom val.
Proof. exact marginalize_lin_eq_log. Qed.
Print Assumptions C14_marginalize_linear_agrees.

(** [conditional_coalescent_variance(n)[k]] for all n and 2 <= k <= n: the variance of
    the mixture over levels [a] (weights [W n k a]) of hypoexponential ages; for k = n
    the variance of the full tree height. *)
Theorem C14_variance_closed_form : forall n k : nat, (2 <= k <= n)%nat ->
  ccv_at RNum RLogDom n k = Some (
    if Nat.eqb k n then Hvar n 1
    else EW n k (fun a => Hvar n a + Hmean n a * Hmean n a) - EW n k (Hmean n) * EW n k (Hmean n))%R.
Proof. exact ccv_at_log_closed_form. Qed.
Print Assumptions C14_variance_closed_form.

(** for all n and 2 <= k < n: the level weights are positive, sum to one (a probability
    distribution over the levels a = 2 .. n-k+1), and the mean age under them is exactly the
    stored closed form tau_expect(k, n) = (k - 1)/n -- so the stored mean and the stored
    variance are moments of one and the same mixture *)
Theorem C14_weights_distribution_and_mean : forall n k : nat, (2 <= k)%nat -> (k + 1 <= n)%nat ->
  (forall a, (2 <= a)%nat -> (a + k <= n + 1)%nat -> 0 < W n k a)%R /\
  EW n k (fun _ => 1%R) = 1%R /\ EW n k (Hmean n) = tau_expect RNum k n.
Proof. exact weights_distribution. Qed.
Print Assumptions C14_weights_distribution_and_mean.

(** the MRCA row: the stored mean [tau_expect(n, n) = 2 (1 - 1/n)] is the hypoexponential
    mean of the full height, and [tau_var_mrca(n)] its variance (= the k = n entry above) *)
Theorem C14_mrca_row : forall n : nat, (2 <= n)%nat ->
  tau_expect RNum n n = Hmean n 1 /\ tau_var_mrca RNum n = Hvar n 1.
Proof. exact mrca_row. Qed.
Print Assumptions C14_mrca_row.

(** the gamma and lognormal parameters are exact moment-matched transforms:
    a Gamma(alpha, rate beta) has mean alpha/beta and variance alpha/beta^2; a
    LogNormal(mu = alpha, sigma^2 = beta) has mean exp(alpha + beta/2) and variance
    (exp(beta) - 1) exp(2 alpha + beta) *)
Theorem C14_moment_transforms : forall mean var : R, (0 < mean)%R -> (0 < var)%R ->
  (let '(alpha, beta) := gamma_approx RNum mean var in
   0 < alpha /\ 0 < beta /\ alpha / beta = mean /\ alpha / (beta * beta) = var)%R /\
  (let '(alpha, beta) := lognorm_approx RNum ln mean var in
   0 <= beta /\ exp (alpha + beta / 2) = mean /\
   (exp beta - 1) * exp (2 * alpha + beta) = var)%R.
Proof. exact moment_transforms. Qed.
Print Assumptions C14_moment_transforms.

Local Open Scope Q_scope.

(** bounded comparison with the explicit Kingman chain of model/Kingman.v (exact
    rationals, by computation): for all 2 <= k <= n <= 24 the model's variance and the
    stored mean equal the node-averaged variance and mean of the age of a node with k
    of n tips.  The bound is part of the statement. *)
Theorem C14_kingman_bounded : forall n k : nat, (2 <= k <= n)%nat -> (n <= 24)%nat ->
  exists v, ccv_at QNum (LinDom QNum) n k = Some v /\
            v == kingman_var n k /\ tau_expect QNum k n == kingman_mean n k.
Proof. exact kingman_bounded. Qed.
Print Assumptions C14_kingman_bounded.

(** non-vacuity: concrete exact values for n = 5 *)
Example C14_nonvacuous :
  ccv QNum (LinDom QNum) 5 = Some [0; 0; 1 # 18; 49 # 450; 67 # 450; 517 # 450] /\
  map (fun k => tau_expect QNum k 5) [2; 3; 4; 5]%nat = [1 # 5; 2 # 5; 3 # 5; 8 # 5] /\
  map (kingman_var 5) [2; 3; 4; 5]%nat = [1 # 18; 49 # 450; 67 # 450; 517 # 450] /\
  map (kingman_mean 5) [2; 3; 4; 5]%nat = [1 # 5; 2 # 5; 3 # 5; 8 # 5].
Proof. exact C14_example. Qed.
