(** * C38 -- ignore_oldest_root ignores exactly the oldest root.
    Only statements, each closed by [exact]; proofs live in proofs/DiscreteOutside.v and
    proofs/DiscreteEx.v.

    The property is FALSE for the code as it is (finding K5 of DESIGN.md section 9): the
    outside pass tests [edge.parent == self.ts.num_nodes - 1] (discrete.py:697-699), i.e. it
    ignores the node with the highest id, which is the oldest root only by the numbering
    convention of msprime / tsinfer.  What is proved: exactly what the code ignores
    ([C38_ignores_last_id]), and a concrete witness that the result then depends on the
    numbering ([C38_refuted]).  The check (tools/props/c38.py) reports inputs of the class
    "highest-id node is not the oldest root" as KNOWN-FINDING K5 and still reports any other
    deviation from "ignore exactly the oldest root" as a violation. *)
From Coq Require Import List QArith Arith.
From TsdateV Require Import lib.Num model.Discrete proofs.DiscreteBase proofs.DiscreteOutside proofs.DiscreteEx.
Import ListNotations.

(** what the code does, in every probability space: the outside pass with
    ignore_oldest_root=True equals the pass without the option on the edge groups from which
    the edges whose parent has id [num_nodes - 1] have been removed -- whatever that node is *)
Theorem C38_ignores_last_id :
  forall (P : Space) (G : nat) lik sfrac fixed (st : istate P) cache std num_nodes gs out,
  out_groups P G lik sfrac fixed st cache std true num_nodes out gs
  = out_groups P G lik sfrac fixed st cache std false num_nodes out
      (map (fun g => (fst g, filter (fun e => negb (Nat.eqb (e_parent e) (num_nodes - 1))) (snd g))) gs).
Proof. exact out_groups_ignore. Qed.
Print Assumptions C38_ignores_last_id.

(** the property is refuted: a 4-leaf caterpillar 4 = (0,1), M = (4,2), R = (M,3) over exact
    rationals, numbered once with (M, R) = (5, 6) and once with (M, R) = (6, 5).  Both inputs are
    valid in the order the code visits them; without the option the posterior of node 4 is the
    same; with ignore_oldest_root it differs; and in the second numbering the option does not
    ignore the oldest root at all (the posterior of the root's child is unchanged by it). *)
Theorem C38_refuted :
  inside_orderb ex38_fixed [] (groupby e_parent ex38_esA) = true /\
  inside_orderb ex38_fixed [] (groupby e_parent ex38_esB) = true /\
  outside_orderb (map fst (groupby e_child ex38_outA)) [] (groupby e_child ex38_outA) = true /\
  outside_orderb (map fst (groupby e_child ex38_outB)) [] (groupby e_child ex38_outB) = true /\
  ex38_post ex38_priorA ex38_esA ex38_outA 6 false 4 = ex38_post ex38_priorB ex38_esB ex38_outB 5 false 4 /\
  ex38_post ex38_priorA ex38_esA ex38_outA 6 false 4 <> None /\
  ex38_post ex38_priorA ex38_esA ex38_outA 6 true 4 <> ex38_post ex38_priorB ex38_esB ex38_outB 5 true 4 /\
  ex38_post ex38_priorB ex38_esB ex38_outB 5 true 6 = ex38_post ex38_priorB ex38_esB ex38_outB 5 false 6.
Proof. exact C38_witness. Qed.
Print Assumptions C38_refuted.

(** non-vacuity of C38_ignores_last_id: in numbering A (root = highest id) the option does change
    the posterior of the root's child, node 5 *)
Example C38_nonvacuous :
  ex38_post ex38_priorA ex38_esA ex38_outA 6 true 5 <> ex38_post ex38_priorA ex38_esA ex38_outA 6 false 5.
Proof. exact C38_option_matters. Qed.
