(** * C01 -- dated output has enforced branch lengths.  Statements only.
    Clauses (a) parent >= fl(child + eps) and (b) parent > child are decided here for the
    model of util._constrain_ages (the last writer of nodes.time in core.get_modified_ts);
    clause (c) (mutation times, table validity) is tskit's and is decided by the oracle. *)
From Coq Require Import List QArith Reals Lra PrimFloat.
From Flocq Require Import Core BinarySingleNaN.
From TsdateV Require Import lib.Num model.Constrain proofs.ConstrainForced proofs.ConstrainLS
  proofs.ConstrainEx proofs.FlocqBump.
Import ListNotations.
Open Scope R_scope.

(** (a) every iteration count, every input: each branch is at least eps long *)
Theorem C01_parent_ge_child_plus_eps : forall (eps : R) fixed k es (t t1 : nat -> R),
  children_first es -> constrain RNum eps fixed k es t = Some t1 ->
  forall p c, In (p, c) es -> t1 c + eps <= t1 p.
Proof. exact C01_sat. Qed.
Print Assumptions C01_parent_ge_child_plus_eps.

(** (b) with eps > 0 every parent is strictly older than each child *)
Theorem C01_parent_strictly_older : forall (eps : R) fixed k es (t t1 : nat -> R),
  0 < eps -> children_first es -> constrain RNum eps fixed k es t = Some t1 ->
  forall p c, In (p, c) es -> t1 c < t1 p.
Proof. exact C01_strict. Qed.
Print Assumptions C01_parent_strictly_older.

(** (a) for the forced pass over ANY totally pre-ordered time type with a monotone bump
    -- the form that applies to IEEE doubles ... *)
Theorem C01_forced_sat_any_order : forall (T : Type) (le : T -> T -> Prop) (leb : T -> T -> bool),
  (forall x y, leb x y = true <-> le x y) -> (forall x, le x x) ->
  (forall x y z, le x y -> le y z -> le x z) -> (forall x y, le x y \/ le y x) ->
  forall (bump : T -> T) es t, children_first es ->
  forall p c, In (p, c) es -> le (bump (forced T leb bump es t c)) (forced T leb bump es t p).
Proof. exact C01_forced_sat. Qed.
Print Assumptions C01_forced_sat_any_order.

(** ... whose monotone-bump hypothesis (needed for minimality, C27) holds for binary
    floats with round-to-nearest addition wherever the sums do not overflow *)
Theorem C01_double_bump_monotone : forall (prec emax : Z) (Hp : Prec_gt_0 prec) (Hm : (prec < emax)%Z)
  (eps x y : binary_float prec emax),
  is_finite eps = true -> is_finite x = true -> is_finite y = true ->
  Rabs (round radix2 (FLT_exp (3 - emax - prec) prec) ZnearestE (B2R x + B2R eps)) < bpow radix2 emax ->
  Rabs (round radix2 (FLT_exp (3 - emax - prec) prec) ZnearestE (B2R y + B2R eps)) < bpow radix2 emax ->
  B2R x <= B2R y ->
  B2R (@Bplus prec emax Hp Hm mode_NE x eps) <= B2R (@Bplus prec emax Hp Hm mode_NE y eps).
Proof. exact bump_mono. Qed.
Print Assumptions C01_double_bump_monotone.

(** In doubles strictness (b) is NOT provided by the mechanism: 3e8 + 1e-8 rounds to 3e8,
    and the model run on binary64 returns parent = child.  (The implementation then fails
    tskit's validation and raises, so C01 -- conditional on returning -- is not violated;
    the raise is finding K7 of C35.) *)
Theorem C01_mechanism_strict_double_refuted :
  exists es fixed (t : list PrimFloat.float) eps,
    (0 <? eps)%float = true /\
    exists t', constrain_list FNum eps fixed 0 es t = Some t' /\
      exists p c, In (p, c) es /\ (nth p t' 0 =? nth c t' 0)%float = true.
Proof. exact C01_double_witness. Qed.
Print Assumptions C01_mechanism_strict_double_refuted.
