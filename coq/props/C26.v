(** * C26 -- changepoint helpers meet their specification.
    Only statements, each closed by [exact]; proofs live in proofs/Changepoint*.v.

    Vocabulary (proofs/ChangepointFixed.v, ChangepointPelt.v, ChangepointPoisson.v):
    [Rsum l] sum of a list, [psum l i] sum of the first [i] entries, [frac l i] =
    [psum l i / Rsum l] the cumulative mass fraction, [range_sum l i j] sum of [l[i..j)],
    [deviance y n = -2 y (ln y - ln n - 1)], [spec_cost] = the deviance of segment [i..j) if
    its offset and count reach the minima and [Inf] otherwise, [chain pen h i r s] = the
    break list [i < r0 < r1 < ...] has only finite-cost segments and [s] is the sum of
    [cost + pen], [is_seg pen dim h b v] = [b = 0 :: r] ends in [dim], is such a chain, and
    [v = s - pen] (the sum of the segment costs plus [pen] per changepoint). *)
From Coq Require Import List ZArith QArith Reals Lra.
From TsdateV Require Import lib.Num model.Changepoint proofs.ChangepointFixed
  proofs.ChangepointPelt proofs.ChangepointPoisson proofs.ChangepointEx.
Import ListNotations.
Open Scope R_scope.

(** [_fixed_changepoints]: for non-negative counts with positive total the result has
    [epochs + 1] entries, starts at 0, ends at [n], is non-decreasing, and interior entry
    [k] is the LAST index [i] whose cumulative mass fraction is at most [k / epochs]. *)
Theorem C26_fixed_spec : forall (counts : list R) (epochs : nat),
  (0 < epochs)%nat -> Forall (fun c => 0 <= c) counts -> 0 < Rsum counts ->
  exists e, fixed_changepoints RNum counts epochs = Some e /\
    length e = S epochs /\
    nth 0 e 0%Z = 0%Z /\
    nth epochs e 0%Z = Z.of_nat (length counts) /\
    (forall k, (k < epochs)%nat -> (nth k e 0 <= nth (S k) e 0)%Z) /\
    (forall k, (0 < k < epochs)%nat ->
       exists i, nth k e 0%Z = Z.of_nat i /\ (i < length counts)%nat /\
         frac counts i <= INR k / INR epochs /\
         forall i', (i < i' <= length counts)%nat -> INR k / INR epochs < frac counts i').
Proof. exact fixed_spec. Qed.
Print Assumptions C26_fixed_spec.

(** the PELT recursion as written (candidate dictionary, first-minimum rule, pruning test
    [cost[i] > F[j] + penalty]) over ANY segment cost [f] (finite, [Inf] or [NaN]):
    it always returns a break list, and if a segmentation of [0, dim) into finite-cost
    segments exists, the returned one is such a segmentation of minimal penalised cost --
    without pruning unconditionally, with pruning provided every cost is finite and
    super-additive ([f i j + f j k <= f i k]). *)
Theorem C26_pelt_optimal :
  forall (f : nat -> nat -> ext R) (pen : R) (prune : bool) (dim : nat),
  0 <= pen ->
  (prune = true -> forall i j, (i < j <= dim)%nat -> exists c, f i j = Fin c) ->
  (prune = true -> forall i j k c1 c2 c3, (i < j < k)%nat -> (k <= dim)%nat ->
     f i j = Fin c1 -> f j k = Fin c2 -> f i k = Fin c3 -> c1 + c2 <= c3) ->
  forall g : nat -> nat -> ext R, (forall i j, (i < j <= dim)%nat -> f i j = g i j) ->
  exists b, pelt RNum f pen prune dim = Some b /\
    forall b' v', is_seg pen dim g b' v' -> exists v, is_seg pen dim g b v /\ v <= v'.
Proof. exact pelt_optimal. Qed.
Print Assumptions C26_pelt_optimal.

(** the pruning hypothesis holds for the Poisson deviance (log-sum inequality) *)
Theorem C26_poisson_cost_superadditive : forall y1 n1 y2 n2,
  0 < y1 -> 0 < n1 -> 0 < y2 -> 0 < n2 ->
  deviance y1 n1 + deviance y2 n2 <= deviance (y1 + y2) (n1 + n2).
Proof. exact deviance_superadditive. Qed.
Print Assumptions C26_poisson_cost_superadditive.

(** [_poisson_changepoints] (with [log = ln]): for positive offsets, non-negative penalty
    and minima, and no zero-count segment among the feasible ones ([min_counts > 0] or all
    counts positive), the result is a segmentation all of whose segments meet the minimum
    count and offset and whose penalised Poisson deviance is minimal among all such
    segmentations -- whenever one exists.  (Pruning is on exactly when both minima are 0.) *)
Theorem C26_poisson_optimal : forall (counts offset : list R) (pen minc mino : R),
  length counts = length offset ->
  Forall (fun c => 0 < c) offset ->
  0 <= pen -> 0 <= minc -> 0 <= mino ->
  (0 < minc \/ Forall (fun c => 0 < c) counts) ->
  exists b, poisson_changepoints RNum ln counts offset pen minc mino = Some b /\
    forall b' v', is_seg pen (length counts) (spec_cost counts offset minc mino) b' v' ->
      exists v, is_seg pen (length counts) (spec_cost counts offset minc mino) b v /\ v <= v'.
Proof. exact poisson_optimal. Qed.
Print Assumptions C26_poisson_optimal.

(** why the repair 4fcc7d3 matters: on a cost table with infeasible segments the SAME
    recursion with pruning switched on returns [0,2,4] (14.617) although [0,1,4] costs
    13.666, which the recursion without pruning finds *)
Theorem C26_pruning_with_infeasible_refuted :
  pelt QNum f9_table 0%Q true 4 = Some [0; 2; 4]%nat /\
  pelt QNum f9_table 0%Q false 4 = Some [0; 1; 4]%nat /\
  (Qlt ((7769 # 1000) + (5897 # 1000)) ((6137 # 1000) + (8480 # 1000)))%Q.
Proof. exact pruning_with_infeasible_witness. Qed.
Print Assumptions C26_pruning_with_infeasible_refuted.

(** non-vacuity: concrete inputs satisfy the hypotheses of both specifications *)
Example C26_nonvacuous :
  ((0 < 3)%nat /\ Forall (fun c => 0 <= c) [0; 0; 5; 1; 2] /\ 0 < Rsum [0; 0; 5; 1; 2] /\
   fixed_changepoints QNum [0; 0; 5 # 1; 1 # 1; 2 # 1]%Q 3 = Some [0; 2; 3; 5]%Z) /\
  (length [5; 5; 5; 3] = length [4; 1; 3; 2] /\ Forall (fun c => 0 < c) [4; 1; 3; 2] /\
   0 <= 0 /\ 0 <= 3 /\ (0 < 3 \/ Forall (fun c => 0 < c) [5; 5; 5; 3]) /\
   exists v, is_seg 0 4 (spec_cost [5; 5; 5; 3] [4; 1; 3; 2] 3 3) [0; 4]%nat v).
Proof. exact C26_example. Qed.
