(** * C06 -- changing time units rescales all outputs exactly (the EP moment updates).
    Only statements, each closed by [exact]; proofs live in proofs/ApproxC06.v.

    What is PROVED here: for the text REGENERATED from tsdate/approx.py on every check, over the
    reals, for every c > 0 and ARBITRARY hypergeometric Laplace approximants [H] (they only ever
    see dimensionless arguments): dividing all rates (cavity rates, mutational spans) by c and
    multiplying all fixed ages by c gives the same skip / failure decision and
      - means x c, variances x c^2, phase probabilities unchanged        (moment functions)
      - natural parameters (shape - 1, rate / c), phase unchanged          (projection wrappers).
    The relations [sc5 sc3 sc2 scp3 scw1 scw2 scwp rel_en rel_e] are defined in
    proofs/ApproxC06.v; the log normaliser is deliberately left unconstrained (it shifts by a
    multiple of log c and is not an output of dating).

    What is NOT proved here: the rest of the pipeline (EP bookkeeping and damping, the prior and
    its EM penalty, rescaling, constraints, the discrete methods).  Those are decided for C06 by
    the metamorphic oracle of tools/props/c06.py on the implementation (all three methods,
    c in {2, 3.7, 1e-4, 1e5, 1000 pi}).  Hence the assembled statement is named [_partial]. *)
From Coq Require Import Reals Lra.
From TsdateV Require Import lib.Num model.ApproxBase gen.HypergeoGen gen.ApproxGen gen.GenEqC06
  proofs.ApproxTac proofs.ApproxC18 proofs.ApproxC06.
Open Scope R_scope.

(** every moment function (full text of [moments_equivariant] in proofs/ApproxC06.v: one
    conjunct per function, rates / c and ages x c on the right-hand side) *)
Theorem C06_moment_functions_equivariant : forall (lgam : R -> R) (eg : R) (H : HypFns RNum) (c : R),
  0 < c -> moments_equivariant (RF lgam eg) H c.
Proof. exact C06_moments_all. Qed.
Print Assumptions C06_moment_functions_equivariant.

(** in elementary form for the two-node update the property's anchor points at (approx.py:258-297):
    same skip / failure decision, means x c, variances x c^2 *)
Theorem C06_moments_equivariant : forall (lgam : R -> R) (eg : R) (H : HypFns RNum) (c : R), 0 < c ->
  forall a_i b_i a_j b_j y mu,
  let r := moments RNum (RF lgam eg) H a_i b_i a_j b_j y mu in
  let r' := moments RNum (RF lgam eg) H a_i (b_i / c) a_j (b_j / c) y (mu / c) in
  (forall l mi vi mj vj, r = Ok (Val (l, mi, vi, mj, vj)) ->
     exists l', r' = Ok (Val (l', c * mi, c * c * vi, c * mj, c * c * vj))) /\
  (r = Ok Nan <-> r' = Ok Nan) /\
  (forall e, r = Err e <-> r' = Err e).
Proof. exact moments_equiv_elementary. Qed.
Print Assumptions C06_moments_equivariant.

(** every projection wrapper (full text of [projections_equivariant] in proofs/ApproxC06.v) *)
Theorem C06_projections_equivariant : forall (lgam : R -> R) (eg : R) (H : HypFns RNum) (c : R),
  0 < c -> projections_equivariant (RF lgam eg) H c.
Proof. exact C06_projections_all. Qed.
Print Assumptions C06_projections_equivariant.

(** in elementary form for the two-node wrapper: shapes unchanged, rates / c *)
Theorem C06_gamma_projection_equivariant : forall (lgam : R -> R) (eg : R) (H : HypFns RNum) (c : R), 0 < c ->
  forall a_i b_i a_j b_j y mu,
  let r := gamma_projection RNum (RF lgam eg) H (a_i, b_i) (a_j, b_j) (y, mu) in
  let r' := gamma_projection RNum (RF lgam eg) H (a_i, b_i / c) (a_j, b_j / c) (y, mu / c) in
  (forall l si ri sj rj, r = Ok (Val (l, (si, ri), (sj, rj))) ->
     exists l', r' = Ok (Val (l', (si, ri / c), (sj, rj / c)))) /\
  (r = Ok Nan <-> r' = Ok Nan) /\
  (forall e, r = Err e <-> r' = Err e).
Proof. exact gamma_projection_equiv_elementary. Qed.
Print Assumptions C06_gamma_projection_equivariant.

(** the assembled C06 statement for the modelled part: all EP moment updates are equivariant.
    Full statement of the property (not proved here): every output of tsdate.date is. *)
Theorem C06_variational_partial : forall (lgam : R -> R) (eg : R) (H : HypFns RNum) (c : R), 0 < c ->
  moments_equivariant (RF lgam eg) H c /\ projections_equivariant (RF lgam eg) H c.
Proof. exact (fun lgam eg H c Hc => conj (C06_moments_all lgam eg H c Hc) (C06_projections_all lgam eg H c Hc)). Qed.
Print Assumptions C06_variational_partial.

Theorem C06_text_unchanged : unchanged_C06.
Proof. exact unchanged_C06_holds. Qed.

(** non-vacuity: the conjugate update of C18's example at scale 1 and at scale c *)
Example C06_nonvacuous : forall lgam eg (H : HypFns RNum) c, 0 < c ->
  (exists l, rootward_projection RNum (RF lgam eg) H 0 (1, 2) (3, 1) = Ok (Val (l, (1 + 3, 2 + 1)))) /\
  (exists l, rootward_projection RNum (RF lgam eg) H (c * 0) (1, 2 / c) (3, 1 / c) = Ok (Val (l, (1 + 3, 2 / c + 1 / c)))).
Proof. exact C06_example. Qed.
