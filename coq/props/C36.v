(** * C36 -- the precomputed prior cache is crash-safe and exact.
    Only statements, each closed by [exact]; the model is model/Cache.v, proofs are in
    proofs/CacheInv.v.

    [run A Tbl fresh ser validate atomic s tr] executes the interleaving [tr] (a list of
    [Spawn], [Step p k], [Kill p], [Raise p], [Clear]) from state [s]; [init g0] is the file
    system with the cached name absent ([None]) or holding [g0]; [true] selects the protocol
    of the code as it is now (temp file in the cache directory + [os.replace] + validation
    on load).  The traces quantify over any number of processes, every crash point (after
    any number of bytes), every exception point and every schedule. *)
From Coq Require Import List.
From TsdateV Require Import model.Cache proofs.CacheInv.
Import ListNotations.

(** Starting without a cache file or with a complete one, in EVERY reachable state the
    cached name is absent or holds the complete serialisation of the fresh table, and every
    process that has finished holds the fresh table.  Hypothesis: the round trip
    [load (savetxt fresh) = fresh]. *)
Theorem C36_atomic_invariant :
  forall (A Tbl : Type) (fresh : Tbl) (ser : list A) (validate : list A -> option Tbl),
  validate ser = Some fresh ->
  forall g0 tr s,
    (g0 = None \/ g0 = Some ser) ->
    run A Tbl fresh ser validate true (init A Tbl g0) tr = Some s ->
    (final s = None \/ final s = Some ser) /\
    (forall p r, nth_error (procs s) p = Some (Done r) -> r = fresh).
Proof. exact atomic_invariant. Qed.
Print Assumptions C36_atomic_invariant.

(** Starting from ANY leftover content that validation rejects (a truncated or interleaved
    file written by an older version): every run that finishes, in every interleaving,
    holds the fresh table (it read a complete file or recomputed), and the cached name only
    ever holds that rejected leftover, nothing, or the complete serialisation. *)
Theorem C36_readers_correct :
  forall (A Tbl : Type) (fresh : Tbl) (ser : list A) (validate : list A -> option Tbl),
  validate ser = Some fresh ->
  forall g0 tr s,
    (forall c, g0 = Some c -> c = ser \/ validate c = None) ->
    run A Tbl fresh ser validate true (init A Tbl g0) tr = Some s ->
    (forall c, final s = Some c -> c = ser \/ validate c = None) /\
    (forall p r, nth_error (procs s) p = Some (Done r) -> r = fresh).
Proof. exact readers_fresh. Qed.
Print Assumptions C36_readers_correct.

(** The two theorems are not vacuous: from every state a newly started process can run to
    completion (by the theorems above it then holds the fresh table). *)
Theorem C36_new_process_completes :
  forall (A Tbl : Type) (fresh : Tbl) (ser : list A) (validate : list A -> option Tbl)
         (s : state A Tbl),
  exists tr s', run A Tbl fresh ser validate true s (Spawn :: tr) = Some s' /\
                exists r, nth_error (procs s') (length (procs s)) = Some (Done r).
Proof. exact fresh_process_completes. Qed.
Print Assumptions C36_new_process_completes.

(** The protocol before commit 697662c (in-place [np.savetxt], reader trusts any parsable
    file): a writer killed after 2 of 4 bytes makes the next run return a wrong table. *)
Theorem C36_old_protocol_refuted :
  exists tr s, run nat nat 4 [0; 1; 2; 3] lenient false (init nat nat None) tr = Some s /\
               nth_error (procs s) 1 = Some (Done 2) /\ 2 <> 4.
Proof. exact old_protocol_witness. Qed.
Print Assumptions C36_old_protocol_refuted.

(** ... and rename alone is not enough when a truncated file is already there: the
    validation on load is needed too. *)
Theorem C36_unvalidated_legacy_refuted :
  exists tr s, run nat nat 4 [0; 1; 2; 3] lenient true (init nat nat (Some [0; 1])) tr = Some s /\
               nth_error (procs s) 0 = Some (Done 2) /\ 2 <> 4.
Proof. exact unvalidated_legacy_witness. Qed.
Print Assumptions C36_unvalidated_legacy_refuted.

(** non-vacuity: two writers, one killed after 4 of 5 bytes, and a later reader *)
Example C36_nonvacuous :
  crun 5 None [Spawn; Step 0 0; Step 0 0; Step 0 2; Spawn; Step 1 0; Step 0 2; Kill 0;
               Step 1 0; Step 1 5; Step 1 1; Step 1 0; Spawn; Step 2 0; Step 2 0]
  = Some (Some (5, true), [Some 4; None; None], [99; 5; 5]).
Proof. exact cache_example. Qed.
