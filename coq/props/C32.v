(** * C32 -- time metadata writing follows the set_metadata policy.
    Only statements, each closed by [exact]; proofs live in proofs/GlueMeta.v.

    The model [set_time_metadata] (model/Glue.v) is [EstimationMethod.set_time_metadata]
    (core.py:257-294) with tskit's codec ([row.metadata] = [decode],
    [schema.validate_and_encode_row] = [encode]) left abstract: the statements hold for EVERY
    codec, schema, byte alphabet and value type.  Vocabulary (proofs/GlueMeta.v):
    - [can_encode t mean var]   : a schema is set and every stored row, extended by its mn / vr,
                                  validates and encodes  ("the existing schema can encode them");
    - [well_behaved t]          : the stored rows decode to dicts under the table's own schema and
                                  encoding raises nothing but metadata errors (what fails otherwise
                                  is theorem [C32_undecodable_refuted]);
    - [default_ok d]            : the default schema encodes a fresh {"mn": m, "vr": v};
    - [rows_carry s base rows mean var bs] : [bs] has one entry per row and entry i is the
                                  encoding under [s] of a dict with "mn" = mean i, "vr" = var i that
                                  agrees with the dict [base (rows i)] on every other key;
    - log events [Warn] (logger.warning), [InfoClear], [InfoSetSchema]. *)
From Coq Require Import String List Bool.
From TsdateV Require Import model.Glue proofs.GlueMeta.
Import ListNotations.
Open Scope string_scope.

(** set_metadata=False: metadata and schema untouched, nothing logged *)
Theorem C32_false_untouched :
  forall (T other schema byte : Type) decode encode (t : @mtable schema byte) mean var d,
    set_time_metadata T other schema byte decode encode (Some false) t mean var d = Done t [].
Proof. exact false_untouched. Qed.
Print Assumptions C32_false_untouched.

(** no variance array (the maximization method): untouched whatever set_metadata is *)
Theorem C32_no_variance_untouched :
  forall (T other schema byte : Type) decode encode sm (t : @mtable schema byte) mean d,
    set_time_metadata T other schema byte decode encode sm t mean None d = Done t [].
Proof. exact no_variance_untouched. Qed.
Print Assumptions C32_no_variance_untouched.

(** set_metadata=None *)
Theorem C32_none_policy :
  forall (T other schema byte : Type) decode encode (t : @mtable schema byte) (mean var : list T) d,
    lengths_ok T schema byte t mean var ->
    well_behaved T other schema byte decode encode t ->
    default_ok T other schema byte encode d ->
    (can_encode T other schema byte decode encode t mean var ->
       exists s bs, mschema t = Some s /\
         set_time_metadata T other schema byte decode encode None t mean (Some var) d
           = Done (mkMT (Some s) bs) [] /\
         rows_carry T other schema byte encode s (in_row T other schema byte decode t s) (mrows t) mean var bs) /\
    (mschema t = None -> has_bytes schema byte t = false ->
       exists bs,
         set_time_metadata T other schema byte decode encode None t mean (Some var) d
           = Done (mkMT (Some d) bs) [InfoSetSchema] /\
         rows_carry T other schema byte encode d (fun _ => DecRow []) (mrows t) mean var bs) /\
    (~ can_encode T other schema byte decode encode t mean var ->
     ~ (mschema t = None /\ has_bytes schema byte t = false) ->
       set_time_metadata T other schema byte decode encode None t mean (Some var) d = Done t [Warn]).
Proof. exact none_policy. Qed.
Print Assumptions C32_none_policy.

(** set_metadata=True: always written; incompatible metadata cleared, default schema installed *)
Theorem C32_true_always_writes :
  forall (T other schema byte : Type) decode encode (t : @mtable schema byte) (mean var : list T) d,
    lengths_ok T schema byte t mean var ->
    well_behaved T other schema byte decode encode t ->
    default_ok T other schema byte encode d ->
    (can_encode T other schema byte decode encode t mean var ->
       exists s bs, mschema t = Some s /\
         set_time_metadata T other schema byte decode encode (Some true) t mean (Some var) d
           = Done (mkMT (Some s) bs) [] /\
         rows_carry T other schema byte encode s (in_row T other schema byte decode t s) (mrows t) mean var bs) /\
    (~ can_encode T other schema byte decode encode t mean var ->
       exists bs,
         set_time_metadata T other schema byte decode encode (Some true) t mean (Some var) d
           = Done (mkMT (Some d) bs)
                  (if has_bytes schema byte t || match mschema t with Some _ => true | None => false end
                   then [InfoClear; InfoSetSchema] else [InfoSetSchema]) /\
         rows_carry T other schema byte encode d (fun _ => DecRow []) (mrows t) mean var bs).
Proof. exact true_always_writes. Qed.
Print Assumptions C32_true_always_writes.

(** whenever a write happens (the call returns, no warning) EVERY row carries mn and vr -- for
    any codec whatsoever, no side condition *)
Theorem C32_all_rows_carry :
  forall (T other schema byte : Type) decode encode sm (t : @mtable schema byte) (mean var : list T) d t' log,
    sm <> Some false ->
    set_time_metadata T other schema byte decode encode sm t mean (Some var) d = Done t' log ->
    ~ In Warn log ->
    exists s', mschema t' = Some s' /\ length (mrows t') = length (mrows t) /\
      forall i m v, nth_error mean i = Some m -> nth_error var i = Some v ->
        exists out r0, nth_error (mrows t') i = Some out /\
          carries T other schema byte encode s' r0 m v out.
Proof. exact all_rows_carry. Qed.
Print Assumptions C32_all_rows_carry.

(** without [well_behaved] "always written" is false of the faithful model: stored bytes that do
    not decode to a dict under the table's own schema make the call raise, also with
    set_metadata=True (finding C32-undecodable) *)
Theorem C32_undecodable_refuted :
  exists (decode : unit -> list nat -> dec nat nat) (encode : unit -> row nat nat -> @enc nat)
         (t : @mtable unit nat) mean var d,
    lengths_ok nat unit nat t mean var /\
    set_time_metadata nat nat unit nat decode encode (Some true) t mean (Some var) d = Raised ExDecode.
Proof.
  exact (ex_intro _ crash_decode (ex_intro _ crash_encode (ex_intro _ (mkMT (Some tt) [[7]])
        (ex_intro _ [0] (ex_intro _ [0] (ex_intro _ tt (conj (conj eq_refl eq_refl) undecodable_crashes))))))).
Qed.
Print Assumptions C32_undecodable_refuted.

(** non-vacuity: a concrete codec on which every branch of the policy is taken *)
Example C32_nonvacuous :
  set_time_metadata nat nat bool (row nat nat) toy_decode toy_encode None
    (mkMT (Some true) [[[("a", VOther 5); ("mn", VOther 9)]]; []]) [1; 2] (Some [3; 4]) true
  = Done (mkMT (Some true) [[[("a", VOther 5); ("mn", VNum 1); ("vr", VNum 3)]];
                            [[("mn", VNum 2); ("vr", VNum 4)]]]) []
  /\
  set_time_metadata nat nat bool (row nat nat) toy_decode toy_encode None
    (mkMT (Some false) [[[("a", VOther 5)]]]) [1] (Some [3]) true
  = Done (mkMT (Some false) [[[("a", VOther 5)]]]) [Warn]
  /\
  set_time_metadata nat nat bool (row nat nat) toy_decode toy_encode (Some true)
    (mkMT (Some false) [[[("a", VOther 5)]]]) [1] (Some [3]) true
  = Done (mkMT (Some true) [[[("mn", VNum 1); ("vr", VNum 3)]]]) [InfoClear; InfoSetSchema]
  /\
  set_time_metadata nat nat bool (row nat nat) toy_decode toy_encode None
    (mkMT None [[[("x", VOther 0)]]]) [1] (Some [3]) true
  = Done (mkMT None [[[("x", VOther 0)]]]) [Warn]
  /\
  set_time_metadata nat nat bool (row nat nat) toy_decode toy_encode None
    (mkMT None [[]]) [1] (Some [3]) true
  = Done (mkMT (Some true) [[[("mn", VNum 1); ("vr", VNum 3)]]]) [InfoSetSchema].
Proof. exact toy_examples. Qed.
