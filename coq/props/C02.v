(** * C02 -- dating changes only times, time metadata and unphased singleton placement.
    Only statements, each closed by [exact]; proofs live in proofs/GlueFrame.v.

    Model: [get_modified] (model/Glue.v, Section Modified) = [EstimationMethod.get_modified_ts]
    (core.py:200-255) as a function on a table-collection record.  The record holds all eight
    tables; what tsdate never looks at (states, whole site rows, the individual and population
    tables, top-level metadata / reference sequence / the other schemas) are ABSTRACT types, so
    the equalities below hold for any content.  External pieces are parameters:
    [constrain_ages] (util.constrain_ages, modelled in Constrain.v), tskit's
    [finish_mutations] (build_index; compute_mutation_parents; compute_mutation_times) and
    [valid] (tables.tree_sequence()), tskit's metadata codec, json.dumps.  Their contracts are
    explicit premises:
    - [constrain_keeps_length]         : constrain_ages returns one time per node;
    - [finish_only_times_and_parents]  : tskit's three calls leave (site, node, state, metadata)
                                         of every mutation alone, up to a permutation of the rows. *)
From Coq Require Import String List Bool ZArith Permutation Sorted.
From TsdateV Require Import lib.Num model.Glue proofs.GlueFrame.
Import ListNotations.

(** whenever get_modified returns: sequence length, sites, individuals, populations, "everything
    else" are untouched; time_units is the method's; every node keeps its id (row), flags,
    population and individual; the migration table is the input's, row for row; the edges are the
    input's rows (as a multiset);
    the mutations are the input's mutations with the node column replaced by the result's
    [mutation_node] (as a multiset of (site, node, state)); the provenance table is the input's
    or the input's plus one row *)
Theorem C02_frame :
  forall (N : Num) (other schema byte : Type) decode encode (dns dms : schema)
         (state site indiv pop rest tunits pv : Type) (pv_string : string -> pv) (record : Type) dump
         constrain_ages finish_mutations valid
         (c : config tunits pv) (tb : @tables N schema byte state site indiv pop rest tunits record)
         (res : result N) out log,
    constrain_keeps_length N constrain_ages ->
    finish_only_times_and_parents N byte state finish_mutations ->
    length (r_mean res) = length (nodes tb) -> length (r_mut_node res) = length (muts tb) ->
    get_modified N other schema byte decode encode dns dms state site indiv pop rest tunits pv pv_string
      record dump constrain_ages finish_mutations valid c tb res = Modified out log ->
    seq_len out = seq_len tb /\ sites out = sites tb /\ individuals out = individuals tb /\
    populations out = populations tb /\ others out = others tb /\
    time_units out = c_time_units c /\
    map (node_static N byte) (nodes out) = map (node_static N byte) (nodes tb) /\
    Permutation (edges out) (edges tb) /\
    migs out = migs tb /\
    Permutation (map (mut_ident N byte state) (muts out))
                (map (fun ru => (m_site (fst ru), snd ru, m_state (fst ru))) (combine (muts tb) (r_mut_node res))) /\
    (provs out = provs tb \/ exists r, provs out = (provs tb ++ [r])%list).
Proof. exact frame. Qed.
Print Assumptions C02_frame.

(** mutation nodes differ only if the result moves them: when [mutation_node] is the input column
    (singletons phased; inside_outside; maximization -- see C04_discrete_runs_keep_nodes) the
    output holds exactly the input's (site, node, state) triples *)
Theorem C02_nodes_kept :
  forall (N : Num) (other schema byte : Type) decode encode (dns dms : schema)
         (state site indiv pop rest tunits pv : Type) (pv_string : string -> pv) (record : Type) dump
         constrain_ages finish_mutations valid
         (c : config tunits pv) (tb : @tables N schema byte state site indiv pop rest tunits record)
         (res : result N) out log,
    constrain_keeps_length N constrain_ages ->
    finish_only_times_and_parents N byte state finish_mutations ->
    length (r_mean res) = length (nodes tb) ->
    r_mut_node res = map m_node (muts tb) ->
    get_modified N other schema byte decode encode dns dms state site indiv pop rest tunits pv pv_string
      record dump constrain_ages finish_mutations valid c tb res = Modified out log ->
    Permutation (map (mut_ident N byte state) (muts out)) (map (mut_ident N byte state) (muts tb)).
Proof. exact frame_nodes_kept. Qed.
Print Assumptions C02_nodes_kept.

(** rows that are already in the order of tskit's sort key keep their ids through
    [tables.sort()] (in particular every site with a single mutation) *)
Theorem C02_sorted_rows_keep_ids :
  forall (A : Type) (le : A -> A -> bool) (l : list A),
    Sorted (fun a b => le a b = true) l -> isort A le l = l.
Proof. exact isort_sorted_id. Qed.
Print Assumptions C02_sorted_rows_keep_ids.

(** "each mutation's ... derived state and node" is FALSE row by row of the faithful model
    (finding K9): a valid 3-node input with two mutations at one site (row 0 on a sample, row 1
    above the root); [tables.sort()] (core.py:241) returns them in the other order.  The two
    equal-time migrations of the same input keep their order (repaired finding
    C02-migrations-resorted) *)
Theorem C02_rows_refuted :
  map (fun m : mut_row FNum Z Z => (m_node m, m_state m)) (muts k9_tables) = [(0, 7%Z); (2, 8%Z)] /\
  match k9_out with
  | Modified out _ =>
      map (fun m : mut_row FNum Z Z => (m_node m, m_state m)) (muts out) = [(2, 8%Z); (0, 7%Z)] /\
      map g_md (migs out) = [[0%Z]; [1%Z]]
  | Failed _ => False
  end.
Proof. exact k9_witness. Qed.
Print Assumptions C02_rows_refuted.

(** non-vacuity: the same concrete run returns, so the premises of [C02_frame] are satisfiable *)
Example C02_nonvacuous : exists out log, k9_out = Modified out log.
Proof. exact k9_returns. Qed.
