(** * C10 -- inside-outside is exact on a single tree.
    Only statements, each closed by [exact]; proofs live in proofs/DiscretePack.v,
    proofs/DiscreteInside.v (and proofs/DiscreteEx.v for the worked example).

    Stage 1 (proved, all grid sizes, all probability spaces -- the statements are equalities
    of lists and use no algebra, so they also hold for binary64 floats): the triangular
    packing.  Stage 2 (proved, all spaces, all valid edge orders): the message-level
    specification of the inside pass.  Stage 3 (proved, linear space over the reals, every
    single tree given as an inductive [tree], every grid size, priors and likelihoods >= 0
    with zeros allowed): the returned marginal likelihood equals the brute-force normalising
    constant, and the normalised inside x outside of EVERY internal node equals its
    brute-force marginal posterior (outside standardisation on or off, g_i recomputed).
    See the end of the file for what is NOT proved. *)
From Coq Require Import List QArith Reals Arith Permutation.
From TsdateV Require Import lib.Num model.Discrete proofs.DiscreteBase proofs.DiscretePack
  proofs.DiscreteInside proofs.DiscreteLog proofs.DiscreteTree proofs.DiscreteBrute proofs.DiscretePost
  proofs.DiscreteEx.
Import ListNotations.

(** rowsum_lower_tri (A (.) B) [i] = (+)_{j <= i} A(i,j) (.) B(i,j) for the flattened
    lower-triangular layout of discrete.py (row_indices / np.add.reduceat) *)
Theorem C10_tri_pack_lower : forall (P : Space) (G : nat) (A B : nat -> nat -> S P),
  rowsum_lower_tri P G
    (vcomb P (concat (map (fun i => map (A i) (seq 0 (i + 1))) (seq 0 G)))
             (concat (map (fun i => map (B i) (seq 0 (i + 1))) (seq 0 G))))
  = map (fun i => s_rsum P (map (fun j => s_comb P (A i j) (B i j)) (seq 0 (i + 1)))) (seq 0 G).
Proof. exact tri_pack_lower. Qed.
Print Assumptions C10_tri_pack_lower.

(** the column version for the flattened upper-triangular layout (col_indices) *)
Theorem C10_tri_pack_upper : forall (P : Space) (G : nat) (A B : nat -> nat -> S P),
  rowsum_upper_tri P G
    (vcomb P (concat (map (fun j => map (fun i => A i j) (seq j (G - j))) (seq 0 G)))
             (concat (map (fun j => map (fun i => B i j) (seq j (G - j))) (seq 0 G))))
  = map (fun j => s_rsum P (map (fun i => s_comb P (A i j) (B i j)) (seq j (G - j)))) (seq 0 G).
Proof. exact tri_pack_upper. Qed.
Print Assumptions C10_tri_pack_upper.

(** get_inside: the message of an edge to its parent at grid index i sums, over child
    indices j <= i, (scaled) child value at j times the edge likelihood lik(i,j) --
    through make_lower_tri, the packed likelihood array and rowsum_lower_tri *)
Theorem C10_get_inside : forall (P : Space) (G : nat) (lik : nat -> nat -> nat -> S P)
    (h : S P -> S P) (v : list (S P)) (e : nat),
  get_inside P G lik (map h (make_lower_tri P G v)) e
  = map (fun i => s_rsum P (map (fun j => s_comb P (h (nth j v (s_null P)))
                                                  (s_comb P (s_id P) (lik e i j)))
                                (seq 0 (i + 1)))) (seq 0 G).
Proof. exact get_inside_spec. Qed.
Print Assumptions C10_get_inside.

(** get_outside: the message of an edge to its child at grid index j sums over parent
    indices i >= j -- through make_upper_tri, get_mut_lik_upper_tri (the row_indices
    re-ordering of the lower-triangular array) and rowsum_upper_tri *)
Theorem C10_get_outside : forall (P : Space) (G : nat) (lik : nat -> nat -> nat -> S P)
    (h : S P -> S P) (w : list (S P)) (e : nat),
  get_outside P G lik (map h (make_upper_tri P G w)) e
  = map (fun j => s_rsum P (map (fun i => s_comb P (h (nth i w (s_null P)))
                                                  (s_comb P (s_id P) (lik e i j)))
                                (seq j (G - j)))) (seq 0 G).
Proof. exact get_outside_spec. Qed.
Print Assumptions C10_get_outside.

(** message-level specification of the inside pass: for every sequence of parent groups
    in a valid order (distinct parents, children first; [inside_order], checked on every
    input by [inside_orderb]) the final inside values, denominators and accumulated
    likelihood satisfy the belief-propagation equations *)
Theorem C10_inside_equation_partial : forall (P : Space) (G : nat) lik sfrac fixed prior std gs st st',
  inside_order fixed [] gs ->
  inside_groups P G lik sfrac fixed prior std st gs = Some st' ->
  (forall g, In g gs -> fixed (fst g) = false ->
     exists val, fold_msgs P G lik sfrac fixed (i_ins P st') (prior (fst g)) (snd g) = Some val /\
       let d := if std then npmax P val else s_id P in
       i_ins P st' (fst g) = Some (vratio P val d) /\ i_den P st' (fst g) = Some d) /\
  i_marg P st' = (if std then marg_acc P fixed (i_den P st') (i_marg P st) gs else i_marg P st).
Proof. exact inside_equation. Qed.
Print Assumptions C10_inside_equation_partial.

(** *** Stage 3: single trees against brute force (linear space, reals).

    [tree] (proofs/DiscreteTree.v): [Leaf e u] is a fixed node u below edge e, [Node e u cs] a
    non-fixed node with children cs.  [labelings G t] (proofs/DiscreteBrute.v) enumerates ALL
    assignments of a grid index in [0,G) to every internal node of t; [wt lik priorv t l] is the
    weight of one assignment: the product of the priors of the internal nodes at their indices
    and of the likelihoods of all edges, 0 as soon as a child has a larger index than its
    parent (samples sit at index 0).  [tree_ok] says that t is the tree described by the edge
    groups (every internal node is non-fixed, its child edges are one of the groups, its prior
    has G entries; leaves are fixed); [all_pos] says that no internal node has an all-zero
    inside vector (otherwise the code computes 0/0); [sfrac e = 1]: one tree, so every span
    fraction is 1; root_spans = [(root, 1)]. *)
Open Scope R_scope.

(** the belief-propagation recursion equals the sum over all assignments of the subtree *)
Theorem C10_inside_is_subtree_sum : forall (G : nat) lik priorv e u cs i, (i < G)%nat ->
  sumR (map (wt lik priorv (Node e u cs)) (labelings_at G (Node e u cs) i)) = U lik priorv (Node e u cs) i.
Proof. exact (fun G lik priorv e u cs => U_is_brute_force G lik priorv (Node e u cs)). Qed.
Print Assumptions C10_inside_is_subtree_sum.

(** the likelihood returned by inside_pass is the exact normalising constant of the model *)
Theorem C10_marginal_likelihood : forall (G : nat) lik sfrac fixed priorv es root e cs st m,
  (forall e i j, 0 <= lik e i j) -> (forall u x, In x (priorv u) -> 0 <= x) -> (forall e, sfrac e = 1) ->
  let gs := groupby e_parent es in
  let t := Node e root cs in
  inside_order fixed [] gs ->
  inside_pass LinR G lik sfrac fixed priorv true es [(root, 1)] = Some (st, m) ->
  tree_ok G fixed priorv gs t -> all_pos G lik priorv t ->
  Permutation (inodes t) (filter (fun p => negb (fixed p)) (map fst gs)) ->
  m = sumR (map (wt lik priorv t) (labelings G t)).
Proof. exact marginal_likelihood_exact. Qed.
Print Assumptions C10_marginal_likelihood.

(** C10_posterior_exact: for EVERY internal node v of the tree, the vector inside(v) * outside(v)
    computed by the two passes is, after normalisation, the exact marginal posterior of the
    discretised model: the total weight of the assignments that put v at index i (the weight sum
    with v's prior zeroed everywhere but at i, [restrict priorv v i]) over the total weight of all
    assignments.  [out_ok]: every non-root internal node has exactly one parent edge, which is its
    group in the outside order; [NoDup (inodes t)]: node ids are distinct.  The hypothesis
    [sumR vec <> 0] only excludes an all-zero posterior row (the code would then return NaN).
    Zeros in priors and likelihoods are allowed: where a child-to-parent message is 0 the code's
    0/0 := 0 (div_0_null) changes the outside value only at indices whose inside value is 0. *)
Theorem C10_posterior_exact :
  forall (G : nat) lik sfrac fixed priorv es es_out nonfixed std num_nodes root e cs st m out v,
  (forall e i j, 0 <= lik e i j) -> (forall u x, In x (priorv u) -> 0 <= x) -> (forall e, sfrac e = 1) ->
  let gs := groupby e_parent es in
  let gso := groupby e_child es_out in
  let t := Node e root cs in
  inside_order fixed [] gs ->
  inside_pass LinR G lik sfrac fixed priorv true es [(root, 1)] = Some (st, m) ->
  tree_ok G fixed priorv gs t -> all_pos G lik priorv t ->
  outside_order (map fst gso) [] gso -> ~ In root (map fst gso) -> In root nonfixed ->
  outside_pass LinR G lik sfrac fixed st false std false num_nodes 0 es_out [(root, 1)] nonfixed = Some out ->
  out_ok gso t -> NoDup (inodes t) -> In v (inodes t) ->
  exists vec, posterior_grid LinR st out v = Some vec /\ length vec = G /\
    (sumR vec <> 0 ->
     forall i, (i < G)%nat ->
       nth i vec 0 / sumR vec
       = sumR (map (wt lik (restrict priorv v i) t) (labelings G t)) / sumR (map (wt lik priorv t) (labelings G t))).
Proof. exact posterior_exact_marginal. Qed.
Print Assumptions C10_posterior_exact.

(** the same before normalisation: one constant per node *)
Theorem C10_posterior_proportional :
  forall (G : nat) lik sfrac fixed priorv es es_out nonfixed std num_nodes root e cs st m out v,
  (forall e i j, 0 <= lik e i j) -> (forall u x, In x (priorv u) -> 0 <= x) -> (forall e, sfrac e = 1) ->
  let gs := groupby e_parent es in
  let gso := groupby e_child es_out in
  let t := Node e root cs in
  inside_order fixed [] gs ->
  inside_pass LinR G lik sfrac fixed priorv true es [(root, 1)] = Some (st, m) ->
  tree_ok G fixed priorv gs t -> all_pos G lik priorv t ->
  outside_order (map fst gso) [] gso -> ~ In root (map fst gso) -> In root nonfixed ->
  outside_pass LinR G lik sfrac fixed st false std false num_nodes 0 es_out [(root, 1)] nonfixed = Some out ->
  out_ok gso t -> NoDup (inodes t) -> In v (inodes t) ->
  exists vec kappa, posterior_grid LinR st out v = Some vec /\ length vec = G /\
    forall i, (i < G)%nat ->
      nth i vec 0 = kappa * sumR (map (wt lik (restrict priorv v i) t) (labelings G t)).
Proof. exact posterior_exact. Qed.
Print Assumptions C10_posterior_proportional.
Close Scope R_scope.

(** worked example with exact rationals (3 leaves, 2 internal nodes, 3 timepoints, prior 0 at
    time 0): both edge orders satisfy the order hypotheses, the returned likelihood is the
    explicit sum over all ordered assignments, and the normalised inside*outside of both
    internal nodes equal the brute-force marginals *)
Example C10_nonvacuous :
  inside_orderb ex13_fixed [] (groupby e_parent ex10_es) = true /\
  outside_orderb (map fst (groupby e_child ex10_es_out)) [] (groupby e_child ex10_es_out) = true /\
  ex10_run = Some (ex10_Z, Some (map ex10_m3 (seq 0 3)), Some (map ex10_m4 (seq 0 3))) /\
  Qlt 0 ex10_Z.
Proof. exact C10_example. Qed.

(** the hypotheses of the Stage-3 theorems are satisfiable (same caterpillar, real-valued data) *)
Example C10_nonvacuous_tree_hypotheses :
  (forall e i j, (0 <= ex10R_lik e i j)%R) /\ (forall u x, In x (ex10R_prior u) -> (0 <= x)%R) /\
  inside_order ex10R_fixed [] (groupby e_parent ex10R_es) /\
  tree_ok 3 ex10R_fixed ex10R_prior (groupby e_parent ex10R_es) ex10R_tree /\
  all_pos 3 ex10R_lik ex10R_prior ex10R_tree /\
  Permutation (inodes ex10R_tree) (filter (fun p => negb (ex10R_fixed p)) (map fst (groupby e_parent ex10R_es))) /\
  U ex10R_lik ex10R_prior ex10R_tree 2 = 3%R.
Proof. exact C10_real_example. Qed.

Example C10_nonvacuous_outside_hypotheses :
  outside_order (map fst (groupby e_child ex10R_out)) [] (groupby e_child ex10R_out) /\
  ~ In 4%nat (map fst (groupby e_child ex10R_out)) /\
  out_ok (groupby e_child ex10R_out) ex10R_tree /\ NoDup (inodes ex10R_tree) /\ In 3%nat (inodes ex10R_tree).
Proof. exact C10_real_example_out. Qed.

(** NOT proved: (a) the logarithmic-space statement (it needs the run-level consequence of
    the operation-level homomorphism of C12); (b) the variant with cached g_i
    (cache_inside=True; the cached values are the same expression, and the correspondence runs
    both variants); (c) the final row normalisation of core.py / NodeTimeValues (standardize,
    to_probabilities), which the theorems replace by "divide by the row sum".  These are decided
    on every run by the oracle of tools/props/c10.py: an independent enumeration over all
    assignments on every tree shape up to 5 leaves (polytomies included), both spaces, all
    nodes, through the public API, and by the correspondence of the model with the
    implementation. *)
