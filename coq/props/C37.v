(** * C37 -- standalone tree-sequence rescaling works (rescaling.py rescale_tree_sequence,
    as repaired by df88118).  Only statements, each closed by [exact].
    Model: [rescale_ts_times] in model/Rescale.v = the time columns the function writes
    (nodes.time, mutations.time); [count_mutations] (C24) and [_fixed_changepoints] (C26)
    enter as inputs.  The topology clause ("only the two time columns change") and the
    validity of the returned tree sequence are NOT theorems: the model produces nothing but the
    two time columns, and tskit's sort / table validation are not modelled; both are checked on
    the implementation by the oracle of tools/props/c37.py (tested, not proved). *)
From Coq Require Import List Reals QArith.
From TsdateV Require Import lib.Num model.Rescale proofs.RescalePW proofs.RescaleArea
  proofs.RescalePost proofs.RescaleEx proofs.RescaleMain.
Import ListNotations.
Open Scope R_scope.

(** on every run that returns (any number of iterations, any changepoints containing 0, node
    times >= 0): sample (fixed) nodes keep their time *)
Theorem C37_samples_fixed :
  forall (times : list R) fixed (liks : list (R * R)) edges cpss muts (t' mt : list R),
  rescale_ts_times RNum times fixed liks edges cpss muts = Some (t', mt) ->
  (forall cps, In cps cpss -> In O cps) ->
  (forall i, 0 <= nth i times 0) ->
  length t' = length times /\
  forall i, (i < length times)%nat -> nth i fixed false = true -> nth i t' 0 = nth i times 0.
Proof. exact ts_samples_fixed. Qed.
Print Assumptions C37_samples_fixed.

(** ... non-sample times are transformed by one non-decreasing map that fixes 0, so the order
    of two non-sample nodes is never reversed *)
Theorem C37_monotone_map :
  forall (times : list R) fixed (liks : list (R * R)) edges cpss muts (t' mt : list R),
  rescale_ts_times RNum times fixed liks edges cpss muts = Some (t', mt) ->
  (forall cps, In cps cpss -> In O cps) ->
  (forall i, 0 <= nth i times 0) ->
  (exists g : R -> R, g 0 = 0 /\ (forall u v, 0 <= u -> u <= v -> g u <= g v) /\
     forall i, (i < length times)%nat -> nth i fixed false = false -> nth i t' 0 = g (nth i times 0)) /\
  (forall i j, (i < length times)%nat -> (j < length times)%nat ->
     nth i fixed false = false -> nth j fixed false = false ->
     nth i times 0 <= nth j times 0 -> nth i t' 0 <= nth j t' 0).
Proof. exact ts_monotone_map. Qed.
Print Assumptions C37_monotone_map.

(** ... every mutation mapped to an edge sits at the midpoint of that edge's rescaled branch
    (strictly inside when the branch has positive length); a mutation above a root
    (edge = tskit.NULL) sits at its node's time *)
Theorem C37_mutation_midpoint :
  forall (times : list R) fixed (liks : list (R * R)) edges cpss muts (t' mt : list R),
  rescale_ts_times RNum times fixed liks edges cpss muts = Some (t', mt) ->
  length mt = length muts /\
  forall m, (m < length muts)%nat ->
    match nth m muts (None, O) with
    | (Some e, _) =>
        let p := fst (nth e edges (O, O)) in
        let c := snd (nth e edges (O, O)) in
        nth m mt 0 = (nth p t' 0 + nth c t' 0) / 2 /\
        (nth c t' 0 < nth p t' 0 -> nth c t' 0 < nth m mt 0 < nth p t' 0)
    | (None, node) => nth m mt 0 = nth node t' 0
    end.
Proof. exact ts_mutation_midpoint. Qed.
Print Assumptions C37_mutation_midpoint.

(** non-vacuity: one iteration on the 5-node example; mutations on edges 3->0, 4->3 and
    above the root *)
Example C37_nonvacuous :
  rescale_ts_times QNum ex_times ex_fixed ex_liks ex_edges [[0; 1; 2]]%nat
    [(Some 0, 0); (Some 3, 3); (None, 4)]%nat
  = Some ([0; 0; 0; 3 # 2; 11 # 4], [3 # 4; 17 # 8; 11 # 4])%Q.
Proof. exact C37_example. Qed.
