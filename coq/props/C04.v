(** * C04 -- reported posteriors in metadata equal the fit object's posteriors.
    Only statements, each closed by [exact]; proofs live in proofs/GlueDiscrete.v.

    Models (model/Glue.v): Section Runs = which arrays each method's [run()] hands to
    [get_modified_ts] and what the fit object's [node_posteriors()] / [mutation_posteriors()]
    return; Section Discrete = [standardize], [force_probability_space], [to_probabilities],
    [mean_var] one grid row at a time ([sum] = numpy's np.sum, [expf] = np.exp, external);
    Section Modified / Meta = how the arrays reach the metadata.  [carries s r0 m v bytes] :
    [bytes] encodes under schema [s] a dict with "mn" = m and "vr" = v (proofs/GlueMeta.v). *)
From Coq Require Import String List Bool ZArith Reals QArith PrimFloat.
From TsdateV Require Import lib.Num model.Glue proofs.GlueMeta proofs.GlueFrame proofs.GlueDiscrete.
Import ListNotations.

(** variational_gamma: the arrays given to the metadata writer are the "mean" / "variance"
    columns of node_posteriors() and mutation_posteriors() of the same EP state *)
Theorem C04_vgamma_same_source :
  forall (N : Num) (ep : Type) (node_moments mutation_moments : ep -> list (T N) * list (T N))
         (mutation_mapping : ep -> list nat) (st : ep),
    let res := vgamma_result N ep node_moments mutation_moments mutation_mapping st in
    (r_mean res, r_var res)
      = (fst (vgamma_node_posteriors N ep node_moments st), Some (snd (vgamma_node_posteriors N ep node_moments st))) /\
    (r_mut_mean res, r_mut_var res)
      = (Some (fst (vgamma_mutation_posteriors N ep mutation_moments st)),
         Some (snd (vgamma_mutation_posteriors N ep mutation_moments st))).
Proof. exact vgamma_same_source. Qed.
Print Assumptions C04_vgamma_same_source.

(** whenever get_modified returns without a warning and a write was requested, node i's metadata
    encodes a dict whose mn / vr are exactly result.posterior_mean[i] / posterior_var[i] (the
    unconstrained values, not the constrained node time), for every i, under any codec *)
Theorem C04_node_metadata_is_result :
  forall (N : Num) (other schema byte : Type) decode encode (dns dms : schema)
         (state site indiv pop rest tunits pv : Type) (pv_string : string -> pv) (record : Type) dump
         constrain_ages finish_mutations valid
         (c : config tunits pv) (tb : @tables N schema byte state site indiv pop rest tunits record)
         (res : result N) out log var,
    constrain_keeps_length N constrain_ages ->
    c_set_metadata c <> Some false -> r_var res = Some var ->
    get_modified N other schema byte decode encode dns dms state site indiv pop rest tunits pv pv_string
      record dump constrain_ages finish_mutations valid c tb res = Modified out log ->
    ~ In Warn log ->
    exists s', node_schema out = Some s' /\ length (nodes out) = length (nodes tb) /\
      forall i m v, nth_error (r_mean res) i = Some m -> nth_error var i = Some v ->
        exists nr r0, nth_error (nodes out) i = Some nr /\
          carries (T N) other schema byte encode s' r0 m v (n_md nr).
Proof. exact node_metadata_is_result. Qed.
Print Assumptions C04_node_metadata_is_result.

(** inside_outside: a row that reaches [to_probabilities] non-negative with non-zero total comes
    back non-negative and summing to one ([sum] is any function that is the real sum) *)
Theorem C04_rows_are_probabilities :
  forall (sum : list R -> R), (forall l, sum l = sumR l) ->
  forall row : list R,
    (forall x, In x row -> (0 <= x)%R) -> sumR row <> 0%R ->
    exists p, to_probabilities RNum sum row = Some p /\
      length p = length row /\ (forall x, In x p -> (0 <= x)%R) /\ sumR p = 1%R.
Proof. exact rows_are_probabilities. Qed.
Print Assumptions C04_rows_are_probabilities.

(** every non-fixed row reported by node_posteriors() is such an image; fixed rows stay fixed *)
Theorem C04_io_posterior_rows :
  forall (sum : list R -> R) (expf : R -> R) sp grid post,
    io_posterior RNum sum expf sp grid = Some post ->
    length post = length grid /\
    forall i, match nth_error grid i, nth_error post i with
              | Some None, Some None => True
              | Some (Some r), Some (Some p) => posterior_row RNum sum expf sp r = Some p
              | None, None => True
              | _, _ => False
              end.
Proof. exact io_posterior_rows. Qed.
Print Assumptions C04_io_posterior_rows.

(** mean_var of a probability row over the timepoints: mn = sum p t, vr = sum p t^2 - mn^2 *)
Theorem C04_mean_var_formula :
  forall (sum : list R -> R), (forall l, sum l = sumR l) ->
  forall times probs : list R,
    length probs = length times -> sumR probs = 1%R ->
    mean_var_row RNum sum times probs
    = (dot probs times, (dot2 probs times - dot probs times * dot probs times)%R).
Proof. exact mean_var_formula. Qed.
Print Assumptions C04_mean_var_formula.

(** the arrays inside_outside hands to the metadata writer: entry i is mean_var of row i of the
    reported posterior, or (the node's own time, 0) for a fixed (sample) node; no mutation arrays *)
Theorem C04_io_metadata_is_mean_var :
  forall (sum : list R -> R) times node_times post mnodes i t row,
    nth_error node_times i = Some t -> nth_error post i = Some row ->
    let res := io_result RNum sum times node_times post mnodes in
    nth_error (r_mean res) i = Some (fst (mean_var_node RNum sum times t row)) /\
    option_map (fun v => nth_error v i) (r_var res) = Some (Some (snd (mean_var_node RNum sum times t row))) /\
    r_mut_var res = None /\ r_mut_node res = mnodes.
Proof. exact io_metadata_is_mean_var. Qed.
Print Assumptions C04_io_metadata_is_mean_var.

Theorem C04_fixed_node_exact :
  forall (sum : list R -> R) (times : list R) (t : R),
    mean_var_node RNum sum times t None = (t, 0%R).
Proof. exact fixed_node_exact. Qed.
Print Assumptions C04_fixed_node_exact.

(** maximization hands over no variance: node metadata, both schemas untouched, nothing logged *)
Theorem C04_maximization_no_metadata :
  forall (N : Num) (other schema byte : Type) decode encode (dns dms : schema)
         (state site indiv pop rest tunits pv : Type) (pv_string : string -> pv) (record : Type) dump
         constrain_ages finish_mutations valid
         (c : config tunits pv) (tb : @tables N schema byte state site indiv pop rest tunits record)
         (res : result N) out log,
    constrain_keeps_length N constrain_ages ->
    length (r_mean res) = length (nodes tb) ->
    r_var res = None -> r_mut_var res = None ->
    get_modified N other schema byte decode encode dns dms state site indiv pop rest tunits pv pv_string
      record dump constrain_ages finish_mutations valid c tb res = Modified out log ->
    node_schema out = node_schema tb /\ map n_md (nodes out) = map n_md (nodes tb) /\
    mut_schema out = mut_schema tb /\ log = [].
Proof. exact no_variance_no_metadata. Qed.
Print Assumptions C04_maximization_no_metadata.

(** the discrete methods pass the input's mutation nodes through and produce no mutation arrays *)
Theorem C04_discrete_runs_keep_nodes :
  forall (N : Num) (sum : list (T N) -> T N) times node_times post mean mnodes,
    r_mut_node (io_result N sum times node_times post mnodes) = mnodes /\
    r_mut_node (max_result N mean mnodes) = mnodes /\
    r_var (max_result N mean mnodes) = None /\ r_mut_var (max_result N mean mnodes) = None /\
    r_mut_var (io_result N sum times node_times post mnodes) = None.
Proof. exact discrete_runs_keep_nodes. Qed.
Print Assumptions C04_discrete_runs_keep_nodes.

(** "each mutation's mn/vr equals mutation_posteriors()" is FALSE row by row of the faithful model
    (finding K9): two mutations at one site with posterior means 5 (row 0) and 9 (row 1); after
    [tables.sort()] row 0 of the output carries mn = 9 *)
Theorem C04_mutation_rows_refuted :
  match w_out with
  | Modified out _ =>
      map (fun m : mut_row FNum wrow Z => (m_state m, m_md m)) (muts out)
      = [(8%Z, [[("mn"%string, VNum 9%float); ("vr"%string, VNum 1%float)]]);
         (7%Z, [[("mn"%string, VNum 5%float); ("vr"%string, VNum 1%float)]])]
  | Failed _ => False
  end.
Proof. exact metadata_rows_witness. Qed.
Print Assumptions C04_mutation_rows_refuted.

(** non-vacuity: exact rational run of the row pipeline *)
Example C04_nonvacuous :
  posterior_row QNum qsum (fun x => x) LinGrid [1; 2; 4]%Q = Some [1 # 7; 2 # 7; 4 # 7]%Q /\
  mean_var_row QNum qsum [0; 1; 2]%Q [1 # 7; 2 # 7; 4 # 7]%Q = (10 # 7, 26 # 49)%Q /\
  mean_var_node QNum qsum [0; 1; 2]%Q (5 # 1)%Q None = (5 # 1, 0)%Q.
Proof. exact discrete_example. Qed.
