(** * C35 -- invalid inputs are rejected cleanly (validation front end of tsdate.core).
    Only statements, each closed by [exact]; the model is model/Validate.v, the proofs
    are in proofs/ValidateFacts.v.  The clause "valid inputs never crash" concerns the
    numerical kernels and is NOT a theorem: it is explored by the harness
    (tools/props/c35.py) with known findings. *)
From Coq Require Import List ZArith QArith Bool.
From TsdateV Require Import model.Validate proofs.ValidateFacts.
Import ListNotations.

(** Every invalid input listed in the property -- unknown method, a recombination rate,
    non-positive, NaN or infinite min_branch_length, negative or non-int constr_iterations, and for
    variational_gamma: max_iterations <= 0 (or NaN), a non-positive or NaN mutation rate,
    a population size, priors, eps, a tree sequence without mutations -- is rejected,
    whatever the other parameters and the tree sequence are; and unless a keyword the
    method does not know is passed as well (Python's own TypeError), the exception is a
    ValueError or a NotImplementedError.
    (Non-positive mutation rates with the discrete-time methods are NOT in
    [listed_invalid]: see [C35_discrete_rate_unvalidated_refuted].) *)
Theorem C35_invalid_rejected : forall p f,
  listed_invalid p f = true ->
  exists c t, decide p f = Reject c t /\ (foreign_kwargs p = false -> c = VE \/ c = NIE).
Proof. exact invalid_rejected. Qed.
Print Assumptions C35_invalid_rejected.

(** The checks accept exactly the documented-valid inputs: the order in which the code
    performs its checks never lets an invalid combination through nor blocks a valid one. *)
Theorem C35_accept_iff_valid : forall p f, decide p f = Proceed <-> valid_spec p f = true.
Proof. exact accept_iff_valid. Qed.
Print Assumptions C35_accept_iff_valid.

(** Every rejection is justified: the message raised names a condition that really holds
    of the input ([tag_cond]), and its exception class is the one belonging to that message;
    in particular a valid min_branch_length / constr_iterations / ... is never blamed. *)
Theorem C35_rejections_justified : forall p f c t,
  decide p f = Reject c t -> c = class_of t /\ tag_cond t p f = true.
Proof. exact rejections_justified. Qed.
Print Assumptions C35_rejections_justified.

(** without foreign keywords no TypeError can come out of the front end *)
Theorem C35_rejection_class_clean : forall p f c t,
  foreign_kwargs p = false -> decide p f = Reject c t -> c = VE \/ c = NIE.
Proof. exact rejection_class_clean. Qed.
Print Assumptions C35_rejection_class_clean.

(** parse_result: the tree sequence, then the fit, then the likelihood, as requested;
    a tuple exactly when something besides the tree sequence is requested *)
Theorem C35_result_shape : forall p,
  result_items (parse_result p) =
    RTreeSequence :: (if truthy (p_return_fit p) then [RFit] else [])
                  ++ (if truthy (p_return_likelihood p) then [RLikelihood] else [])
  /\ is_tuple (parse_result p) = truthy (p_return_fit p) || truthy (p_return_likelihood p).
Proof. exact result_shape. Qed.
Print Assumptions C35_result_shape.

(** the property's "non-positive rates are rejected" is FALSE of the front end for the
    discrete-time methods: mutation_rate = 0 passes every check (finding
    C35-discrete-zero-rate; the numerical code then returns a result when the tree
    sequence has no mutations, and otherwise fails with a misleading ValueError) *)
Theorem C35_discrete_rate_unvalidated_refuted :
  exists p f, p_method p = Some MInsideOutside /\
              p_mutation_rate p = Some (NInt 0) /\ decide p f = Proceed.
Proof. exact discrete_rate_unvalidated. Qed.
Print Assumptions C35_discrete_rate_unvalidated_refuted.

(** non-vacuity: a concrete valid call is accepted and returns (ts, fit); the same call
    with min_branch_length = NaN is a listed invalid input and is rejected with the
    min_branch_length ValueError, and so it is with +inf (repair 825a5e0) *)
Example C35_nonvacuous :
  decide vg_params nice_ts = Proceed /\
  parse_result vg_params = inr [RTreeSequence; RFit] /\
  listed_invalid (set_mbl vg_params (Some (NFloat XNaN))) nice_ts = true /\
  decide (set_mbl vg_params (Some (NFloat XNaN))) nice_ts = Reject VE T_min_branch_length /\
  decide (set_mbl vg_params (Some (NFloat XPInf))) nice_ts = Reject VE T_min_branch_length.
Proof. exact example_nonvacuous. Qed.
