(** * C07 -- rescaling genome coordinates and mutation rate together leaves dates unchanged.
    Proved here: the data that dating extracts from the tree sequence (which edge every
    mutation is on, per-edge mutation counts, per-edge mutational mass span*mu) is
    identical for (coordinates * c, mu / c), for every c > 0, over the reals; everything
    downstream is a function of these.  The tie of this reference semantics to
    rescaling.count_mutations is the exact correspondence run by the check; the downstream
    clause is decided by the metamorphic oracle on the implementation. *)
From Coq Require Import List ZArith QArith Reals.
From TsdateV Require Import lib.Num model.Inputs proofs.InputsFacts proofs.InputsEx.
Import ListNotations.
Open Scope R_scope.

Theorem C07_inputs_invariant : forall (c mu : R) (es : list (edge RNum)) (ms : list (R * nat)),
  0 < c ->
  mut_edges RNum (map (scale_edge RNum c) es) (map (scale_mut RNum c) ms) = mut_edges RNum es ms /\
  edge_inputs RNum (map (scale_edge RNum c) es) (map (scale_mut RNum c) ms) (mu / c)
  = edge_inputs RNum es ms mu.
Proof. exact C07_inputs. Qed.
Print Assumptions C07_inputs_invariant.

Example C07_nonvacuous :
  edge_inputs_Q [(0%Z, 10%Z, 4%nat, 0%nat); (0%Z, 10%Z, 4%nat, 1%nat); (0%Z, 4%Z, 5%nat, 2%nat); (4%Z, 10%Z, 6%nat, 2%nat); (0%Z, 10%Z, 6%nat, 4%nat)]
                [(1%Z, 0%nat); (3%Z, 2%nat); (5%Z, 2%nat); (7%Z, 4%nat); (9%Z, 6%nat)]
  = ([Some 0%nat; Some 2%nat; Some 3%nat; Some 4%nat; None],
     [(1%nat, (10 # 1)%Q); (0%nat, (10 # 1)%Q); (1%nat, (4 # 1)%Q); (1%nat, (6 # 1)%Q); (1%nat, (10 # 1)%Q)]).
Proof. exact inputs_example. Qed.
