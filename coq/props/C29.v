(** * C29 -- splitting disjoint nodes preserves every local tree.
    Only statements, each closed by [exact]; proofs live in proofs/Split*.v, proofs/SweepInv.v.

    Proved (model over integer coordinates, any edge table whose node ids are in range):
    the kernel leaves edge intervals alone and every new parent / child id maps back, through
    [nodes_order], to the original parent / child -- hence the local tree at every position is
    the input's once new nodes are mapped back; first pieces keep their id, further pieces get
    fresh ids; [nodes_order] is the identity on old ids followed by [split_nodes]; every
    mutation ends on a node that maps back to its original node.
    NOT proved, decided on every run by the implementation-side oracle (tskit Tree API) and
    the exact correspondence of the model with the code:
      C29_contiguous       : every non-sample output node is present on ONE interval;
      C29_mutations_follow : a mutation moves to the piece present at its position (when its
                             node is in an edge there);
      C29_idempotent       : a second application changes nothing;
      genotypes unchanged, copies keep time / population / individual / flags + split flag. *)
From Coq Require Import List ZArith Bool.
From TsdateV Require Import lib.Tables model.Sweep model.Split proofs.SplitThms.
Import ListNotations.
Open Scope Z_scope.

Theorem C29_trees_preserved_edgewise : forall es excluded N,
  (forall e, (e < length es)%nat -> (eparent (edge_at es e) < N)%nat /\ (echild (edge_at es e) < N)%nat) ->
  forall np nc order split, split_disjoint es excluded N = (np, nc, order, split) ->
  length np = length es /\ length nc = length es /\ order = seq 0 N ++ split /\
  forall e, (e < length es)%nat ->
    exists p c, nth e np (-1) = Z.of_nat p /\ nth p order O = eparent (edge_at es e) /\
                nth e nc (-1) = Z.of_nat c /\ nth c order O = echild (edge_at es e) /\
                (p = eparent (edge_at es e) \/ (N <= p)%nat) /\ (c = echild (edge_at es e) \/ (N <= c)%nat).
Proof. exact C29_back. Qed.
Print Assumptions C29_trees_preserved_edgewise.

(** _relabel_mutations_node, for ANY relabelled edge columns and any [nodes_order] that is the
    identity on the original ids: the output has one entry per mutation and each entry is a
    node that [nodes_order] maps back to the mutation's original node (partial form of
    C29_mutations_follow: "a piece of its node", not yet "the piece present at its position") *)
Theorem C29_mutations_same_node_partial : forall es new_parent new_child order mpos mnode N M,
  (forall u, (u < N)%nat -> order u = u) ->
  (forall m, (m < M)%nat -> (mnode m < N)%nat) ->
  forall insq remq out,
    relabel_mutations es new_parent new_child order mpos mnode M insq remq = Some out ->
    length out = M /\
    forall m, (m < M)%nat -> exists c, nth m out (-1) = Z.of_nat c /\ order c = mnode m.
Proof. exact C29_relabel. Qed.
Print Assumptions C29_mutations_same_node_partial.

(** non-vacuity: a node with two disjoint pieces is split, its second piece gets a fresh id,
    and its mutations follow *)
Example C29_nonvacuous :
  valid_tablesb 10 ex29_edges [0; 2; 4; 5; 1; 3]%nat [0; 2; 4; 5; 1; 3]%nat = true /\
  split_disjoint_nodes ex29_edges ex29_smp ex29_muts [0; 2; 4; 5; 1; 3]%nat [0; 2; 4; 5; 1; 3]%nat
    = Some ([3; 5; 3; 5; 4; 4], [0; 0; 1; 1; 0; 1], [0; 1; 2; 3; 4; 3]%nat, [3%nat], [3; 3; 5; 0]).
Proof. exact C29_example. Qed.

(** regression example for the repaired defect S2 (fix 3af34f9: [_relabel_mutations_node] no longer
    reads [remove_position[-1]] of an empty array): a valid table without edges *)
Example C29_no_edges :
  valid_tablesb 10 [] [] [] = true /\
  split_disjoint_nodes [] [true; true] [(3, 0%nat)] [] [] = Some ([], [], [0; 1]%nat, [], [0]).
Proof. exact C29_no_edges_example. Qed.
