(** * C22 -- unphased singleton handling only re-phases singletons and ignores input phase.
    Only statements, each closed by [exact]; proofs live in proofs/BlockFacts.v (and
    proofs/SweepFacts.v, proofs/SweepInv.v).

    Model: [block_singletons] (phasing._block_singletons) and [switch_node] / [switch_edge]
    (the phase switch of ExpectationPropagation.infer); the outcome of
    [mutation_phase < 0.5] per mutation is an input of the model ([lt_half]).
    NOT proved, decided on every run by the metamorphic oracle on date() (random re-phasings)
    and by the exact correspondence of the model with the code:
      invariance of the dated OUTPUT (node times, mutation times, metadata) under re-phasing
      of the input singletons -- [C22_blocks_phase_blind] covers the blocks, the rest goes
      through the EP numerics, which this model does not contain. *)
From Coq Require Import List ZArith Bool.
From TsdateV Require Import lib.Tables model.Sweep model.BlockSingletons proofs.BlockFacts proofs.BlockInv.
Import ListNotations.
Open Scope Z_scope.

(** the kernel reads a mutation's node only through nodes_individual: two inputs that differ
    only in which node OF THE SAME INDIVIDUAL each mutation sits on give the same block spans,
    counts, block edges, mutation -> block map, and the same errors *)
Theorem C22_blocks_phase_blind : forall es unphased nind mpos mnode mnode',
  (forall m, nind (mnode m) = nind (mnode' m)) ->
  forall L M insq remq,
    block_singletons es unphased nind mpos mnode L M insq remq =
    block_singletons es unphased nind mpos mnode' L M insq remq.
Proof. exact blocks_phase_blind. Qed.
Print Assumptions C22_blocks_phase_blind.

(** singletons_phased=True (no individual unphased): for valid tables the sweep terminates with
    no block at all and the switch is the identity on mutation nodes *)
Theorem C22_phased_identity : forall es nind mpos mnode L insq remq M lt_half,
  edges_in_range L es -> valid_index es insq remq -> 0 <= L ->
  exists stats bedges mblock,
    block_singletons es (fun _ => false) nind mpos mnode L M insq remq = inr (stats, bedges, mblock) /\
    stats = [] /\ bedges = [] /\
    forall m, (m < M)%nat -> switch_node es bedges (of_list (-1) mblock) lt_half mnode m = mnode m.
Proof. exact phased_identity. Qed.
Print Assumptions C22_phased_identity.

(** the switch is local: a mutation whose node changes lies in a block, and its new node is the
    child of one of that block's two edges *)
Theorem C22_switch_moves_only_blocked : forall es bedges mblock lt_half mnode m,
  switch_node es bedges mblock lt_half mnode m <> mnode m ->
  mblock m <> -1 /\
  exists e0 e1, nth (Z.to_nat (mblock m)) bedges (-1, -1) = (e0, e1) /\
    (switch_node es bedges mblock lt_half mnode m = echild (edge_at es (Z.to_nat e0)) \/
     switch_node es bedges mblock lt_half mnode m = echild (edge_at es (Z.to_nat e1))).
Proof. exact switch_local. Qed.
Print Assumptions C22_switch_moves_only_blocked.

(** ... and the children of a block's two edges are nodes of the mutation's own (unphased)
    individual: for ANY tables and index orders, if the kernel returns, every mutation mapped to
    block [b] sits on a node of some unphased individual [i], and both edges of row [b] of
    blocks_edges lead to nodes of that same individual.  With diploid individuals the new node
    is therefore the old node or its partner. *)
Theorem C22_block_edges_are_individual_nodes : forall es unphased nind mpos mnode L M insq remq stats bedges mblock,
  (forall c, -1 <= nind c) ->
  block_singletons es unphased nind mpos mnode L M insq remq = inr (stats, bedges, mblock) ->
  forall m b, (m < M)%nat -> nth m mblock (-1) = b -> b <> -1 ->
    exists e0 e1, nth (Z.to_nat b) bedges (-1, -1) = (e0, e1) /\ 0 <= e0 /\ 0 <= e1 /\
      nind (echild (edge_at es (Z.to_nat e0))) = nind (mnode m) /\
      nind (echild (edge_at es (Z.to_nat e1))) = nind (mnode m) /\
      nind (mnode m) <> -1 /\ unphased (Z.to_nat (nind (mnode m))) = true.
Proof. exact block_edges_individual_stmt. Qed.
Print Assumptions C22_block_edges_are_individual_nodes.

(** non-vacuity: two diploid individuals; the second's two leaf branches change at 6; one
    singleton per stretch; switching the phase of the first singleton moves it to the partner *)
Example C22_nonvacuous :
  valid_tablesb 10 ex22_edges ex22_ins ex22_rem = true /\
  block_singletons_list ex22_edges [true; true] ex22_nind ex22_muts 10 ex22_ins ex22_rem
    = inr ([(0, Some 10); (1, Some 6); (1, Some 4)], [(0, 1); (2, 3); (4, 5)], [1; 2; -1]) /\
  map (switch_node ex22_edges [(0, 1); (2, 3); (4, 5)] (of_list (-1) [1; 2; -1]) (of_list false [false; true; false])
                   (fun m => snd (nth m ex22_muts (0, O)))) [0; 1; 2]%nat = [2; 3; 4]%nat.
Proof. exact C22_example. Qed.
