(** * C08 -- dates depend only on topology, sample times and mutation placement.
    [C08_front_end_factorises]: the model of the dating front end (model/FrontEnd.v: the sample
    set, the node constraints and their validity check, roots / leaves / unconstrained roots, the
    (position, node) placement of every mutation, the edge each mutation sits on and the per-edge
    (count, span * mu)) reads a table collection whose node rows carry the WHOLE flags word, the time
    and an opaque payload, whose sites and mutations carry payloads, and whose remaining tables are an
    opaque payload; it is a function of the projection the property names (edges, node times,
    sample flags, mutation positions and nodes).  [C08_only_sample_bit_read]: rewriting the flags
    by any map that keeps bit 0, and every payload arbitrarily, changes nothing;
    [C08_equality_mask_refuted]: a front end testing flags == 1 would not have that property.
    [C08_factorises]: the older statement on the smaller projection (edges, mutations) used by C07.
    What these theorems do NOT cover is the numerical dating algorithm downstream of the front end:
    that it reads nothing else from the tree sequence is DECIDED by the differential check (the
    implementation run on inputs differing only outside pi must give identical results), and the
    model is tied to the code by comparing [front_end_F] with the attributes of the implementation's
    ExpectationPropagation object on every run. *)
From Coq Require Import List Reals ZArith QArith.
From TsdateV Require Import lib.Num model.Inputs proofs.InputsFacts model.FrontEnd proofs.FrontEndFacts.
Open Scope R_scope.

Theorem C08_front_end_factorises : forall (Junk : Type) (tb tb' : tables RNum Junk) (mu : R),
  pi_full tb = pi_full tb' -> front_end tb mu = front_end tb' mu.
Proof. exact (front_end_factor RNum). Qed.
Print Assumptions C08_front_end_factorises.

Theorem C08_only_sample_bit_read : forall (Junk : Type) (tb : tables RNum Junk) (mu : R)
    (g : Z -> Z) (j : Junk -> Junk),
  (forall f, Z.testbit (g f) 0 = Z.testbit f 0) ->
  front_end (mkTables (map (fun n => mkNode (g (nflags n)) (ntime n) (j (njunk n))) (t_nodes tb))
                      (t_edges tb) (t_sites tb) (t_muts tb) (j (t_rest tb))) mu
  = front_end tb mu.
Proof. exact (front_end_flag_bits RNum). Qed.
Print Assumptions C08_only_sample_bit_read.

Theorem C08_equality_mask_refuted : exists (n n' : node QNum unit),
  (ntime n, is_sample n) = (ntime n', is_sample n') /\ constraint_eqmask n <> constraint_eqmask n'.
Proof. exact eqmask_refuted. Qed.
Print Assumptions C08_equality_mask_refuted.

Theorem C08_factorises : forall (Junk : Type) (tb tb' : raw_tables RNum Junk) (mu : R),
  pi tb = pi tb' -> dating_inputs tb mu = dating_inputs tb' mu.
Proof. exact C08_factor. Qed.
Print Assumptions C08_factorises.

(** two DIFFERENT table collections (flag bits, payloads, a mutation-free extra site) with the same projection *)
Example C08_nonvacuous : exists (tb tb' : tables QNum nat),
  tb <> tb' /\ pi_full tb = pi_full tb' /\ t_nodes tb <> t_nodes tb' /\ t_sites tb <> t_sites tb'.
Proof. exact front_end_nonvacuous. Qed.
