(** * C08 -- dates depend only on topology, sample times and mutation placement.
    The model's input type is the projection pi (edges, mutation positions and nodes);
    the statement below records that signature.  It is a restatement (true by
    construction); the property is DECIDED by the differential check: the implementation
    is run on inputs that differ only in data outside pi and must give identical
    results, and the implementation's extraction layer must equal the model run on pi. *)
From Coq Require Import List Reals.
From TsdateV Require Import lib.Num model.Inputs proofs.InputsFacts.
Open Scope R_scope.

Theorem C08_factorises : forall (Junk : Type) (tb tb' : raw_tables RNum Junk) (mu : R),
  pi tb = pi tb' -> dating_inputs tb mu = dating_inputs tb' mu.
Proof. exact C08_factor. Qed.
Print Assumptions C08_factorises.
