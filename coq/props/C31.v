(** * C31 -- site-time estimates follow their documented definition.
    Only statements, each closed by [exact]; model: model/SiteTime.v (util.py:221-358),
    proofs: proofs/SiteTimeFacts.v.  Which node is the parent of a mutation's node at a
    site is tskit's [tree.parent] and enters the model as data. *)
From Coq Require Import List Bool Reals QArith.
From TsdateV Require Import lib.Num model.SiteTime proofs.SiteTimeFacts.
Import ListNotations.
Open Scope R_scope.

(** a site with mutations gets the largest, over its mutations, of the chosen node-age
    summary, raised to at least [min_time]: the value [v] is [min_time] or one of the ages,
    it is >= [min_time] and >= every age *)
Theorem C31_definition : forall (sel : selection) (min_time : R) (t : nat -> R) ms,
  ms <> [] ->
  exists v, site_time RNum sqrt sel min_time t ms = Some v /\
    (v = min_time \/ In v (map (age RNum sqrt sel t) ms)) /\
    min_time <= v /\
    (forall a, In a (map (age RNum sqrt sel t) ms) -> a <= v).
Proof. exact site_time_definition. Qed.
Print Assumptions C31_definition.

(** a site without mutations gets NaN ([None]), whatever [min_time] is *)
Theorem C31_no_mutation_is_nan : forall (sel : selection) (min_time : R) (t : nat -> R),
  site_time RNum sqrt sel min_time t [] = None.
Proof. exact site_time_no_mutation. Qed.
Print Assumptions C31_no_mutation_is_nan.

(** the node-age summaries: child, parent, arithmetic mean, geometric mean; above a root
    (no parent) always the child's age *)
Theorem C31_age_definition : forall (t : nat -> R) node p,
  age RNum sqrt SelChild t (node, Some p) = t node /\
  age RNum sqrt SelParent t (node, Some p) = t p /\
  age RNum sqrt SelArithmetic t (node, Some p) = (t node + t p) / 2 /\
  age RNum sqrt SelGeometric t (node, Some p) = sqrt (t node * t p) /\
  (forall sel, age RNum sqrt sel t (node, None) = t node).
Proof. exact age_definition. Qed.
Print Assumptions C31_age_definition.

(** unconstrained=True: sample nodes keep their tree-sequence time, every other node's age
    is the [mn] field of its metadata *)
Theorem C31_unconstrained_source : forall (times : list R) (is_sample : list bool) (mn : list (option R)) r,
  unconstrained_list RNum times is_sample mn = Some r ->
  length r = length times /\
  forall u, (u < length times)%nat ->
    (nth u is_sample false = true -> nth u r 0 = nth u times 0) /\
    (nth u is_sample true = false -> nth u mn None = Some (nth u r 0)).
Proof. exact unconstrained_source. Qed.
Print Assumptions C31_unconstrained_source.

(** ... and a non-sample node without that field makes the function fail (ValueError) *)
Theorem C31_unconstrained_missing_metadata : forall (times : list R) (is_sample : list bool) (mn : list (option R)) u,
  length is_sample = length times -> length mn = length times -> (u < length times)%nat ->
  nth u is_sample true = false -> nth u mn (Some 0) = None ->
  unconstrained_list RNum times is_sample mn = None.
Proof. exact unconstrained_missing. Qed.
Print Assumptions C31_unconstrained_missing_metadata.

(** add_sampledata_times: the site time becomes the larger of the estimate and the age of
    the oldest historical sample carrying the derived allele *)
Theorem C31_sampledata_max : forall (e b : R),
  exists v, sampledata_time RNum (Some e) b = Some v /\ (v = e \/ v = b) /\ e <= v /\ b <= v.
Proof. exact sampledata_max. Qed.
Print Assumptions C31_sampledata_max.

Example C31_nonvacuous :
  site_time QNum (fun x => x) SelArithmetic 1%Q ex_times [(0%nat, Some 1%nat); (1%nat, Some 2%nat); (3%nat, None)]
    = Some 10%Q /\
  site_time QNum (fun x => x) SelChild 1%Q ex_times [(0%nat, Some 1%nat)] = Some 1%Q /\
  site_time QNum (fun x => x) SelParent 1%Q ex_times [(0%nat, Some 1%nat); (1%nat, Some 2%nat)] = Some 7%Q /\
  site_time QNum (fun x => x) SelChild 1%Q ex_times [] = None.
Proof. exact example_nonvacuous. Qed.
