(** * C24 -- per-edge mutation, span and singleton-block tallies are exact.
    Only statements, each closed by [exact]; proofs live in proofs/Count*.v, proofs/SweepFacts.v,
    proofs/TablesFacts.v.

    Proved for every valid table (model over integer coordinates): the mutation -> edge map
    of [rescaling._count_mutations] (both variants) and the plain per-edge counts and spans;
    agreement of [util.mutation_span_array] with the sweep.
    NOT proved, decided on every run by the exact differential check of the model (and of the
    implementation) against the reference semantics [ref_edge_count_sb] / [ref_edge_span_sb] /
    [ref_blocks] (lib/Tables.v, model/Sweep.v, model/BlockSingletons.v; executable, no sweep)
    and against the tskit Tree API:
      C24_size_biased : with weights, [edges_mutations e = sum over mutations on e of
                        samples_below (pos m) (node m)] and [edges_span e = sum over x in
                        [left e, right e) of samples_below x (child e)];
      C24_blocks      : each block's span is the length of the maximal interval over which the
                        individual's two parent edges are unchanged and its count the singletons
                        there (hypothesis: both nodes of an unphased individual have a parent
                        wherever either has).  Without that hypothesis the statement is false of
                        the model (and of the code): [C24_blocks_missing_refuted]. *)
(* (the former [C24_blocks_index_refuted], defect S1, was repaired in /repo by f3f9c6a and is
   now the positive example [C24_more_individuals_than_edges]) *)
From Coq Require Import List ZArith Bool.
From TsdateV Require Import lib.Tables model.Sweep model.BlockSingletons proofs.TablesFacts proofs.CountThms.
Import ListNotations.
Open Scope Z_scope.

(** for valid tables "the edge above node c at x" is well defined: [edge_above] returns the
    unique edge with that child whose interval contains x *)
Theorem C24_edge_above_is_unique : forall es, one_parent es -> forall x c e,
  edge_above es x c = Some e <->
  ((e < length es)%nat /\ covers (edge_at es e) x = true /\ echild (edge_at es e) = c).
Proof. exact C24_edge_above_unique. Qed.
Print Assumptions C24_edge_above_is_unique.

(** plain and size-biased: the sweep terminates and maps every mutation to the edge above its
    node at its position, NULL (-1) above a root, on an isolated node or beyond the last edge *)
Theorem C24_mutation_edge : forall es L size_biased mpos mnode num_nodes M is_sample insq remq,
  edges_in_range L es -> one_parent es -> valid_index es insq remq -> 0 <= L ->
  (forall m, (m < M)%nat -> 0 <= mpos m) ->
  exists s, count_mutations es L size_biased mpos mnode num_nodes is_sample M insq remq = Some s /\
    forall m, (m < M)%nat -> cm_medge s m = edge_above_z es (mpos m) (mnode m).
Proof. exact C24_medge. Qed.
Print Assumptions C24_mutation_edge.

(** plain variant: [edges_mutations e] is the number of mutations whose edge is [e] and
    [edges_span e = right e - left e] *)
Theorem C24_counts_spans : forall es L mpos mnode num_nodes M is_sample insq remq,
  edges_in_range L es -> one_parent es -> valid_index es insq remq -> 0 <= L ->
  (forall m, (m < M)%nat -> 0 <= mpos m) ->
  exists s, count_mutations es L false mpos mnode num_nodes is_sample M insq remq = Some s /\
    forall e, (e < length es)%nat ->
      cm_emuts s e = Z.of_nat (length (filter (fun m => edge_above_z es (mpos m) (mnode m) =? Z.of_nat e) (seq 0 M))) /\
      cm_espan s e = eright (edge_at es e) - eleft (edge_at es e).
Proof. exact C24_counts. Qed.
Print Assumptions C24_counts_spans.

(** the plain tallies do not depend on which sample mask is passed *)
Theorem C24_plain_ignores_mask : forall es L mpos mnode num_nodes M mask1 mask2 insq remq,
  edges_in_range L es -> one_parent es -> valid_index es insq remq -> 0 <= L ->
  (forall m, (m < M)%nat -> 0 <= mpos m) ->
  exists s1 s2, count_mutations es L false mpos mnode num_nodes mask1 M insq remq = Some s1 /\
                count_mutations es L false mpos mnode num_nodes mask2 M insq remq = Some s2 /\
    (forall m, (m < M)%nat -> cm_medge s1 m = cm_medge s2 m) /\
    (forall e, (e < length es)%nat -> cm_emuts s1 e = cm_emuts s2 e /\ cm_espan s1 e = cm_espan s2 e).
Proof. exact C24_plain_mask. Qed.
Print Assumptions C24_plain_ignores_mask.

(** util.mutation_span_array (tskit's [mut.edge] taken as the edge above the mutation's node)
    returns the same two columns as the sweep *)
Theorem C24_span_array_agrees : forall es L mpos mnode num_nodes M is_sample insq remq,
  edges_in_range L es -> one_parent es -> valid_index es insq remq -> 0 <= L ->
  (forall m, (m < M)%nat -> 0 <= mpos m) ->
  exists s, count_mutations es L false mpos mnode num_nodes is_sample M insq remq = Some s /\
    mutation_span_array es (map (fun m => edge_above_z es (mpos m) (mnode m)) (seq 0 M)) =
      (to_list (length es) (cm_emuts s), to_list (length es) (cm_espan s)).
Proof. exact C24_span_array. Qed.
Print Assumptions C24_span_array_agrees.

(** finding K8: a valid table with missing data on which the kernel's block [[60, 100)] holds 4
    singletons although the definition ([ref_blocks]) gives 1 (and one mutation maps to it) *)
Theorem C24_blocks_missing_refuted :
  exists es unphased nind muts L insq remq stats bedges mblock,
    valid_tablesb L es insq remq = true /\
    block_singletons_list es unphased nind muts L insq remq = inr (stats, bedges, mblock) /\
    map fst stats <> map (fun r => snd (fst r)) (ref_blocks es (of_list (-1) nind) muts L 0).
Proof. exact C24_k8_refuted. Qed.
Print Assumptions C24_blocks_missing_refuted.

(** regression example for the repaired defect S1 (fix f3f9c6a: [individuals_block] is sized by
    [num_individuals], no longer by [num_edges]): a valid table with more individuals than edges
    and an unphased individual whose id is >= num_edges is an ordinary case; kernel model and
    definition agree *)
Example C24_more_individuals_than_edges :
  valid_tablesb 10 [mkEdge 0 10 6 4; mkEdge 0 10 6 5] [0; 1]%nat [0; 1]%nat = true /\
  block_singletons_list [mkEdge 0 10 6 4; mkEdge 0 10 6 5] [false; false; true] [0; 0; 1; 1; 2; 2; -1]
                        [(3, 4%nat)] 10 [0; 1]%nat [0; 1]%nat = inr ([(1, Some 10)], [(0, 1)], [0]) /\
  ref_blocks [mkEdge 0 10 6 4; mkEdge 0 10 6 5] (of_list (-1) [0; 0; 1; 1; 2; 2; -1]) [(3, 4%nat)] 10 2
    = [(10, 1, [0; 1]%nat)].
Proof. exact C24_more_individuals_than_edges_example. Qed.

(** non-vacuity: a valid two-tree table with a mutation above a root and one on a node outside
    the topology; plain and size-biased model outputs, and the no-sweep references *)
Example C24_nonvacuous :
  valid_tablesb 10 ex24_edges ex24_ins ex24_rem = true /\
  count_mutations_list ex24_edges 10 false ex24_muts ex24_smp ex24_ins ex24_rem
    = Some ([1; 1; 1; 0; 1], [6; 10; 4; 8; 10], [-1; 0; 4; 2; -1; 1]) /\
  count_mutations_list ex24_edges 10 true ex24_muts ex24_smp ex24_ins ex24_rem
    = Some ([1; 1; 1; 0; 2], [6; 10; 4; 8; 16], [-1; 0; 4; 2; -1; 1]) /\
  map (ref_mutation_edge ex24_edges) ex24_muts = [-1; 0; 4; 2; -1; 1] /\
  map (ref_edge_count_sb ex24_edges 5 (of_list false ex24_smp) ex24_muts) (edge_ids ex24_edges) = [1; 1; 1; 0; 2] /\
  map (ref_edge_span_sb ex24_edges 5 (of_list false ex24_smp)) (edge_ids ex24_edges) = [6; 10; 4; 8; 16].
Proof. exact C24_example. Qed.
