(** * C23 -- rescaling credits each unphased singleton to its branches by phase probability.
    Only statements, each closed by [exact]; proofs in proofs/PhasingFacts.v.
    Models: coq/model/Phasing.v ([reallocate_unphased]) and the phase switch / orientation of
    coq/model/EP.v ([infer], [rescale], as they are after the repair f63c418).
    [credit bes (Some b, p) e] is what a singleton of block [b] with phase [p] adds to edge [e]:
    [p] on the block's first edge, [1 - p] on its second.
    Over R there is no NaN: singletons with an undefined phase (skipped by the code, which then
    fails its closing assertion) are covered only by the float correspondence. *)
From Coq Require Import List Reals Lra QArith.
From TsdateV Require Import lib.Num model.EP model.Phasing proofs.EPInv proofs.PhasingFacts.
Import ListNotations.
Open Scope R_scope.

(** when [reallocate_unphased] returns, every count is: (0 on an unphased edge, the old count
    elsewhere) plus the credits of all singletons *)
Theorem C23_counts_are_credits : forall (atol rtol : R) nE bes cnt muts c,
  reallocate RNum atol rtol nE bes cnt muts = Some c ->
  forall e, c e = (if edge_unphased bes e then 0 else cnt e) + lsum (map (fun mb => credit bes mb e) muts).
Proof. exact realloc_spec. Qed.
Print Assumptions C23_counts_are_credits.

(** each singleton adds exactly one mutation in total, [p] to the first and [1 - p] to the second
    edge of its block, nothing anywhere else; phased mutations add nothing *)
Theorem C23_one_per_singleton : forall nE bes b (p : R) i j,
  nth_error bes b = Some (i, j) -> (i < nE)%nat -> (j < nE)%nat ->
  rsum nE (credit bes (Some b, p)) = 1 /\
  (i <> j -> credit bes (Some b, p) i = p /\ credit bes (Some b, p) j = 1 - p) /\
  (forall e, e <> i -> e <> j -> credit bes (Some b, p) e = 0).
Proof. exact credit_total. Qed.
Print Assumptions C23_one_per_singleton.

Theorem C23_phased_add_nothing : forall bes (p : R) e, credit bes (None, p) e = 0.
Proof. exact credit_none. Qed.
Print Assumptions C23_phased_add_nothing.

(** counts on all branches outside singleton blocks are unchanged *)
Theorem C23_others_unchanged : forall (atol rtol : R) nE bes cnt muts c,
  reallocate RNum atol rtol nE bes cnt muts = Some c ->
  forall e, edge_unphased bes e = false -> c e = cnt e.
Proof. exact realloc_others. Qed.
Print Assumptions C23_others_unchanged.

(** the phase of one singleton through [infer] and [rescale]: fitted probability [r] of the
    first edge; [infer] places the mutation on the likelier edge and stores that edge's
    probability (>= 1/2); [rescale] hands [reallocate_unphased] the probability of the FIRST edge
    again ([q = r]).  So the branch the mutation is placed on gets the larger share. *)
Theorem C23_placed_edge_gets_larger_share : forall (bes : list (nat * nat)) b (first second : nat) (r : R),
  nth_error bes b = Some (first, second) -> first <> second -> 0 <= r <= 1 ->
  let '(placed, stored, q) := singleton_flow RNum (1 / 2) first second r in
  credit bes (Some b, q) placed = stored /\ 1 / 2 <= credit bes (Some b, q) placed /\
  credit bes (Some b, q) first + credit bes (Some b, q) second = 1.
Proof. exact placed_share. Qed.
Print Assumptions C23_placed_edge_gets_larger_share.

Theorem C23_phase_flow : forall (first second : nat) (r : R), first <> second -> 0 <= r <= 1 ->
  let '(placed, stored, q) := singleton_flow RNum (1 / 2) first second r in
  q = r /\ 1 / 2 <= stored <= 1 /\
  ((placed = first /\ stored = q) \/ (placed = second /\ stored = 1 - q)).
Proof. exact flow_spec. Qed.
Print Assumptions C23_phase_flow.

(** non-vacuity: two singletons of one block (phases 3/4 and 1/4) and a phased mutation;
    counts [2; 0; 5] become [1; 1; 5] *)
Example C23_nonvacuous : exP = Some [1; 1; 5]%Q.
Proof. exact exP_ok. Qed.
