(** * Tables: a small model of the tskit tables the edge-diff sweep kernels read.

    Edges are a list (row id = position in the list); genomic coordinates are integers
    ([Z]): every generated input of the correspondence uses integer coordinates, on which
    the float comparisons of the kernels are exact.  Node / edge / mutation ids are [nat];
    tskit's NULL (-1) appears only in the [Z]-valued id arrays of the kernel models.

    The *reference semantics* ([covers], [children_at], [num_children], [edge_above],
    [parent_at], [samples_below]) are defined directly from the edge list, with no sweep;
    they are the right-hand sides of the theorems and are executable, so the harness also
    evaluates them inside Coq as an independent differential reference. *)
From Coq Require Import List ZArith Bool Arith Lia Sorting.Permutation Sorting.Sorted.
Import ListNotations.
Open Scope Z_scope.

Record edge := mkEdge { eleft : Z; eright : Z; eparent : nat; echild : nat }.

Definition dummy_edge : edge := mkEdge 0 0 0 0.
Definition edge_at (es : list edge) (i : nat) : edge := nth i es dummy_edge.
Definition edge_ids (es : list edge) : list nat := seq 0 (length es).

(** total maps with point update (arrays indexed by node / edge / individual id) *)
Definition upd {A} (t : nat -> A) (u : nat) (v : A) : nat -> A :=
  fun w => if Nat.eqb w u then v else t w.
Definition of_list {A} (d : A) (l : list A) : nat -> A := fun i => nth i l d.
Definition to_list {A} (n : nat) (f : nat -> A) : list A := map f (seq 0 n).

(** ** Reference semantics *)

(** edge [e] is part of the local tree at position [x] *)
Definition covers (e : edge) (x : Z) : bool := (eleft e <=? x) && (x <? eright e).

(** ids of the edges whose parent is [u] in the tree at [x] *)
Definition children_at (es : list edge) (x : Z) (u : nat) : list nat :=
  filter (fun i => covers (edge_at es i) x && Nat.eqb (eparent (edge_at es i)) u) (edge_ids es).

Definition num_children (es : list edge) (x : Z) (u : nat) : Z :=
  Z.of_nat (length (children_at es x u)).

(** the same count computed in one pass over the rows (used where the models evaluate child
    counts; equal to [num_children] by [TablesFacts.num_children_l_eq]) *)
Definition num_children_l (es : list edge) (x : Z) (u : nat) : Z :=
  Z.of_nat (length (filter (fun e => covers e x && Nat.eqb (eparent e) u) es)).

(** the edge above node [c] in the tree at [x] (the first such row; unique for valid tables) *)
Definition edge_above (es : list edge) (x : Z) (c : nat) : option nat :=
  find (fun i => covers (edge_at es i) x && Nat.eqb (echild (edge_at es i)) c) (edge_ids es).

Definition parent_at (es : list edge) (x : Z) (c : nat) : option nat :=
  option_map (fun i => eparent (edge_at es i)) (edge_above es x c).

(** number of nodes marked by [is_sample] in the subtree below (and including) [u] at [x];
    [fuel] bounds the depth (number of nodes suffices for acyclic tables) *)
Fixpoint samples_below (fuel : nat) (es : list edge) (is_sample : nat -> bool) (x : Z) (u : nat) : Z :=
  match fuel with
  | O => 0
  | S f =>
      (if is_sample u then 1 else 0) +
      fold_right Z.add 0
        (map (fun i => samples_below f es is_sample x (echild (edge_at es i))) (children_at es x u))
  end.

(** some edge with parent [u] starts or ends at [x] *)
Definition changed_at (es : list edge) (x : Z) (u : nat) : Prop :=
  exists i, (i < length es)%nat /\ eparent (edge_at es i) = u /\
            (eleft (edge_at es i) = x \/ eright (edge_at es i) = x).

(** ** Validity (the tskit requirements the sweeps rely on) *)

(** every edge is a non-empty interval inside [[0, L]] *)
Definition edges_in_range (L : Z) (es : list edge) : Prop :=
  forall i, (i < length es)%nat -> 0 <= eleft (edge_at es i) < eright (edge_at es i) /\ eright (edge_at es i) <= L.

(** a node has at most one parent at any position *)
Definition one_parent (es : list edge) : Prop :=
  forall i j x, (i < length es)%nat -> (j < length es)%nat ->
    echild (edge_at es i) = echild (edge_at es j) ->
    covers (edge_at es i) x = true -> covers (edge_at es j) x = true -> i = j.

(** the insertion (removal) index lists every edge once, by non-decreasing left (right) end *)
Definition sorted_by (key : nat -> Z) (q : list nat) : Prop :=
  StronglySorted (fun a b => key a <= key b) q.

Definition valid_index (es : list edge) (insq remq : list nat) : Prop :=
  Permutation insq (edge_ids es) /\ Permutation remq (edge_ids es) /\
  sorted_by (fun i => eleft (edge_at es i)) insq /\
  sorted_by (fun i => eright (edge_at es i)) remq.

(** executable versions, evaluated by the harness on every generated input *)
Definition edges_in_rangeb (L : Z) (es : list edge) : bool :=
  forallb (fun e => (0 <=? eleft e) && (eleft e <? eright e) && (eright e <=? L)) es.

Definition overlap (e f : edge) : bool := (eleft e <? eright f) && (eleft f <? eright e).

Fixpoint one_parentb (es : list edge) : bool :=
  match es with
  | [] => true
  | e :: r => forallb (fun f => negb (Nat.eqb (echild e) (echild f) && overlap e f)) r && one_parentb r
  end.

Fixpoint sortedb (key : nat -> Z) (q : list nat) : bool :=
  match q with
  | [] => true
  | a :: r => match r with [] => true | b :: _ => (key a <=? key b) && sortedb key r end
  end.

Fixpoint insert_nat (a : nat) (l : list nat) : list nat :=
  match l with
  | [] => [a]
  | b :: r => if (a <=? b)%nat then a :: l else b :: insert_nat a r
  end.
Definition sort_nat (l : list nat) : list nat := fold_right insert_nat [] l.
Fixpoint list_eqb (a b : list nat) : bool :=
  match a, b with
  | [], [] => true
  | x :: a', y :: b' => Nat.eqb x y && list_eqb a' b'
  | _, _ => false
  end.
Definition is_perm_of_ids (n : nat) (q : list nat) : bool := list_eqb (sort_nat q) (seq 0 n).

Definition valid_indexb (es : list edge) (insq remq : list nat) : bool :=
  is_perm_of_ids (length es) insq && is_perm_of_ids (length es) remq &&
  sortedb (fun i => eleft (edge_at es i)) insq && sortedb (fun i => eright (edge_at es i)) remq.

Definition valid_tablesb (L : Z) (es : list edge) (insq remq : list nat) : bool :=
  edges_in_rangeb L es && one_parentb es && valid_indexb es insq remq.
