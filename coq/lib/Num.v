(** * Num: the numeric interface every model is written against.

    One Gallina definition, three uses:
    - [RNum]  : Coq's real numbers, used for theorems;
    - [QNum]  : exact rationals, evaluated by [vm_compute] for witnesses / examples;
    - [FNum]  : primitive IEEE-754 binary64 floats ([PrimFloat]), evaluated by
                [vm_compute] for the bit-exact correspondence with the Python code.
    Transcendental functions are not part of the record: the models take them as
    explicit function parameters where they are needed. *)
From Coq Require Import ZArith QArith Reals PrimFloat Uint63.

Record Num := mkNum {
  T      : Type;
  zero   : T;
  one    : T;
  add    : T -> T -> T;
  sub    : T -> T -> T;
  mul    : T -> T -> T;
  div    : T -> T -> T;
  neg    : T -> T;
  ltb    : T -> T -> bool;
  leb    : T -> T -> bool;
  eqb    : T -> T -> bool;
  ofZ    : Z -> T
}.

Declare Scope num_scope.
Delimit Scope num_scope with num.

(** ** Rationals *)
Definition QNum : Num := {|
  T := Q; zero := 0%Q; one := 1%Q;
  add := fun a b => Qred (Qplus a b); sub := fun a b => Qred (Qminus a b);
  mul := fun a b => Qred (Qmult a b); div := fun a b => Qred (Qdiv a b);
  neg := Qopp;
  ltb := fun a b => negb (Qle_bool b a); leb := Qle_bool; eqb := Qeq_bool;
  ofZ := inject_Z |}.

(** ** Primitive floats (binary64, round-to-nearest-even, as numpy/numba) *)
Definition FNum : Num := {|
  T := float; zero := PrimFloat.zero; one := PrimFloat.one;
  add := PrimFloat.add; sub := PrimFloat.sub; mul := PrimFloat.mul; div := PrimFloat.div;
  neg := PrimFloat.opp;
  ltb := PrimFloat.ltb; leb := PrimFloat.leb; eqb := PrimFloat.eqb;
  ofZ := fun z => match z with
                  | Z0 => PrimFloat.zero
                  | Zpos p => PrimFloat.of_uint63 (Uint63.of_Z (Zpos p))
                  | Zneg p => PrimFloat.opp (PrimFloat.of_uint63 (Uint63.of_Z (Zpos p)))
                  end |}.

(** ** Reals (proofs only; comparisons through the decidable order of [R]) *)
Definition Rltb (a b : R) : bool := if Rlt_dec a b then true else false.
Definition Rleb (a b : R) : bool := if Rle_dec a b then true else false.
Definition Reqb (a b : R) : bool := if Req_EM_T a b then true else false.

Definition RNum : Num := {|
  T := R; zero := 0%R; one := 1%R;
  add := Rplus; sub := Rminus; mul := Rmult; div := Rdiv; neg := Ropp;
  ltb := Rltb; leb := Rleb; eqb := Reqb;
  ofZ := IZR |}.

Lemma Rltb_true a b : Rltb a b = true <-> (a < b)%R.
Proof. unfold Rltb; destruct (Rlt_dec a b); split; intros; try assumption; try reflexivity; try discriminate; contradiction. Qed.
Lemma Rleb_true a b : Rleb a b = true <-> (a <= b)%R.
Proof. unfold Rleb; destruct (Rle_dec a b); split; intros; try assumption; try reflexivity; try discriminate; contradiction. Qed.
Lemma Rltb_false a b : Rltb a b = false <-> (b <= a)%R.
Proof. unfold Rltb; destruct (Rlt_dec a b) as [H|H]; split; intros H'; try discriminate; try reflexivity.
  - exfalso. apply (Rlt_irrefl a). eapply Rlt_le_trans; eassumption.
  - apply Rnot_lt_le; exact H. Qed.
Lemma Rleb_false a b : Rleb a b = false <-> (b < a)%R.
Proof. unfold Rleb; destruct (Rle_dec a b) as [H|H]; split; intros H'; try discriminate; try reflexivity.
  - exfalso. apply (Rlt_irrefl a). eapply Rle_lt_trans; eassumption.
  - apply Rnot_le_lt; exact H. Qed.
Lemma Reqb_true a b : Reqb a b = true <-> a = b.
Proof. unfold Reqb; destruct (Req_EM_T a b); split; intros; try assumption; try reflexivity; try discriminate; contradiction. Qed.
