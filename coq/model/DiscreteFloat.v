(** * binary64 instances of the two probability spaces of [model/Discrete.v].

    [PrimFloat] has no exp / log / pow, so they are implemented here with float
    arithmetic (table-driven range reduction + short series; relative error about 1e-15,
    checked against libm on every run by the harness: tools/props/_discrete.py
    [check_float_funs]).  They are used ONLY to evaluate the model on doubles for the
    correspondence (tolerance 1e-9); no theorem mentions them.  No proofs in this file. *)
From Coq Require Import List PrimFloat Uint63.
From TsdateV Require Import lib.Num model.Discrete.
Import ListNotations.

Definition f_isnan (x : float) : bool := negb (PrimFloat.eqb x x).

(** exp(2^i) and exp(-2^i), i = 9 .. -6, correctly rounded *)
Definition exp_pos : list (float * float) := [
    ((0x1.0000000000000p+9)%float, (0x1.9476504ba852ep+738)%float);
    ((0x1.0000000000000p+8)%float, (0x1.41c7a8814bebap+369)%float);
    ((0x1.0000000000000p+7)%float, (0x1.95e54c5dd4217p+184)%float);
    ((0x1.0000000000000p+6)%float, (0x1.425982cf597cdp+92)%float);
    ((0x1.0000000000000p+5)%float, (0x1.1f43fcc4b662cp+46)%float);
    ((0x1.0000000000000p+4)%float, (0x1.0f2ebd0a80020p+23)%float);
    ((0x1.0000000000000p+3)%float, (0x1.749ea7d470c6ep+11)%float);
    ((0x1.0000000000000p+2)%float, (0x1.b4c902e273a58p+5)%float);
    ((0x1.0000000000000p+1)%float, (0x1.d8e64b8d4ddaep+2)%float);
    ((0x1.0000000000000p+0)%float, (0x1.5bf0a8b145769p+1)%float);
    ((0x1.0000000000000p-1)%float, (0x1.a61298e1e069cp+0)%float);
    ((0x1.0000000000000p-2)%float, (0x1.48b5e3c3e8186p+0)%float);
    ((0x1.0000000000000p-3)%float, (0x1.2216045b6f5cdp+0)%float);
    ((0x1.0000000000000p-4)%float, (0x1.1082b577d34edp+0)%float);
    ((0x1.0000000000000p-5)%float, (0x1.08205601127edp+0)%float);
    ((0x1.0000000000000p-6)%float, (0x1.04080ab55de39p+0)%float)
  ].
Definition exp_neg : list (float * float) := [
    ((0x1.0000000000000p+9)%float, (0x1.44109edb20931p-739)%float);
    ((0x1.0000000000000p+8)%float, (0x1.9755956ad4e9cp-370)%float);
    ((0x1.0000000000000p+7)%float, (0x1.42eb9f39afb0bp-185)%float);
    ((0x1.0000000000000p+6)%float, (0x1.969d47321e4ccp-93)%float);
    ((0x1.0000000000000p+5)%float, (0x1.c8464f7616468p-47)%float);
    ((0x1.0000000000000p+4)%float, (0x1.e355bbaee85cbp-24)%float);
    ((0x1.0000000000000p+3)%float, (0x1.5fc21041027adp-12)%float);
    ((0x1.0000000000000p+2)%float, (0x1.2c155b8213cf4p-6)%float);
    ((0x1.0000000000000p+1)%float, (0x1.152aaa3bf81ccp-3)%float);
    ((0x1.0000000000000p+0)%float, (0x1.78b56362cef38p-2)%float);
    ((0x1.0000000000000p-1)%float, (0x1.368b2fc6f960ap-1)%float);
    ((0x1.0000000000000p-2)%float, (0x1.8ebef9eac820bp-1)%float);
    ((0x1.0000000000000p-3)%float, (0x1.c3d6a24ed8222p-1)%float);
    ((0x1.0000000000000p-4)%float, (0x1.e0fabfbc702a4p-1)%float);
    ((0x1.0000000000000p-5)%float, (0x1.f03f56a88b5d8p-1)%float);
    ((0x1.0000000000000p-6)%float, (0x1.f80feabfeefa5p-1)%float)
  ].

(** subtract the powers of two that fit, multiplying the matching constants *)
Fixpoint exp_reduce (tbl : list (float * float)) (rem acc : float) : float * float :=
  match tbl with
  | [] => (rem, acc)
  | (p, E) :: r => if PrimFloat.leb p rem then exp_reduce r (PrimFloat.sub rem p) (PrimFloat.mul acc E)
                   else exp_reduce r rem acc
  end.

(** Taylor polynomial of degree 9 of exp at |y| < 2^-6 (remainder < 1e-24) *)
Definition exp_small (y : float) : float :=
  let c k := PrimFloat.div 1 (PrimFloat.of_uint63 k) in
  (1 + y * (1 + y * c 2%uint63 * (1 + y * c 3%uint63 * (1 + y * c 4%uint63 * (1 + y * c 5%uint63 *
   (1 + y * c 6%uint63 * (1 + y * c 7%uint63 * (1 + y * c 8%uint63 * (1 + y * c 9%uint63)))))))))%float.

Definition fexp (x : float) : float :=
  if f_isnan x then x
  else if PrimFloat.leb 1024 x then infinity
  else if PrimFloat.leb x (-1024) then 0%float
  else if PrimFloat.leb 0 x then
    let '(rem, acc) := exp_reduce exp_pos x 1%float in PrimFloat.mul acc (exp_small rem)
  else
    let '(rem, acc) := exp_reduce exp_neg (PrimFloat.opp x) 1%float in
    PrimFloat.mul acc (exp_small (PrimFloat.opp rem)).

Definition ln2 : float := (0x1.62e42fefa39efp-1)%float.
Definition sqrt_half : float := (0x1.6a09e667f3bcdp-1)%float.

(** x = m * 2^k with m in [sqrt(1/2), sqrt 2); ln m = 2 atanh((m-1)/(m+1)) *)
Definition flog (x : float) : float :=
  if f_isnan x then x
  else if PrimFloat.ltb x 0 then nan
  else if PrimFloat.eqb x 0 then neg_infinity
  else if PrimFloat.eqb x infinity then infinity
  else
    let '(m, e) := PrimFloat.frshiftexp x in
    let k := PrimFloat.sub (PrimFloat.of_uint63 e) 2101%float in
    let '(m, k) := if PrimFloat.ltb m sqrt_half then (PrimFloat.mul m 2, PrimFloat.sub k 1) else (m, k) in
    let s := PrimFloat.div (PrimFloat.sub m 1) (PrimFloat.add m 1) in
    let z := PrimFloat.mul s s in
    let c k := PrimFloat.div 1 (PrimFloat.of_uint63 k) in
    let ser := (1 + z * (c 3%uint63 + z * (c 5%uint63 + z * (c 7%uint63 + z * (c 9%uint63 + z * (c 11%uint63 +
               z * (c 13%uint63 + z * (c 15%uint63 + z * (c 17%uint63 + z * (c 19%uint63 + z * (c 21%uint63 +
               z * c 23%uint63)))))))))))%float in
    PrimFloat.add (PrimFloat.mul k ln2) (PrimFloat.mul (PrimFloat.mul 2 s) ser).

(** value ** fraction for value >= 0 and fraction > 0; [x ** 1.0] is exact in libm *)
Definition fpow (v f : float) : float :=
  if PrimFloat.eqb f 1 then v
  else if PrimFloat.eqb v 0 then 0%float
  else fexp (PrimFloat.mul f (flog v)).

Definition LinF : Space := LinSpace FNum fpow.
Definition LogF : Space := LogSpace FNum neg_infinity fexp flog.

(** compact exact float literals for the harness: [fl m e] = m * 2^(e - 2101), m < 2^53
    (Coq parses integer literals several times faster than hexadecimal float literals) *)
Definition fl (m e : int) : float := PrimFloat.ldshiftexp (PrimFloat.of_uint63 m) e.
Definition nfl (m e : int) : float := PrimFloat.opp (fl m e).
