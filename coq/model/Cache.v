(** * Model of the on-disk prior cache protocol of [tsdate/prior.py]
    ([ConditionalCoalescentTimes.__init__] lines 146-159,
     [precalculate_priors_for_approximation] lines 257-288,
     [load_precalculated_priors] lines 290-317, [clear_precalculated_priors]).

    A file system with one final name ([get_precalc_cache(n)]) and one temporary name per
    process ([tempfile.mkstemp] in the same directory); any number of processes, each a run of
    [ConditionalCoalescentTimes(n)] for the same [n] and version, with a program counter; an
    interleaving is a list of actions.  Assumptions made explicit as arguments / hypotheses
    of the theorems: every run computes the same table [fresh] with serialisation [ser]
    ([np.savetxt] text); [os.replace] is atomic; a file opened for reading is an immutable
    snapshot (the final name is only ever (re)bound by [os.replace], never written in place);
    [mkstemp] names are unique.  No proofs in this file. *)
From Coq Require Import List Arith Bool ZArith Uint63.
Import ListNotations.

Section Cache.
  Variable A : Type.                          (* bytes *)
  Variable Tbl : Type.                        (* lookup tables *)
  Variable fresh : Tbl.                       (* the table computed for this (n, version) *)
  Variable ser : list A.                      (* np.savetxt(fresh) *)
  Variable validate : list A -> option Tbl.   (* load_precalculated_priors on a file content *)

  (** [atomic = true]: the protocol of the code as it is now (temp file + os.replace).
      [atomic = false]: the protocol before commit 697662c (np.savetxt straight to the final
      name), kept only for the refutation witness. *)
  Variable atomic : bool.

  Inductive pc : Type :=
  | Start                 (* before [os.path.isfile(filename)] *)
  | Reading               (* isfile was true, before [open(filename).read()] *)
  | Computing             (* table is None: compute it, before [mkstemp] *)
  | Writing (k : nat)     (* output file open, [k] bytes of [ser] written *)
  | Closed                (* [with] block left: file complete and closed, before [os.replace] *)
  | Done (r : Tbl)        (* [__init__] returned with [approx_priors = r] *)
  | Dead.                 (* killed, or left by an exception *)

  Record state : Type := mkState {
    final : option (list A);            (* content under the cached name, if it exists *)
    temps : list (option (list A));     (* temp file of process p, if it exists *)
    procs : list pc
  }.

  Inductive action : Type :=
  | Spawn                    (* a new process starts [ConditionalCoalescentTimes(n)] *)
  | Step (p : nat) (k : nat) (* process [p] runs to its next file-system operation;
                                while writing, [k] = number of further bytes that reach the file *)
  | Kill (p : nat)           (* hard crash (SIGKILL, power loss): no cleanup *)
  | Raise (p : nat)          (* an exception (I/O error, KeyboardInterrupt): the [except
                                BaseException] handler removes the temp file *)
  | Clear.                   (* [clear_precalculated_priors] / the user deletes the cache file *)

  Fixpoint upd {X} (l : list X) (i : nat) (x : X) : list X :=
    match l, i with
    | [], _ => []
    | _ :: r, O => x :: r
    | y :: r, S i' => y :: upd r i' x
    end.

  Definition set_pc (s : state) (p : nat) (c : pc) : state :=
    mkState (final s) (temps s) (upd (procs s) p c).
  Definition set_temp (s : state) (p : nat) (t : option (list A)) : state :=
    mkState (final s) (upd (temps s) p t) (procs s).
  Definition set_final (s : state) (f : option (list A)) : state :=
    mkState f (temps s) (procs s).

  (** the file the writer [p] writes to *)
  Definition put (s : state) (p : nat) (c : list A) : state :=
    if atomic then set_temp s p (Some c) else set_final s (Some c).

  Definition step (s : state) (p k : nat) : option state :=
    match nth_error (procs s) p with
    | None => None
    | Some Start =>
        Some (set_pc s p (match final s with Some _ => Reading | None => Computing end))
    | Some Reading =>
        match final s with
        | None => Some (set_pc s p Computing)               (* OSError: file vanished *)
        | Some c => match validate c with
                    | Some t => Some (set_pc s p (Done t))
                    | None => Some (set_pc s p Computing)   (* "Ignoring incomplete or invalid" *)
                    end
        end
    | Some Computing => Some (set_pc (put s p []) p (Writing 0))     (* mkstemp / open(.., "w") *)
    | Some (Writing j) =>
        if Nat.ltb j (length ser) then
          let j' := Nat.min (j + Nat.max k 1) (length ser) in
          Some (set_pc (put s p (firstn j' ser)) p (Writing j'))
        else Some (set_pc s p Closed)
    | Some Closed =>
        if atomic then
          Some (set_pc (set_temp (set_final s (nth p (temps s) None)) p None) p (Done fresh))
        else Some (set_pc s p (Done fresh))
    | Some (Done _) => None
    | Some Dead => None
    end.

  Definition alive (c : pc) : bool :=
    match c with Done _ => false | Dead => false | _ => true end.

  Definition exec (s : state) (a : action) : option state :=
    match a with
    | Spawn => Some (mkState (final s) (temps s ++ [None]) (procs s ++ [Start]))
    | Step p k => step s p k
    | Kill p =>
        match nth_error (procs s) p with
        | Some c => if alive c then Some (set_pc s p Dead) else None
        | None => None
        end
    | Raise p =>
        match nth_error (procs s) p with
        | Some c => if alive c
                    then Some (set_pc (if atomic then set_temp s p None else s) p Dead)
                    else None
        | None => None
        end
    | Clear => Some (set_final s None)
    end.

  Fixpoint run (s : state) (tr : list action) : option state :=
    match tr with
    | [] => Some s
    | a :: r => match exec s a with None => None | Some s' => run s' r end
    end.

  (** the file system before the first process: the cached name is absent or holds [g0] *)
  Definition init (g0 : option (list A)) : state := mkState g0 [] [].
End Cache.

Arguments Start {Tbl}.
Arguments Reading {Tbl}.
Arguments Computing {Tbl}.
Arguments Writing {Tbl} k.
Arguments Closed {Tbl}.
Arguments Done {Tbl} r.
Arguments Dead {Tbl}.
Arguments final {A Tbl} s.
Arguments temps {A Tbl} s.
Arguments procs {A Tbl} s.

(** ** the instance evaluated against the implementation: bytes are anonymous ([unit]), so a
    content is identified by its length (every content that occurs is a prefix of [ser]);
    a content is valid iff it has the full length; tables are [nat]s ([fresh = 0]).
    Observation of a state: size of the final file (if any) and whether it is complete, sizes
    of the temp files, and the program counters. *)
Definition cser (len : nat) : list unit := repeat tt len.
Definition cvalidate (len : nat) (c : list unit) : option nat :=
  if Nat.eqb (length c) len then Some 0 else None.

Definition pc_code (c : pc nat) : nat :=
  match c with
  | Start => 0 | Reading => 1 | Computing => 2 | Writing _ => 3 | Closed => 4
  | Done r => 5 + r | Dead => 99
  end.

Definition observe (len : nat) (s : state unit nat)
  : option (nat * bool) * list (option nat) * list nat :=
  (match final s with
   | None => None
   | Some c => Some (length c, Nat.eqb (length c) len)
   end,
   map (fun t => match t with None => None | Some c => Some (length c) end) (temps s),
   map pc_code (procs s)).

(** initial content: [None] = no file, [Some k] = the first [k] bytes of the serialisation *)
Definition crun (len : nat) (g0 : option nat) (tr : list (action))
  : option (option (nat * bool) * list (option nat) * list nat) :=
  match run unit nat 0 (cser len) (cvalidate len) true
            (init unit nat (match g0 with None => None | Some k => Some (firstn k (cser len)) end)) tr with
  | None => None
  | Some s => Some (observe len s)
  end.

(** the same with primitive 63-bit integers at the interface (their literals are parsed
    natively; unary or binary number notations are slow to elaborate by the thousand):
    actions are [(code, p, k)] with code 0 = Spawn, 1 = Step p k, 2 = Kill p, 3 = Raise p,
    anything else = Clear *)
Definition i2n (i : int) : nat := Z.to_nat (Uint63.to_Z i).
Definition n2i (n : nat) : int := Uint63.of_Z (Z.of_nat n).

Definition actI (a : int * int * int) : action :=
  let '(c, p, k) := a in
  match i2n c with
  | 0 => Spawn
  | 1 => Step (i2n p) (i2n k)
  | 2 => Kill (i2n p)
  | 3 => Raise (i2n p)
  | _ => Clear
  end.

Definition crunI (len : int) (g0 : option int) (tr : list (int * int * int))
  : option (option (int * bool) * list (option int) * list int) :=
  match crun (i2n len) (option_map i2n g0) (map actI tr) with
  | None => None
  | Some (f, ts, ps) =>
      Some (option_map (fun x : nat * bool => (n2i (fst x), snd x)) f,
            map (option_map n2i) ts, map n2i ps)
  end.
