(** * ApproxBase: the vocabulary the translator (tools/translate.py) generates code against.

    The generated files coq/gen/HypergeoGen.v and coq/gen/ApproxGen.v are polymorphic in
    [lib/Num.v]'s record [Num] and in the record [Fns] below (elementary / special
    functions and the recognisers numpy offers), so that the same text is
    - proved about over [R]   (instance [RF]; [lgamma] and Euler's constant are parameters,
                               [isfinite] is constantly true: [R] has no infinities or NaN);
    - evaluated on binary64   (instance [FF tb]; [sqrt] is the primitive one, the
                               transcendental functions are looked up in a table [tb] of
                               (function id, argument, value) triples RECORDED from the run of
                               the Python implementation on the same input).
    No proofs in this file. *)
From Coq Require Import ZArith List Reals PrimFloat Uint63.
From TsdateV Require Import lib.Num.
Import ListNotations.

(** ** Results of translated functions.
    A Python function that can fail is given one of three result types, decided by the
    translator from the function's text:
    - [exc A]        : an [assert] may fail or an exception may be raised;
    - [nanv A]       : it may [return nan, nan, ...] (a tuple whose first component is the
                       literal NaN: "skip this update");
    - [exc (nanv A)] : both. *)
Inductive err := EAssert | EKLFail | EFuel.
Inductive exc (A : Type) := Ok (a : A) | Err (e : err).
Inductive nanv (A : Type) := Val (a : A) | Nan.
Arguments Ok {A} a. Arguments Err {A} e. Arguments Val {A} a. Arguments Nan {A}.

(** fuel of the translated recursions (named constants, so that comparing two copies of the
    generated text never starts unrolling them):
    - [fuel_rec]  : depth of the self-recursion of [_digamma] / [_trigamma] (at most ten calls
                    for any finite argument: one reflection, then steps of one up to 8.5);
    - [fuel_loop] : iterations of a translated [while] loop; the loops of approx.py raise at
                    [itt > 100], i.e. they never run more than 102 times. *)
Definition fuel_rec : nat := 24.
Definition fuel_loop : nat := 103.

(** ** Functions and constants the generated code may call *)
Record Fns (N : Num) := mkFns {
  f_exp    : T N -> T N;
  f_log    : T N -> T N;
  f_sqrt   : T N -> T N;
  f_lgamma : T N -> T N;
  f_tan    : T N -> T N;
  f_sin    : T N -> T N;
  f_log1p  : T N -> T N;             (* math.log1p / np.log1p *)
  f_expm1  : T N -> T N;             (* math.expm1 / np.expm1 *)
  f_pi     : T N;
  f_euler_gamma : T N;
  f_isfinite : T N -> bool;          (* np.isfinite *)
  f_isinf    : T N -> bool;          (* np.isinf *)
  (** decimal literal [num / den] ([den] a power of ten, written out by the translator) and
      the binary64 value Python parsed it to *)
  f_lit    : Z -> Z -> float -> T N
}.

Section Helpers.
  Variable N : Num.
  Notation T := (T N).

  Definition gtb (a b : T) : bool := ltb N b a.
  Definition geb (a b : T) : bool := leb N b a.
  Definition neqb (a b : T) : bool := negb (eqb N a b).

  (** [x ** k] for a literal integer [k >= 1]: repeated multiplication (what numba emits) *)
  Fixpoint pw (x : T) (k : nat) : T :=
    match k with
    | O => one N
    | S O => x
    | S k' => mul N x (pw x k')
    end.

  Definition absN (x : T) : T := if ltb N x (zero N) then neg N x else x.

  (** Python's [min(a, b)]: [b if b < a else a] *)
  Definition minN (a b : T) : T := if ltb N b a then b else a.

  (** [np.isclose(a, b)] with the default [rtol=1e-05, atol=1e-08], finite arguments *)
  Definition isclose (F : Fns N) (a b : T) : bool :=
    leb N (absN (sub N a b))
          (add N (f_lit N F 1 100000000 0x1.5798ee2308c3ap-27%float)
                 (mul N (f_lit N F 1 100000 0x1.4f8b588e368f1p-17%float) (absN b))).
End Helpers.

(** ** The functions of tsdate/hypergeo.py as seen from tsdate/approx.py.
    approx.py calls them through the module (`hypergeo._hyp2f1_laplace`); the regenerated text of
    approx.py takes this record as a parameter, so the theorems about approx.py hold for ANY
    Laplace approximants, and the record is instantiated by [HypergeoGen.hypfns] (the regenerated
    text of hypergeo.py) for evaluation.  The result types are the ones the translator infers
    from hypergeo.py today; if they change (say a `return nan` is added), the generated
    definition of [hypfns] no longer type-checks and the tie is reported broken. *)
Record HypFns (N : Num) := mkHypFns {
  h_digamma : T N -> exc (T N);
  h_trigamma : T N -> exc (T N);
  h_betaln : T N -> T N -> T N;
  h_hyperu_laplace : T N -> T N -> T N -> exc (T N * T N);
  h_hyp1f1_laplace : T N -> T N -> T N -> exc (T N);
  h_hyp2f1_laplace : T N -> T N -> T N -> T N -> exc (T N)
}.

(** ** Functions of tsdate/hypergeo.py that are NOT translated (scipy's gammaincinv binding; the
    AS 239 series / continued fraction for d/da of the regularised incomplete gamma) but are called
    from translated code (approx.approximate_gamma_iqr).  Arbitrary functions in the theorems;
    recorded values in the binary64 instance. *)
Record ExtFns (N : Num) := mkExtFns {
  e_gammainc_inv : T N -> T N -> T N;
  e_gammainc_der : T N -> T N -> exc (T N)
}.

(** ** Reals *)
Definition RF (lgam : R -> R) (egamma : R) : Fns RNum :=
  mkFns RNum Rtrigo_def.exp Rpower.ln R_sqrt.sqrt lgam Rtrigo1.tan Rtrigo_def.sin
        (fun x => Rpower.ln (1 + x)%R) (fun x => (Rtrigo_def.exp x - 1)%R) Rtrigo1.PI egamma
        (fun _ => true) (fun _ => false)
        (fun n d _ => (IZR n / IZR d)%R).

(** ** binary64 with recorded special-function values *)
Definition fabs (x : float) : float := PrimFloat.abs x.
Definition f_is_nan (x : float) : bool := negb (PrimFloat.eqb x x).
Definition f_finite (x : float) : bool := PrimFloat.eqb (PrimFloat.sub x x) PrimFloat.zero.

(** nearest recorded argument for function [id]; the recorded value is accepted when the
    argument agrees to 1e-9 relative (the model reproduces the operation order of the
    code, but Python's [x**k] is libm [pow], which may differ from [x*x] in the last bit) *)
Fixpoint nearest (id : Z) (x : float) (tb : list (Z * float * float))
                 (best : option (float * float)) : option (float * float) :=
  match tb with
  | [] => best
  | (i, k, v) :: r =>
      if Z.eqb i id then
        let d := if PrimFloat.eqb k x then PrimFloat.zero else fabs (PrimFloat.sub k x) in
        match best with
        | None => if f_is_nan d then nearest id x r best else nearest id x r (Some (d, v))
        | Some (d0, _) => if PrimFloat.ltb d d0 then nearest id x r (Some (d, v)) else nearest id x r best
        end
      else nearest id x r best
  end.

Definition lookup (tb : list (Z * float * float)) (id : Z) (x : float) : float :=
  if f_is_nan x then nan else
  match nearest id x tb None with
  | Some (d, v) =>
      if PrimFloat.leb d (PrimFloat.add (PrimFloat.mul 0x1.12e0be826d695p-30%float (fabs x)) 0x1p-1000%float)
      then v else nan
  | None => nan
  end.

Definition FF (tb : list (Z * float * float)) : Fns FNum :=
  mkFns FNum (lookup tb 0) (lookup tb 1) PrimFloat.sqrt (lookup tb 2) (lookup tb 3) (lookup tb 4)
        (lookup tb 8) (lookup tb 9)
        0x1.921fb54442d18p+1%float 0x1.2788cfc6fb619p-1%float
        f_finite
        (fun x => andb (negb (f_is_nan x)) (negb (f_finite x)))
        (fun _ _ h => h).

(** ** printing of results for the harness (the output parser reads [Some]/[None]/[inl]/[inr]) *)
Definition show_n {A : Type} (r : nanv A) : option A := match r with Val a => Some a | Nan => None end.
Definition show_e {A : Type} (r : exc A) : A + err := match r with Ok a => inl a | Err e => inr e end.
Definition show_en {A : Type} (r : exc (nanv A)) : option A + err :=
  match r with Ok (Val a) => inl (Some a) | Ok Nan => inl None | Err e => inr e end.

(** binary64 instance of [ExtFns]: two-argument lookups in a table of recorded calls
    (id 5: gammainc_inv, 6: gammainc_der returned, 7: gammainc_der raised AssertionError); arguments are
    matched to 1e-9 relative, as for the one-argument functions *)
Definition frel (u v : float) : float :=
  if orb (PrimFloat.eqb u v) (andb (f_is_nan u) (f_is_nan v)) then PrimFloat.zero
  else PrimFloat.div (fabs (PrimFloat.sub u v)) (fabs v).
(** the recorded call nearest to (a, x) (the Newton iterates of the quantile fit converge, so several
    recorded arguments can be within 1e-9 of each other: the nearest one is the right one) *)
Fixpoint nearest2 (tb : list (Z * float * float * float)) (id : Z) (a x : float)
                  (best : option (float * float)) : option (float * float) :=
  match tb with
  | [] => best
  | (i, a0, x0, v) :: r =>
      if Z.eqb i id then
        let d := PrimFloat.add (frel a0 a) (frel x0 x) in
        match best with
        | None => if f_is_nan d then nearest2 r id a x best else nearest2 r id a x (Some (d, v))
        | Some (d0, _) => if PrimFloat.ltb d d0 then nearest2 r id a x (Some (d, v)) else nearest2 r id a x best
        end
      else nearest2 r id a x best
  end.
Definition lookup2 (tb : list (Z * float * float * float)) (id : Z) (a x : float) : option float :=
  match nearest2 tb id a x None with
  | Some (d, v) => if PrimFloat.leb d 0x1.12e0be826d695p-30%float then Some v else None
  | None => None
  end.
Definition EF (tb : list (Z * float * float * float)) : ExtFns FNum :=
  mkExtFns FNum
    (fun a x => match lookup2 tb 5 a x with Some v => v | None => nan end)
    (fun a x => match lookup2 tb 7 a x with
                | Some _ => Err EAssert
                | None => match lookup2 tb 6 a x with Some v => Ok v | None => Ok nan end
                end).
