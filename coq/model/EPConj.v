(** * The conjugate projection: [approx.rootward_projection] for a child fixed at time zero
    (approx.py:300-322 [rootward_moments], branch [t_j == 0.0]; approx.py:756-775; and
    [approximate_gamma_mom], approx.py:131-140), as a projection oracle for model.EP.
    <<
    a_i, b_i = pars_i; y_ij, mu_ij = pars_ij; a_i += 1
    s = a_i + y_ij; r = mu_ij + b_i
    if not _valid_gamma(s, r): return nan, nan, nan          -> wrapper returns pars_i unchanged
    mn_i = s / r; va_i = s / r**2
    if not _valid_moments(mn_i, va_i): return np.nan, pars_i
    shape = mean**2 / variance; rate = mean / variance; return shape - 1.0, rate
    >>
    The finiteness tests of [_valid_gamma]/[_valid_moments] are not modelled (the reals and
    rationals have no infinities; the float correspondence runs on finite inputs).
    No proofs in this file. *)
From Coq Require Import List Arith Bool.
Import ListNotations.
From TsdateV Require Import lib.Num model.EP.

Section Conj.
  Variable N : Num.
  Definition pos2 (a b : T N) : bool := ltb N (zero N) a && ltb N (zero N) b.
  Definition conj_rootward (cav lik : V2 N) : V2 N :=
    let a := add N (fst cav) (one N) in
    let s := add N a (fst lik) in
    let r := add N (snd lik) (snd cav) in
    if pos2 s r then
      let mn := div N s r in
      let va := div N s (mul N r r) in
      if pos2 mn va then (sub N (div N (mul N mn mn) va) (one N), div N mn va) else cav
    else cav.
  (** only the call made for a free parent above a child fixed at age 0 is answered *)
  Definition conj_project (o : unit) (c : call N) : option (V2 N * V2 N * unit) :=
    let '(kd, unph, age, pcav, ccav, el) := c in
    if Nat.eqb kd 1 && negb unph && eqb N age (zero N)
    then Some (conj_rootward pcav el, vzero, tt) else None.
End Conj.

(** list front-end used by the correspondence harness: [k] iterations of [iterate] from the
    initial state, no blocks, no root regularisation, the edge order of [__init__];
    result: [node_posterior] rows, or [None] when an assertion fires *)
Definition run_conj (N : Num) (tiny infty : T N) (edges : list (nat * nat))
    (constraints : list (T N * T N)) (elik : list (V2 N)) (maxshape minstep : T N) (k : nat)
  : option (list (V2 N)) :=
  let nE := length edges in
  let nN := length constraints in
  let ep := nthf 0%nat (map fst edges) in
  let ec := nthf 0%nat (map snd edges) in
  match iterate_n N tiny infty nE ep ec 0 (fun _ => 0%nat) (fun _ => 0%nat) nN
          (nthf (zero N) (map fst constraints)) (nthf (zero N) (map snd constraints))
          unit (conj_project N) [] (mk_edge_order nE []) (fun _ => vzero) (nthf vzero elik)
          (fun _ => false) maxshape minstep 10 (zero N) false k (init, tt) with
  | Some (st, _) => Some (map (post st) (seq 0 nN))
  | None => None
  end.
