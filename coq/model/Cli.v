(** * Model of the command-line front end  tsdate/cli.py  (property C34)

    Two parts:
    - the *data* ([cli_spec]): the option tables of the two sub-parsers and the mappings
      of [run_date] / [run_preprocess]; the instance [gen.CliGen.cli] is regenerated from
      the source on every run by tools/translate_cli.py;
    - the *semantics*, written here: the subset of argparse that the tables use
      (options with one argument, [store_true], [count], [version], positionals with an
      optional last one, [choices], type converters, defaults, last occurrence wins) and
      the control flow of [tsdate_main] / [run_date] / [run_preprocess].

    Outside the model (the harness never generates them): abbreviated long options
    ([--mut]), [--opt=value] and [-m0.1] spellings, clustered short flags ([-vv]),
    positionals that are not contiguous, the validity of numeric literals ([float(s)] /
    [int(s)] are kept symbolic: [VFloatOf s] / [VIntOf s]), [-h], reading the input
    file.  No proofs in this file. *)
From Coq Require Import List String Ascii Bool Arith.
Import ListNotations.
Open Scope string_scope.

(** ** Data *)
Inductive action := AStore | AStoreTrue | ACount | AVersion.
(** [type=]: str (default), float, int, the builtin bool, cli._str_to_bool *)
Inductive conv := CStr | CFloat | CInt | CPyBool | CStrToBool.
Inductive nargs := NOne | NOptional.
(** [default=]: None, a bool, an int literal, a float literal (text), a string *)
Inductive dflt := DNone | DBool (b : bool) | DInt (s : string) | DFloat (s : string) | DStr (s : string).

Record opt := mkOpt {
  o_flags : list string;          (* ["-m"; "--mutation-rate"], or the name of a positional *)
  o_dest : string;
  o_positional : bool;
  o_action : action;
  o_conv : conv;
  o_nargs : nargs;
  o_default : dflt;
  o_choices : option (list string)
}.

Record cli_spec := mkCli {
  c_true : list string;                        (* spellings _str_to_bool maps to True *)
  c_false : list string;                       (* ... to False *)
  c_date_options : list opt;
  c_preprocess_options : list opt;
  c_deprecated : string;                       (* dest whose presence makes run_date exit *)
  c_branch_method : string;                    (* run_date: if args.method == <this> *)
  c_then_forbidden : list string;              (* dests that must be None in that branch *)
  c_then_params : list (string * string);      (* API keyword, args attribute *)
  c_else_forbidden : list string;
  c_else_params : list (string * string);
  c_direct : list (string * string);           (* keywords written in the tsdate.date(...) call itself *)
  c_preprocess_params : list (string * string)
}.

(** ** Values held by the argparse namespace / passed to the API *)
Inductive value :=
| VNone
| VBool (b : bool)
| VCount (n : nat)
| VStr (s : string)
| VFloatOf (s : string)      (* the Python float  float(s)  *)
| VIntOf (s : string).       (* the Python int    int(s)    *)

Definition is_none (v : value) : bool := match v with VNone => true | _ => false end.

(** ** Strings *)
Definition lower_ascii (a : ascii) : ascii :=
  let n := nat_of_ascii a in
  if ((65 <=? n) && (n <=? 90))%nat then ascii_of_nat (n + 32)%nat else a.
Fixpoint lower (s : string) : string :=
  match s with EmptyString => EmptyString | String a r => String (lower_ascii a) (lower r) end.
Definition mem (s : string) (l : list string) : bool := existsb (String.eqb s) l.

Definition is_digit_or_dot (a : ascii) : bool :=
  let n := nat_of_ascii a in (((48 <=? n) && (n <=? 57)) || (n =? 46))%nat.
Fixpoint all_chars (p : ascii -> bool) (s : string) : bool :=
  match s with EmptyString => true | String a r => p a && all_chars p r end.
(** argparse treats "-1", "-0.5" as arguments when no option looks like a negative number *)
Definition negative_number (s : string) : bool :=
  match s with
  | String "-"%char (String a r) => all_chars is_digit_or_dot (String a r)
  | _ => false
  end.
Definition option_like (s : string) : bool :=
  match s with
  | String "-"%char (String _ _) => negb (negative_number s)
  | _ => false
  end.

(** ** Type conversion *)
Definition convert (c : cli_spec) (k : conv) (s : string) : option value :=
  match k with
  | CStr => Some (VStr s)
  | CFloat => Some (VFloatOf s)
  | CInt => Some (VIntOf s)
  | CPyBool => Some (VBool (negb (String.eqb s "")))      (* bool("False") is True *)
  | CStrToBool =>
      if mem (lower s) (c_true c) then Some (VBool true)
      else if mem (lower s) (c_false c) then Some (VBool false)
      else None                                            (* ArgumentTypeError *)
  end.

(** defaults: argparse converts string defaults only *)
Definition default_value (c : cli_spec) (o : opt) : option value :=
  match o_action o with
  | ACount => Some (VCount 0)
  | _ =>
    match o_default o with
    | DNone => Some VNone
    | DBool b => Some (VBool b)
    | DInt s => Some (VIntOf s)
    | DFloat s => Some (VFloatOf s)
    | DStr s => convert c (o_conv o) s
    end
  end.

(** ** The namespace *)
Definition ns := list (string * value).
Fixpoint get (n : ns) (d : string) : option value :=
  match n with
  | [] => None
  | (k, v) :: r => if String.eqb k d then Some v else get r d
  end.
(** later assignments shadow earlier ones: last occurrence wins *)
Definition set (n : ns) (d : string) (v : value) : ns := (d, v) :: n.
Definition getv (n : ns) (d : string) : value := match get n d with Some v => v | None => VNone end.

Fixpoint find_flag (opts : list opt) (tok : string) : option opt :=
  match opts with
  | [] => None
  | o :: r => if negb (o_positional o) && mem tok (o_flags o) then Some o else find_flag r tok
  end.

Inductive parsed := PError | PExit0 | POk (n : ns) (positionals : list string).

(** the optional arguments; positionals are collected in order *)
Fixpoint parse_loop (c : cli_spec) (opts : list opt) (argv : list string) (pos : list string) (n : ns)
  : parsed :=
  match argv with
  | [] => POk n (rev pos)
  | tok :: rest =>
      match find_flag opts tok with
      | Some o =>
          match o_action o with
          | AStoreTrue => parse_loop c opts rest pos (set n (o_dest o) (VBool true))
          | ACount =>
              let k := match get n (o_dest o) with Some (VCount k) => k | _ => 0 end in
              parse_loop c opts rest pos (set n (o_dest o) (VCount (S k)))
          | AVersion => PExit0
          | AStore =>
              match rest with
              | [] => PError                                   (* expected one argument *)
              | v :: rest' =>
                  if option_like v then PError
                  else match o_choices o, convert c (o_conv o) v with
                       | _, None => PError                     (* invalid value *)
                       | Some ch, Some _ =>
                           if mem v ch then parse_loop c opts rest' pos (set n (o_dest o) (VStr v))
                           else PError                         (* invalid choice *)
                       | None, Some x => parse_loop c opts rest' pos (set n (o_dest o) x)
                       end
              end
          end
      | None =>
          if option_like tok then PError                       (* unrecognized arguments *)
          else parse_loop c opts rest (tok :: pos) n
      end
  end.

(** assign the collected positionals to the positional options, in table order *)
Fixpoint assign_positionals (c : cli_spec) (opts : list opt) (pos : list string) (n : ns) : option ns :=
  match opts with
  | [] => match pos with [] => Some n | _ => None end          (* unrecognized arguments *)
  | o :: r =>
      if o_positional o then
        match pos with
        | p :: pos' =>
            match convert c (o_conv o) p with
            | Some v => assign_positionals c r pos' (set n (o_dest o) v)
            | None => None
            end
        | [] =>
            match o_nargs o with
            | NOptional => match default_value c o with
                           | Some v => assign_positionals c r [] (set n (o_dest o) v)
                           | None => None
                           end
            | NOne => None                                       (* the following arguments are required *)
            end
        end
      else assign_positionals c r pos n
  end.

(** defaults for every option the command line did not set *)
Fixpoint fill_defaults (c : cli_spec) (opts : list opt) (n : ns) : option ns :=
  match opts with
  | [] => Some n
  | o :: r =>
      match o_action o with
      | AVersion => fill_defaults c r n
      | _ =>
        if o_positional o then fill_defaults c r n
        else match get n (o_dest o) with
             | Some _ => fill_defaults c r n
             | None => match default_value c o with
                       | Some v => fill_defaults c r (set n (o_dest o) v)
                       | None => None
                       end
             end
      end
  end.

Definition parse_args (c : cli_spec) (opts : list opt) (argv : list string) : parsed :=
  match parse_loop c opts argv [] [] with
  | POk n pos =>
      match assign_positionals c opts pos n with
      | Some n1 => match fill_defaults c opts n1 with
                   | Some n2 => POk n2 []
                   | None => PError
                   end
      | None => PError
      end
  | r => r
  end.

(** ** run_date / run_preprocess / tsdate_main *)
Inductive outcome :=
| ExitError                                       (* non-zero exit status, no output written *)
| ExitOk                                          (* --version *)
| Call (api : string) (infile outfile : value) (kwargs : list (string * value)).

Definition bind (n : ns) (ps : list (string * string)) : list (string * value) :=
  map (fun kd => (fst kd, getv n (snd kd))) ps.

Definition any_given (n : ns) (ds : list string) : bool :=
  existsb (fun d => negb (is_none (getv n d))) ds.

(** cli.py:280-330 (reading the input file is not modelled) *)
Definition run_date (c : cli_spec) (n : ns) : outcome :=
  if negb (is_none (getv n (c_deprecated c))) then ExitError
  else
    let then_branch := match getv n "method" with
                       | VStr m => String.eqb m (c_branch_method c)
                       | _ => false
                       end in
    let forbidden := if then_branch then c_then_forbidden c else c_else_forbidden c in
    let params := if then_branch then c_then_params c else c_else_params c in
    if any_given n forbidden then ExitError
    else Call "date" (getv n "tree_sequence") (getv n "output") (bind n (c_direct c) ++ bind n params).

(** cli.py:333-344 *)
Definition run_preprocess (c : cli_spec) (n : ns) : outcome :=
  Call "preprocess_ts" (getv n "tree_sequence") (getv n "output") (bind n (c_preprocess_params c)).

(** cli.py:347-351 with the top-level parser: a required sub-command, [-V/--version] *)
Definition cli_main (c : cli_spec) (argv : list string) : outcome :=
  match argv with
  | "date" :: rest =>
      match parse_args c (c_date_options c) rest with
      | POk n _ => run_date c n
      | PExit0 => ExitOk
      | PError => ExitError
      end
  | "preprocess" :: rest =>
      match parse_args c (c_preprocess_options c) rest with
      | POk n _ => run_preprocess c n
      | PExit0 => ExitOk
      | PError => ExitError
      end
  | "-V" :: _ | "--version" :: _ => ExitOk
  | _ => ExitError
  end.
