(** * Glue: the code of tsdate/core.py that turns a result into an output tree sequence.

    - Section [Meta]      : [EstimationMethod.set_time_metadata]      (core.py:257-294)
    - Section [Prov]      : provenance recording                      (provenance.py, core.py:128-137, 250-254, util.py:205-217)
    - Section [Modified]  : [EstimationMethod.get_modified_ts]        (core.py:200-255)
    - Section [Discrete]  : [NodeTimeValues.standardize / to_probabilities], [DiscreteTimeMethod.mean_var]
    - Section [Runs]      : which arrays each method's [run()] hands to metadata and to the fit object

    No proofs in this file.  Everything that belongs to tskit (the metadata codecs,
    [compute_mutation_parents], [compute_mutation_times], table validation) is a
    [Section] variable; the control flow of tsdate is spelled out. *)
From Coq Require Import String List Bool Arith ZArith.
Import ListNotations.
Open Scope string_scope.

(* ------------------------------------------------------------------------- *)
(** ** Metadata rows, tables and the codec interface *)

Section Meta.
  (** numbers written into "mn" / "vr" *)
  Variable T : Type.
  (** any other (JSON / struct) value found in existing metadata *)
  Variable other : Type.

  Inductive value := VNum (x : T) | VOther (o : other).

  (** a decoded metadata row: a Python dict, insertion-ordered *)
  Definition row := list (string * value).

  (** [d[k] = v] : replaces in place when the key exists, appends otherwise *)
  Fixpoint set_field (k : string) (v : value) (r : row) : row :=
    match r with
    | [] => [(k, v)]
    | (k', v') :: r' =>
        if String.eqb k' k then (k, v) :: r' else (k', v') :: set_field k v r'
    end.

  Fixpoint get_field (k : string) (r : row) : option value :=
    match r with
    | [] => None
    | (k', v') :: r' => if String.eqb k' k then Some v' else get_field k r'
    end.

  (** [metadata_dict.update((("mn", mn), ("vr", vr)))]   (core.py:271) *)
  Definition add_times (r : row) (mn vr : T) : row :=
    set_field "vr" (VNum vr) (set_field "mn" (VNum mn) r).

  (** a schema is whatever tskit says it is; bytes are lists over any alphabet (only
      emptiness is observed by tsdate) *)
  Variable schema : Type.
  Variable byte : Type.
  Definition bytes := list byte.
  Definition bempty (b : bytes) : bool := match b with [] => true | _ => false end.

  (** [row.metadata] under the table's schema (tskit).  [DecCrash]: anything that is not
      a dict comes back or a non-metadata exception is raised (JSONDecodeError,
      UnicodeDecodeError, struct.error; a JSON list / null / scalar then fails at
      [.update] with AttributeError) -- nothing in [set_time_metadata] catches these. *)
  Inductive dec := DecRow (r : row) | DecCrash.
  Variable decode : schema -> bytes -> dec.

  (** [schema.validate_and_encode_row(dict)] (tskit).  [EncErr]: MetadataValidationError
      or MetadataEncodingError (caught by tsdate); [EncCrash]: any other exception
      (struct.error for an integer binaryFormat, OverflowError for 'f') *)
  Inductive enc := EncOk (b : bytes) | EncErr | EncCrash.
  Variable encode : schema -> row -> enc.

  (** the metadata side of a node / mutation table: schema ([None] = no schema set)
      and one byte string per row *)
  Record mtable := mkMT { mschema : option schema; mrows : list bytes }.

  (** [len(table.metadata) > 0] *)
  Definition has_bytes (t : mtable) : bool := existsb (fun b => negb (bempty b)) (mrows t).

  (** [table.drop_metadata()] : every row empty, schema cleared *)
  Definition drop_metadata (t : mtable) : mtable :=
    mkMT None (map (fun _ => []) (mrows t)).

  Inductive exn := ExAssert | ExDecode | ExEncode | ExEncodeDefault.
  Inductive event := Warn | InfoClear | InfoSetSchema.

  (** result of [_time_md_array] (core.py:259-273) *)
  Inductive mdres := MdOk (bs : list bytes) | MdErr | MdCrash (e : exn).

  (** the generator/zip loop: row i is decoded, updated and encoded before row i+1 is
      looked at, so the FIRST offending row decides which exception is seen *)
  Fixpoint md_loop (s : schema) (decoding : bool) (rows : list bytes) (mean var : list T) : mdres :=
    match rows, mean, var with
    | b :: rows', m :: mean', v :: var' =>
        match (if decoding then decode s b else DecRow []) with
        | DecCrash => MdCrash ExDecode
        | DecRow r =>
            match encode s (add_times r m v) with
            | EncErr => MdErr
            | EncCrash => MdCrash ExEncode
            | EncOk out =>
                match md_loop s decoding rows' mean' var' with
                | MdOk l => MdOk (out :: l)
                | e => e
                end
            end
        end
    | _, _, _ => MdOk []
    end.

  Definition time_md_array (t : mtable) (mean var : list T) : mdres :=
    match mschema t with
    | None => MdErr                                   (* "No schema set" *)
    | Some s => md_loop s (has_bytes t) (mrows t) mean var
    end.

  Inductive outcome := Done (t : mtable) (log : list event) | Raised (e : exn).

  Definition is_true (sm : option bool) : bool :=
    match sm with Some true => true | _ => false end.

  (** [set_time_metadata(table, mean, var, default_schema)] with
      [sm = self.set_metadata] ([None], [Some true], [Some false]) and
      [var = None] for the maximization method   (core.py:275-294) *)
  Definition set_time_metadata (sm : option bool) (t : mtable) (mean : list T)
      (var : option (list T)) (default : schema) : outcome :=
    match sm, var with
    | Some false, _ => Done t []
    | _, None => Done t []
    | _, Some var =>
        if negb (Nat.eqb (List.length mean) (List.length var) && Nat.eqb (List.length var) (List.length (mrows t)))
        then Raised ExAssert
        else
          match time_md_array t mean var with
          | MdOk bs => Done (mkMT (mschema t) bs) []
          | MdCrash e => Raised e
          | MdErr =>
              let guarded := has_bytes t || match mschema t with Some _ => true | None => false end in
              if guarded && negb (is_true sm) then Done t [Warn]
              else
                let t1 := if guarded then drop_metadata t else t in
                let log1 := if guarded then [InfoClear] else [] in
                let t2 := mkMT (Some default) (mrows t1) in
                match time_md_array t2 mean var with
                | MdOk bs => Done (mkMT (Some default) bs) (log1 ++ [InfoSetSchema])
                | MdErr => Raised ExEncodeDefault
                | MdCrash ExEncode => Raised ExEncodeDefault
                | MdCrash e => Raised e
                end
          end
    end.
End Meta.

Arguments VNum {T other} x.
Arguments VOther {T other} o.
Arguments DecRow {T other} r.
Arguments DecCrash {T other}.
Arguments EncOk {byte} b.
Arguments EncErr {byte}.
Arguments EncCrash {byte}.
Arguments mkMT {schema byte} mschema mrows.
Arguments mschema {schema byte} m.
Arguments mrows {schema byte} m.
Arguments Done {schema byte} t log.
Arguments Raised {schema byte} e.
Arguments MdOk {byte} bs.
Arguments MdErr {byte}.
Arguments MdCrash {byte} e.

(* ------------------------------------------------------------------------- *)
(** ** Tabulated codec: the instance used by the correspondence harness.

    tskit's codec is external to tsdate.  For each generated case the harness asks tskit
    itself for [decode] / [encode] on the finitely many (schema, bytes) / (schema, dict)
    pairs that can occur and hands them over as association lists; the model's control
    flow then runs inside Coq on exactly these answers.  A query that is not in the
    table returns a sentinel ([-1]) that can never match the implementation's output.
    Byte strings are interned: [[]] is the empty string, [[k]] the k-th distinct string. *)
From Coq Require Import PrimFloat SpecFloat FloatOps.

Definition sf_eqb (a b : spec_float) : bool :=
  match a, b with
  | S754_zero s1, S754_zero s2 => Bool.eqb s1 s2
  | S754_infinity s1, S754_infinity s2 => Bool.eqb s1 s2
  | S754_nan, S754_nan => true
  | S754_finite s1 m1 e1, S754_finite s2 m2 e2 => Bool.eqb s1 s2 && Pos.eqb m1 m2 && Z.eqb e1 e2
  | _, _ => false
  end.
(** same double (NaN = NaN, -0 <> +0) *)
Definition feqb (x y : float) : bool := sf_eqb (Prim2SF x) (Prim2SF y).

Fixpoint list_eqb {A} (eqb : A -> A -> bool) (a b : list A) : bool :=
  match a, b with
  | [], [] => true
  | x :: a', y :: b' => eqb x y && list_eqb eqb a' b'
  | _, _ => false
  end.

Definition fvalue := value float Z.
Definition frow := row float Z.
Definition value_eqb (a b : fvalue) : bool :=
  match a, b with
  | VNum x, VNum y => feqb x y
  | VOther x, VOther y => Z.eqb x y
  | _, _ => false
  end.
Definition row_eqb (a b : frow) : bool :=
  list_eqb (fun p q : string * fvalue => String.eqb (fst p) (fst q) && value_eqb (snd p) (snd q)) a b.

Definition dec_tab := list (Z * list Z * dec float Z).
Definition enc_tab := list (Z * frow * @enc Z).

Definition tab_decode (tab : dec_tab) (s : Z) (b : list Z) : dec float Z :=
  match find (fun e => Z.eqb (fst (fst e)) s && list_eqb Z.eqb (snd (fst e)) b) tab with
  | Some e => snd e
  | None => DecRow [("?missing", VOther (-1)%Z)]
  end.
Definition tab_encode (tab : enc_tab) (s : Z) (r : frow) : @enc Z :=
  match find (fun e => Z.eqb (fst (fst e)) s && row_eqb (snd (fst e)) r) tab with
  | Some e => snd e
  | None => EncOk [(-1)%Z]
  end.

Definition zmtable := @mtable Z Z.

(** printable form of an outcome:
    (0, schema id or -1, rows, log codes)   or   (1, exception code, [], []) *)
Definition show_exn (e : exn) : Z :=
  match e with ExAssert => 0 | ExDecode => 1 | ExEncode => 2 | ExEncodeDefault => 3 end%Z.
Definition show_event (e : event) : Z :=
  match e with Warn => 0 | InfoClear => 1 | InfoSetSchema => 2 end%Z.
Definition show_schema (s : option Z) : Z := match s with Some z => z | None => (-1)%Z end.
Definition show_outcome (o : @outcome Z Z) : Z * Z * list (list Z) * list Z :=
  match o with
  | Done t log => (0%Z, show_schema (mschema t), mrows t, map show_event log)
  | Raised e => (1%Z, show_exn e, [], [])
  end.

Definition run_set_meta (dt : dec_tab) (et : enc_tab) (sm : option bool) (t : zmtable)
    (mean : list float) (var : option (list float)) (default : Z) :=
  show_outcome (set_time_metadata float Z Z Z (tab_decode dt) (tab_encode et) sm t mean var default).

(* ------------------------------------------------------------------------- *)
(** ** Provenance   (provenance.py:69-92, core.py:115-137, 250-254, the [run] methods'
       [provenance_params.update(locals())], util.py:125-126, 180-217, 550-551, 595-597) *)

Section Prov.
  (** a parameter value as handed in by the caller *)
  Variable pv : Type.
  Variable pv_string : string -> pv.       (* the command name, a str *)
  (** one row of the provenance table *)
  Variable record : Type.
  (** [json.dumps(get_provenance_dict(...), default=_json_default)] of the final parameter dict
      (which includes "command").  Since the repair of K4 (provenance.py, [_json_default])
      numpy arrays and numpy scalars are written as lists / python numbers; [None] = TypeError
      for a value that is not JSON serialisable even so *)
  Variable dump : list (string * pv) -> option record.

  Definition pdict := list (string * pv).

  Fixpoint pset (k : string) (v : pv) (d : pdict) : pdict :=
    match d with
    | [] => [(k, v)]
    | (k', v') :: d' => if String.eqb k' k then (k, v) :: d' else (k', v') :: pset k v d'
    end.
  Fixpoint pget (k : string) (d : pdict) : option pv :=
    match d with
    | [] => None
    | (k', v') :: d' => if String.eqb k' k then Some v' else pget k d'
    end.
  (** [d.update(u)] *)
  Definition pupdate (d u : pdict) : pdict := fold_left (fun d kv => pset (fst kv) (snd kv) d) u d.

  (** [provenance.record_provenance(tables, command, start_time, **kwargs)]:
      [parameters = dict(kwargs); parameters["command"] = command]; one row appended *)
  Definition record_provenance (prov : list record) (command : string) (kwargs : pdict)
    : option (list record) :=
    match dump (pset "command" (pv_string command) kwargs) with
    | Some r => Some (prov ++ [r])%list
    | None => None
    end.

  Definition recording (rp : option bool) : bool := match rp with None => true | Some b => b end.

  Inductive method := VariationalGamma | InsideOutside | Maximization.
  Definition method_name (m : method) : string :=
    match m with
    | VariationalGamma => "variational_gamma"
    | InsideOutside => "inside_outside"
    | Maximization => "maximization"
    end.

  (** the generic parameters stored by [EstimationMethod.__init__] (core.py:130-137);
      [population_size] is the value after [PopulationSizeHistory.as_dict()] *)
  Record generic := mkGeneric {
    g_mutation_rate : pv; g_recombination_rate : pv; g_time_units : pv; g_progress : pv;
    g_population_size : pv }.
  Definition init_params (g : generic) : pdict :=
    [("mutation_rate", g_mutation_rate g); ("recombination_rate", g_recombination_rate g);
     ("time_units", g_time_units g); ("progress", g_progress g);
     ("population_size", g_population_size g)].

  (** the keyword arguments of [run()], in signature order: what [locals()] holds when
      [provenance_params.update(...)] runs *)
  Definition run_keys (m : method) : list string :=
    match m with
    | VariationalGamma => ["max_iterations"; "max_shape"; "rescaling_intervals"; "rescaling_iterations";
                           "match_segregating_sites"; "regularise_roots"; "singletons_phased"]
    | InsideOutside => ["eps"; "outside_standardize"; "ignore_oldest_root"; "probability_space";
                        "num_threads"; "cache_inside"]
    | Maximization => ["eps"; "probability_space"; "num_threads"; "cache_inside"]
    end.

  (** provenance side of one dating call ([date()] and the named functions behave the
      same: [date] only forwards).  [args] are the values of [run]'s arguments in
      signature order.  [None]: the call raises. *)
  Definition date_provenance (rp : option bool) (m : method) (g : generic) (args : list pv)
      (prov : list record) : option (list record) :=
    if recording rp then
      record_provenance prov (method_name m) (pupdate (init_params g) (combine (run_keys m) args))
    else Some prov.

  (** [preprocess_ts]: the inner tskit / tsdate calls all get [record_provenance=False]
      (util.py:180, 185, 194, 199); one record at the end (util.py:205-216) *)
  Record prep := mkPrep {
    p_minimum_gap : pv; p_erase_flanks : pv; p_split_disjoint : pv; p_filter_populations : pv;
    p_filter_individuals : pv; p_filter_sites : pv; p_delete_intervals : pv }.
  Definition prep_params (p : prep) : pdict :=
    [("minimum_gap", p_minimum_gap p); ("erase_flanks", p_erase_flanks p);
     ("split_disjoint", p_split_disjoint p); ("filter_populations", p_filter_populations p);
     ("filter_individuals", p_filter_individuals p); ("filter_sites", p_filter_sites p);
     ("delete_intervals", p_delete_intervals p)].
  (** [inner] = what delete_intervals / simplify / split_disjoint_nodes do to the
      provenance table when told not to record: nothing *)
  Definition preprocess_provenance (rp : option bool) (p : prep) (prov : list record)
    : option (list record) :=
    if recording rp then record_provenance prov "preprocess_ts" (prep_params p) else Some prov.

  (** [split_disjoint_nodes(ts, record_provenance=...)] *)
  Definition split_provenance (rp : option bool) (prov : list record) : option (list record) :=
    if recording rp then record_provenance prov "split_disjoint_nodes" [] else Some prov.
End Prov.

Arguments mkGeneric {pv}.
Arguments mkPrep {pv}.

(** harness instance: values are interned canonical JSON texts of what is written (a numpy array
    as the list it stands for, a numpy scalar as the python number); 0 = not JSON serialisable
    even after that conversion; a record is its parameter dict *)
Definition zdump (d : list (string * Z)) : option (list (string * Z)) :=
  if existsb (fun kv => Z.eqb (snd kv) 0) d then None else Some d.
Definition zstr (s : string) : Z :=
  if String.eqb s "variational_gamma" then (-1)%Z else if String.eqb s "inside_outside" then (-2)%Z
  else if String.eqb s "maximization" then (-3)%Z else if String.eqb s "preprocess_ts" then (-4)%Z
  else if String.eqb s "split_disjoint_nodes" then (-5)%Z else (-9)%Z.
Definition zmethod (z : Z) : method :=
  if Z.eqb z 0 then VariationalGamma else if Z.eqb z 1 then InsideOutside else Maximization.
Definition run_date_prov (rp : option bool) (m : Z) (g : @generic Z) (args : list Z)
    (prov : list (list (string * Z))) :=
  date_provenance Z zstr (list (string * Z)) zdump rp (zmethod m) g args prov.
Definition run_prep_prov (rp : option bool) (p : @prep Z) (prov : list (list (string * Z))) :=
  preprocess_provenance Z zstr (list (string * Z)) zdump rp p prov.
Definition run_split_prov (rp : option bool) (prov : list (list (string * Z))) :=
  split_provenance Z zstr (list (string * Z)) zdump rp prov.

(* ------------------------------------------------------------------------- *)
(** ** [EstimationMethod.get_modified_ts]   (core.py:200-255) as a function on a table model *)
From TsdateV Require Import lib.Num.

(** stable insertion sort by a boolean "less or equal": the order tskit's sort produces
    for a key that ends in "original position" *)
Section Sort.
  Variable A : Type.
  Variable le : A -> A -> bool.
  Fixpoint insert (x : A) (l : list A) : list A :=
    match l with
    | [] => [x]
    | y :: l' => if le x y then x :: l else y :: insert x l'
    end.
  Fixpoint isort (l : list A) : list A :=
    match l with
    | [] => []
    | x :: l' => insert x (isort l')
    end.
End Sort.

Section Modified.
  Variable N : Num.
  Notation T := (T N).
  (** metadata vocabulary of Section Meta *)
  Variable other schema byte : Type.
  Variable decode : schema -> bytes byte -> dec T other.
  Variable encode : schema -> row T other -> @enc byte.
  Variable default_node_schema default_mutation_schema : schema.
  (** contents tsdate never looks at *)
  Variable state : Type.       (* ancestral / derived state strings *)
  Variable site : Type.        (* a whole site row *)
  Variable indiv pop rest : Type.   (* individual table, population table; everything else:
                                       top-level metadata and schema, reference sequence,
                                       schemas of the other tables *)
  Variable tunits : Type.
  (** provenance vocabulary of Section Prov *)
  Variable pv : Type.
  Variable pv_string : string -> pv.
  Variable record : Type.
  Variable dump : list (string * pv) -> option record.

  Record node_row := mkNode { n_flags : Z; n_time : T; n_pop : Z; n_ind : Z; n_md : bytes byte }.
  Record edge_row := mkEdge { e_left : T; e_right : T; e_parent : nat; e_child : nat; e_md : bytes byte }.
  (** [m_time = None]: tskit.UNKNOWN_TIME; [m_parent = None]: tskit.NULL *)
  Record mut_row := mkMut { m_site : nat; m_node : nat; m_time : option T; m_state : state;
                            m_parent : option nat; m_md : bytes byte }.
  Record mig_row := mkMig { g_left : T; g_right : T; g_node : nat; g_source : Z; g_dest : Z;
                            g_time : T; g_md : bytes byte }.

  Record tables := mkTables {
    seq_len : T; time_units : tunits;
    nodes : list node_row; node_schema : option schema;
    edges : list edge_row;
    sites : list site;
    muts : list mut_row; mut_schema : option schema;
    migs : list mig_row;
    individuals : indiv; populations : pop;
    provs : list record;
    others : rest }.

  (** [Results] (core.py:49-60) as far as get_modified_ts reads it; [None] = Python None *)
  Record result := mkResult {
    r_mean : list T; r_var : option (list T);
    r_mut_mean : option (list T); r_mut_var : option (list T);
    r_mut_node : list nat }.

  (** the method object's attributes used here *)
  Record config := mkConfig {
    c_time_units : tunits; c_set_metadata : option bool;
    c_name : string; c_prov_params : option (list (string * pv)) }.

  (** [util.constrain_ages(ts, mean, min_branch_length, constr_iterations)] on the INPUT
      edge order and sample flags; [None] = its assertion fails  (model/Constrain.v) *)
  Variable constrain_ages : list (nat * nat) -> list bool -> list T -> option (list T).
  (** tskit: [build_index; compute_mutation_parents; compute_mutation_times] on sorted tables.
      Writes the parent and time columns and re-sorts the mutation rows when the new times
      require it.  Arguments: new node times, sorted edges, mutation rows. *)
  Variable finish_mutations : list T -> list edge_row -> list mut_row -> list mut_row.
  (** [tables.tree_sequence()]: tskit's validation *)
  Variable valid : tables -> bool.

  Definition is_sample (r : node_row) : bool := Z.odd (n_flags r).     (* flags & NODE_IS_SAMPLE *)
  Definition time_of (t : list T) (u : nat) : T := nth u t (zero N).

  (** [tables.sort()] keys (tskit 1.0.3 documentation), ties keep table order *)
  Definition edge_le (t : list T) (a b : edge_row) : bool :=
    let ta := time_of t (e_parent a) in let tb := time_of t (e_parent b) in
    if ltb N ta tb then true else if ltb N tb ta then false else
    if Nat.ltb (e_parent a) (e_parent b) then true else if Nat.ltb (e_parent b) (e_parent a) then false else
    if Nat.ltb (e_child a) (e_child b) then true else if Nat.ltb (e_child b) (e_child a) then false else
    leb N (e_left a) (e_left b).
  (** mutations with unknown time and no parent: site, then node time (older first), then node *)
  Definition mut_le (t : list T) (a b : mut_row) : bool :=
    if Nat.ltb (m_site a) (m_site b) then true else if Nat.ltb (m_site b) (m_site a) then false else
    let ta := time_of t (m_node a) in let tb := time_of t (m_node b) in
    if ltb N tb ta then true else if ltb N ta tb then false else
    Nat.leb (m_node a) (m_node b).
  Definition mig_le (a b : mig_row) : bool :=
    if ltb N (g_time a) (g_time b) then true else if ltb N (g_time b) (g_time a) then false else
    if Z.ltb (g_source a) (g_source b) then true else if Z.ltb (g_source b) (g_source a) then false else
    if Z.ltb (g_dest a) (g_dest b) then true else if Z.ltb (g_dest b) (g_dest a) then false else
    if ltb N (g_left a) (g_left b) then true else if ltb N (g_left b) (g_left a) then false else
    Nat.leb (g_node a) (g_node b).

  Fixpoint map3 {A B C D} (f : A -> B -> C -> D) (a : list A) (b : list B) (c : list C) : list D :=
    match a, b, c with
    | x :: a', y :: b', z :: c' => f x y z :: map3 f a' b' c'
    | _, _, _ => []
    end.

  Definition opt_list {A} (o : option (list A)) : list A := match o with Some l => l | None => [] end.

  Inductive failure := FailMetadata (e : exn) | FailConstrain | FailProvenance | FailInvalid.
  Inductive modified := Modified (t : tables) (log : list event) | Failed (f : failure).

  Definition get_modified (c : config) (tb : tables) (res : result) : modified :=
    (* core.py:216-221: metadata first, from the UNconstrained means *)
    match set_time_metadata T other schema byte decode encode (c_set_metadata c)
            (mkMT (node_schema tb) (map n_md (nodes tb))) (r_mean res) (r_var res) default_node_schema with
    | Raised e => Failed (FailMetadata e)
    | Done nmt log1 =>
    match set_time_metadata T other schema byte decode encode (c_set_metadata c)
            (mkMT (mut_schema tb) (map m_md (muts tb))) (opt_list (r_mut_mean res)) (r_mut_var res)
            default_mutation_schema with
    | Raised e => Failed (FailMetadata e)
    | Done mmt log2 =>
    (* core.py:227-229 *)
    match constrain_ages (map (fun e => (e_parent e, e_child e)) (edges tb)) (map is_sample (nodes tb))
            (r_mean res) with
    | None => Failed FailConstrain
    | Some t' =>
        let nodes' := map3 (fun r t md => mkNode (n_flags r) t (n_pop r) (n_ind r) md)
                           (nodes tb) t' (mrows nmt) in
        (* core.py:233-239: node switch, time and parent zapped *)
        let muts1 := map3 (fun r u md => mkMut (m_site r) u None (m_state r) None md)
                          (muts tb) (r_mut_node res) (mrows mmt) in
        (* core.py:241 *)
        let edges' := isort _ (edge_le t') (edges tb) in
        let muts2 := isort _ (mut_le t') muts1 in
        (* core.py:242-249: tskit also re-sorts the migrations (see [mig_le]) in sort() and in
           compute_mutation_times(); since the repair of finding C02-migrations-resorted the
           input's rows are put back afterwards ([tables.migrations.replace_with(migrations)]) *)
        let migs' := migs tb in
        let muts3 := finish_mutations t' edges' muts2 in
        (* core.py:250-254 *)
        match (match c_prov_params c with
               | None => Some (provs tb)
               | Some p => record_provenance pv pv_string record dump (provs tb) (c_name c) p
               end) with
        | None => Failed FailProvenance
        | Some provs' =>
            let out := mkTables (seq_len tb) (c_time_units c) nodes' (mschema nmt) edges' (sites tb)
                                muts3 (mschema mmt) migs' (individuals tb) (populations tb) provs'
                                (others tb) in
            (* core.py:255 *)
            if valid out then Modified out (log1 ++ log2)%list else Failed FailInvalid
        end
    end end end.
End Modified.

Arguments mkNode {N byte}.
Arguments mkEdge {N byte}.
Arguments mkMut {N byte state}.
Arguments mkMig {N byte}.
Arguments mkTables {N schema byte state site indiv pop rest tunits record}.
Arguments mkResult {N}.
Arguments mkConfig {tunits pv}.
Arguments seq_len {N schema byte state site indiv pop rest tunits record} t.
Arguments time_units {N schema byte state site indiv pop rest tunits record} t.
Arguments nodes {N schema byte state site indiv pop rest tunits record} t.
Arguments node_schema {N schema byte state site indiv pop rest tunits record} t.
Arguments edges {N schema byte state site indiv pop rest tunits record} t.
Arguments sites {N schema byte state site indiv pop rest tunits record} t.
Arguments muts {N schema byte state site indiv pop rest tunits record} t.
Arguments mut_schema {N schema byte state site indiv pop rest tunits record} t.
Arguments migs {N schema byte state site indiv pop rest tunits record} t.
Arguments individuals {N schema byte state site indiv pop rest tunits record} t.
Arguments populations {N schema byte state site indiv pop rest tunits record} t.
Arguments provs {N schema byte state site indiv pop rest tunits record} t.
Arguments others {N schema byte state site indiv pop rest tunits record} t.
Arguments n_flags {N byte} n. Arguments n_time {N byte} n. Arguments n_pop {N byte} n.
Arguments n_ind {N byte} n. Arguments n_md {N byte} n.
Arguments e_left {N byte} e. Arguments e_right {N byte} e. Arguments e_parent {N byte} e.
Arguments e_child {N byte} e. Arguments e_md {N byte} e.
Arguments m_site {N byte state} m. Arguments m_node {N byte state} m. Arguments m_time {N byte state} m.
Arguments m_state {N byte state} m. Arguments m_parent {N byte state} m. Arguments m_md {N byte state} m.
Arguments g_left {N byte} m. Arguments g_right {N byte} m. Arguments g_node {N byte} m.
Arguments g_source {N byte} m. Arguments g_dest {N byte} m. Arguments g_time {N byte} m. Arguments g_md {N byte} m.
Arguments r_mean {N} r. Arguments r_var {N} r. Arguments r_mut_mean {N} r. Arguments r_mut_var {N} r.
Arguments r_mut_node {N} r.
Arguments c_time_units {tunits pv} c. Arguments c_set_metadata {tunits pv} c. Arguments c_name {tunits pv} c.
Arguments c_prov_params {tunits pv} c.
Arguments Modified {N schema byte state site indiv pop rest tunits record} t log.
Arguments Failed {N schema byte state site indiv pop rest tunits record} f.

(** harness instance of [get_modified]: doubles, tabulated codec (node table: default schema 0,
    mutation table: default schema 10), interned states / sites / parameter values, row tags in
    the edge and migration metadata and in the mutation state so that the row permutations can
    be read off; tskit's part ([finish_mutations], [valid]) is applied by the harness to the
    model's output *)
From TsdateV Require Import model.Constrain.

Definition ztables := @tables FNum Z Z Z Z unit unit unit Z (list (string * Z)).

Definition show_failure (f : failure) : Z :=
  match f with
  | FailMetadata e => show_exn e
  | FailConstrain => 10 | FailProvenance => 11 | FailInvalid => 12
  end%Z.

Definition run_get_modified (dt : dec_tab) (et : enc_tab) (eps : float) (k : nat)
    (c : @config Z Z) (tb : ztables) (res : @result FNum) :=
  match get_modified FNum Z Z Z (tab_decode dt) (tab_encode et) 0%Z 10%Z Z Z unit unit unit Z Z zstr
          (list (string * Z)) zdump
          (fun es fx t => constrain_list FNum eps fx k es t) (fun _ _ m => m) (fun _ => true) c tb res with
  | Modified t log =>
      (0%Z,
       (time_units t, map n_time (nodes t), map n_md (nodes t), show_schema (node_schema t)),
       (map e_md (edges t), map g_md (migs t)),
       (map (fun m : mut_row FNum Z Z => (m_state m, m_node m, m_md m)) (muts t), show_schema (mut_schema t)),
       (provs t, map show_event log))
  | Failed f =>
      (1%Z, (show_failure f, [], [], 0%Z), ([], []), ([], 0%Z), ([], []))
  end.

(** constructors at the harness instance *)
Definition zNode := @mkNode FNum Z.
Definition zEdge := @mkEdge FNum Z.
Definition zMut := @mkMut FNum Z Z.
Definition zMig := @mkMig FNum Z.
Definition zTables := @mkTables FNum Z Z Z Z unit unit unit Z (list (string * Z)).
Definition zResult := @mkResult FNum.
Definition zConfig := @mkConfig Z Z.

(* ------------------------------------------------------------------------- *)
(** ** Discrete-time posteriors: [NodeTimeValues.standardize / force_probability_space /
       to_probabilities] (node_time_class.py:103-162) and [DiscreteTimeMethod.mean_var]
       (core.py:318-339), one grid row at a time *)
Section Discrete.
  Variable N : Num.
  Notation T := (T N).
  (** numpy's [np.sum] of a 1-D array and [np.exp] are external *)
  Variable sum : list T -> T.
  Variable expf : T -> T.

  Inductive space := LinGrid | LogGrid.

  (** [arr.max()] of a non-empty row *)
  Definition maxl (l : list T) : T :=
    match l with
    | [] => zero N
    | x :: r => fold_left (fun a b => if ltb N a b then b else a) r x
    end.

  (** [rowmax = grid_data[:, 1:].max(axis=1)]; divide (linear) or subtract (logarithmic) *)
  Definition standardize (sp : space) (row : list T) : list T :=
    let m := maxl (tl row) in
    match sp with
    | LinGrid => map (fun x => div N x m) row
    | LogGrid => map (fun x => sub N x m) row
    end.

  (** [force_probability_space(LIN_GRID)] *)
  Definition to_linear (sp : space) (row : list T) : list T :=
    match sp with LinGrid => row | LogGrid => map expf row end.

  (** [to_probabilities]: [assert not np.any(grid_data < 0)], then divide by the row sum;
      [None] = the assertion fails *)
  Definition to_probabilities (row : list T) : option (list T) :=
    if existsb (fun x => ltb N x (zero N)) row then None
    else let s := sum row in Some (map (fun x => div N x s) row).

  (** what InsideOutsideMethod.run does to a posterior row (core.py:405-407) *)
  Definition posterior_row (sp : space) (row : list T) : option (list T) :=
    to_probabilities (to_linear sp (standardize sp row)).

  Fixpoint map2 {A B C} (f : A -> B -> C) (a : list A) (b : list B) : list C :=
    match a, b with
    | x :: a', y :: b' => f x y :: map2 f a' b'
    | _, _ => []
    end.

  (** the loop body of mean_var (core.py:334-337) *)
  Definition mean_var_row (times probs : list T) : T * T :=
    let s := sum probs in
    let mn := div N (sum (map2 (mul N) probs times)) s in
    let va := sum (map2 (mul N) (map (fun t => let d := sub N mn t in mul N d d) times)
                                (map (fun p => div N p (sum probs)) probs)) in
    (mn, va).

  (** one node: fixed nodes get their tree-sequence time and variance 0 *)
  Definition mean_var_node (times : list T) (node_time : T) (grid_row : option (list T)) : T * T :=
    match grid_row with
    | None => (node_time, zero N)
    | Some probs => mean_var_row times probs
    end.
End Discrete.

(** numpy's pairwise summation (numpy/core/src/umath/loops_utils.h.src, [pairwise_sum]) of a
    contiguous double array -- the harness instance of [sum] *)
Section NumpySum.
  Variable N : Num.
  Notation T := (T N).
  Definition seq_sum (acc : T) (l : list T) : T := fold_left (add N) l acc.
  (** add the next block of 8 to the 8 accumulators *)
  Fixpoint blocks (r : list T) (l : list T) (nblocks : nat) : list T * list T :=
    match nblocks with
    | O => (r, l)
    | S k => blocks (map2 (add N) r (firstn 8 l)) (skipn 8 l) k
    end.
  Definition pairwise_block (l : list T) : T :=
    let n := length l in
    if Nat.ltb n 8 then seq_sum (zero N) l
    else
      let '(r, rest) := blocks (firstn 8 l) (skipn 8 l) (n / 8 - 1) in
      let g i := nth i r (zero N) in
      let res := add N (add N (add N (g 0) (g 1)) (add N (g 2) (g 3)))
                       (add N (add N (g 4) (g 5)) (add N (g 6) (g 7))) in
      seq_sum res rest.
  (** n > 128: split at n/2 rounded down to a multiple of 8 *)
  Fixpoint np_sum_fuel (fuel : nat) (l : list T) : T :=
    let n := length l in
    match fuel with
    | O => pairwise_block l
    | S f =>
        if Nat.leb n 128 then pairwise_block l
        else let h := (n / 2) - ((n / 2) mod 8) in
             add N (np_sum_fuel f (firstn h l)) (np_sum_fuel f (skipn h l))
    end.
  Definition np_sum (l : list T) : T := np_sum_fuel 20 l.
End NumpySum.

(* ------------------------------------------------------------------------- *)
(** ** What each method's [run()] hands to [get_modified_ts] and what the fit object reports
       (core.py:377-510, variational.py:920-997, discrete.py:742-761) *)
Section Runs.
  Variable N : Num.
  Notation T := (T N).
  Variable sum : list T -> T.
  Variable expf : T -> T.

  (** *** variational_gamma: [ep] is the state of the ExpectationPropagation object after
      [infer()]; [node_moments] / [mutation_moments] / [mutation_mapping] are its methods *)
  Variable ep : Type.
  Variable node_moments : ep -> list T * list T.
  Variable mutation_moments : ep -> list T * list T.
  Variable mutation_mapping : ep -> list nat.

  Definition vgamma_result (st : ep) : result N :=
    mkResult (fst (node_moments st)) (Some (snd (node_moments st)))
             (Some (fst (mutation_moments st))) (Some (snd (mutation_moments st)))
             (mutation_mapping st).
  (** [fit.node_posteriors()] / [fit.mutation_posteriors()]: the "mean" and "variance" columns *)
  Definition vgamma_node_posteriors (st : ep) : list T * list T := node_moments st.
  Definition vgamma_mutation_posteriors (st : ep) : list T * list T := mutation_moments st.

  (** *** inside_outside: [grid] holds one row per node ([None] for a fixed node) in space
      [sp]; [times] are the timepoints; [node_times] the input ts.nodes_time; [mnodes] the
      input mutation nodes *)
  Definition io_posterior (sp : space) (grid : list (option (list T))) : option (list (option (list T))) :=
    fold_right (fun row acc =>
                  match acc with
                  | None => None
                  | Some rest =>
                      match row with
                      | None => Some (None :: rest)
                      | Some r => match posterior_row N sum expf sp r with
                                  | None => None
                                  | Some p => Some (Some p :: rest)
                                  end
                      end
                  end) (Some []) grid.
  Definition io_result (times node_times : list T) (post : list (option (list T))) (mnodes : list nat)
    : result N :=
    let mv := map2 (fun t row => mean_var_node N sum times t row) node_times post in
    mkResult (map fst mv) (Some (map snd mv)) None None mnodes.
  (** [fit.node_posteriors()]: the probability rows, NaN rows for fixed nodes *)
  Definition io_node_posteriors (post : list (option (list T))) : list (option (list T)) := post.

  (** *** maximization: point estimates only *)
  Definition max_result (posterior_mean : list T) (mnodes : list nat) : result N :=
    mkResult posterior_mean None None None mnodes.
End Runs.

(** harness instance of the discrete pipeline: doubles, numpy's pairwise sum, np.exp tabulated *)
Definition tab_exp (tab : list (float * float)) (x : float) : float :=
  match find (fun e => feqb (fst e) x) tab with Some e => snd e | None => nan end.
Definition zspace (lg : bool) : space := if lg then LogGrid else LinGrid.
Definition run_discrete (tab : list (float * float)) (lg : bool) (times node_times : list float)
    (grid : list (option (list float))) :=
  let sp := zspace lg in
  let std := map (option_map (standardize FNum sp)) grid in
  let post := io_posterior FNum (np_sum FNum) (tab_exp tab) sp grid in
  (std, post,
   match post with
   | Some p => let r := io_result FNum (np_sum FNum) times node_times p [] in
               (r_mean r, opt_list (r_var r))
   | None => ([], [])
   end).
Definition run_np_sum (l : list float) : float := np_sum FNum l.
