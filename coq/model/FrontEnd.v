(** * What the dating front end reads from the node, site and mutation tables (C08)
    Literal model of
      - variational.py ExpectationPropagation.__init__ lines 283-289 (node_constraints from
        ts.samples() and ts.nodes_time), 235-247 (_check_valid_constraints), 333-342
        (roots / leaves / disconnected / unconstrained_roots);
      - util.py constrain_ages line 684 and core.py line 198 (the fixed-node masks);
      - the (position, node) pairs that count_mutations / get_mut_edges / mutation_span_array
        read: ts.sites_position[ts.mutations_site], ts.mutations_node.
    A node row carries its WHOLE flags word (tskit allows any uint32), its time and an opaque
    payload (metadata, individual, population); a site row its position and a payload
    (ancestral state, metadata); a mutation row its site id, node and a payload (derived
    state, time, parent, metadata).  The upper constraint +inf is [None].  No proofs here. *)
From Coq Require Import List Arith Bool ZArith.
From Coq Require PrimFloat.
From TsdateV Require Import lib.Num model.Inputs.
Import ListNotations.

Section FrontEnd.
  Variable N : Num.
  Variable Junk : Type.
  Notation T := (T N).

  Record node := mkNode { nflags : Z; ntime : T; njunk : Junk }.
  Record site := mkSite { spos : T; sjunk : Junk }.
  Record mutation := mkMut { msite : nat; mnode : nat; mjunk : Junk }.

  (** tskit: flags & NODE_IS_SAMPLE, NODE_IS_SAMPLE = 1 *)
  Definition is_sample (n : node) : bool := Z.testbit (nflags n) 0.

  (** ts.samples(): ids of the sample nodes, increasing *)
  Fixpoint samples_from (ns : list node) (i : nat) : list nat :=
    match ns with
    | [] => []
    | n :: r => if is_sample n then i :: samples_from r (S i) else samples_from r (S i)
    end.
  Definition samples (ns : list node) : list nat := samples_from ns 0.

  (** node_constraints = zeros; [:,1] = inf; [fixed,:] = nodes_time[fixed] *)
  Definition constraint (n : node) : T * option T :=
    if is_sample n then (ntime n, Some (ntime n)) else (zero N, None).
  Definition constraints (ns : list node) : list (T * option T) := map constraint ns.

  Fixpoint upd {A} (l : list A) (i : nat) (x : A) : list A :=
    match l, i with
    | [], _ => []
    | _ :: r, O => x :: r
    | a :: r, S j => a :: upd r j x
    end.

  (** Python's max(a, b): a unless b > a *)
  Definition pymax (a b : T) : T := if ltb N a b then b else a.

  (** _check_valid_constraints: False = raises "Node age constraints are inconsistent" *)
  Definition lower_max (cs : list (T * option T)) (es : list (edge N)) : list T :=
    fold_left (fun lm e => upd lm (ep e) (pymax (nth (ec e) lm (zero N)) (nth (ep e) lm (zero N))))
              es (map fst cs).
  Definition check_valid (cs : list (T * option T)) (es : list (edge N)) : bool :=
    forallb (fun lc : T * (T * option T) =>
               match snd (snd lc) with None => true | Some u => negb (ltb N u (fst lc)) end)
            (combine (lower_max cs es) cs).

  (** has_parent / has_child / roots / leaves / disconnected / unconstrained_roots *)
  Definition mark (n : nat) (ids : list nat) : list bool :=
    fold_left (fun l i => upd l i true) ids (repeat false n).
  Definition terminals (ns : list node) (es : list (edge N)) :=
    let n := length ns in
    let has_parent := mark n (map (@ec N) es) in
    let has_child := mark n (map (@ep N) es) in
    let roots := map (fun pc : bool * bool => andb (snd pc) (negb (fst pc))) (combine has_parent has_child) in
    let leaves := map (fun pc : bool * bool => andb (negb (snd pc)) (fst pc)) (combine has_parent has_child) in
    let disconnected := existsb (fun pc : bool * bool => andb (negb (snd pc)) (negb (fst pc))) (combine has_parent has_child) in
    let unconstrained := map (fun rn : bool * node => andb (fst rn) (negb (is_sample (snd rn)))) (combine roots ns) in
    (roots, leaves, disconnected, unconstrained).

  (** (site position, node) of every mutation row; a site id out of range cannot occur in a
      tree sequence tskit accepts and maps to [None] here *)
  Definition mut_place (ss : list site) (m : mutation) : option (T * nat) :=
    match nth_error ss (msite m) with Some s => Some (spos s, mnode m) | None => None end.
  Definition placements (ss : list site) (ms : list mutation) : list (option (T * nat)) :=
    map (mut_place ss) ms.

  Record tables := mkTables {
    t_nodes : list node; t_edges : list (edge N); t_sites : list site; t_muts : list mutation;
    t_rest : Junk   (* populations, individuals, provenance, top-level metadata, schemas, migrations *)
  }.

  (** everything the variational front end derives from the tables *)
  Definition front_end (tb : tables) (mu : T) :=
    let ns := t_nodes tb in let es := t_edges tb in
    let cs := constraints ns in
    let pl := placements (t_sites tb) (t_muts tb) in
    let ms := flat_map (fun o : option (T * nat) => match o with Some m => [m] | None => [] end) pl in
    (samples ns, cs, check_valid cs es, terminals ns es, pl, mut_edges N es ms, edge_inputs N es ms mu).

  (** the projection named by the property: edges, node times, SAMPLE flags, mutation positions and nodes *)
  Definition pi_full (tb : tables) :=
    (t_edges tb, map (fun n => (ntime n, is_sample n)) (t_nodes tb), placements (t_sites tb) (t_muts tb)).
End FrontEnd.

Arguments mkNode {N Junk}. Arguments nflags {N Junk}. Arguments ntime {N Junk}. Arguments njunk {N Junk}.
Arguments mkSite {N Junk}. Arguments mkMut {Junk}. Arguments mkTables {N Junk}.
Arguments spos {N Junk}. Arguments msite {Junk}. Arguments mnode {Junk}.
Arguments t_nodes {N Junk}. Arguments t_edges {N Junk}. Arguments t_sites {N Junk}. Arguments t_muts {N Junk}.
Arguments t_rest {N Junk}.
Arguments front_end {N Junk}. Arguments pi_full {N Junk}. Arguments is_sample {N Junk}.
Arguments samples {N Junk}. Arguments constraints {N Junk}. Arguments check_valid {N}. Arguments terminals {N Junk}.
Arguments placements {N Junk}.

(** evaluation front end on binary64: nodes as (flags, time), edges as (left, right, parent, child),
    sites as positions, mutations as (site, node) *)
Definition front_end_F (ns : list (Z * PrimFloat.float)) (es : list (PrimFloat.float * PrimFloat.float * nat * nat))
    (ss : list PrimFloat.float) (ms : list (nat * nat)) (mu : PrimFloat.float) :=
  let tb := @mkTables FNum unit
      (map (fun n : Z * PrimFloat.float => @mkNode FNum unit (fst n) (snd n) tt) ns)
      (map (fun e : PrimFloat.float * PrimFloat.float * nat * nat => let '(l, r, p, c) := e in @mkEdge FNum l r p c) es)
      (map (fun x => @mkSite FNum unit x tt) ss)
      (map (fun m : nat * nat => @mkMut unit (fst m) (snd m) tt) ms) tt in
  front_end tb mu.
