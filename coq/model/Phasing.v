(** * Model of [tsdate.phasing.reallocate_unphased] (phasing.py:35-64).
    <<
    edges_unphased[blocks_edges[:, 0]] = True; edges_unphased[blocks_edges[:, 1]] = True
    num_unphased = np.sum(edges_likelihood[edges_unphased, 0])
    edges_likelihood[edges_unphased, 0] = 0.0
    for m, b in enumerate(mutations_block):
        if b == tskit.NULL: continue
        i, j = blocks_edges[b]
        assert tskit.NULL < i < num_edges; assert edges_unphased[i]   (same for j)
        if np.isnan(mutations_phase[m]): continue
        assert 0.0 <= mutations_phase[m] <= 1.0
        edges_likelihood[i, 0] += mutations_phase[m]
        edges_likelihood[j, 0] += 1 - mutations_phase[m]
    assert np.isclose(num_unphased, np.sum(edges_likelihood[edges_unphased, 0]))
    >>
    Only column 0 (the mutation counts) is touched, so the model works on [nat -> T].
    A mutation is [(block, phase)] with [block = None] for [tskit.NULL].  An
    [AssertionError]/[IndexError] is [None].  [np.sum] is modelled as a left-to-right sum (it is
    only used inside the [isclose] test).  No proofs in this file. *)
From Coq Require Import List Arith Bool.
From TsdateV Require Import lib.Num model.EP.
Import ListNotations.

Section Realloc.
  Variable N : Num.
  Notation T := (T N).
  (** [np.isclose] defaults: [atol = 1e-8], [rtol = 1e-5] *)
  Variable atol rtol : T.
  Variable nE : nat.
  Variable bes : list (nat * nat).        (* blocks_edges *)

  Definition isnan (x : T) : bool := negb (eqb N x x).
  (** [np.isclose(a, b)]: |a - b| <= atol + rtol * |b| *)
  Definition isclose (a b : T) : bool :=
    leb N (nabs (sub N a b)) (add N atol (mul N rtol (nabs b))).

  Definition sum_unphased (cnt : nat -> T) : T :=
    fold_left (fun acc e => if edge_unphased bes e then add N acc (cnt e) else acc) (seq 0 nE) (zero N).

  Definition realloc_step (ocnt : option (nat -> T)) (mb : option nat * T) : option (nat -> T) :=
    obind ocnt (fun cnt =>
    match fst mb with
    | None => Some cnt
    | Some b =>
        match nth_error bes b with
        | None => None
        | Some (i, j) =>
            if negb (Nat.ltb i nE && Nat.ltb j nE) then None else
            let p := snd mb in
            if isnan p then Some cnt else
            if negb (leb N (zero N) p && leb N p (one N)) then None else
            let c1 := updf cnt i (add N (cnt i) p) in
            Some (updf c1 j (add N (c1 j) (sub N (one N) p)))
        end
    end).

  Definition reallocate (cnt : nat -> T) (muts : list (option nat * T)) : option (nat -> T) :=
    let total := sum_unphased cnt in
    let cnt0 := fun e => if edge_unphased bes e then zero N else cnt e in
    obind (fold_left realloc_step muts (Some cnt0)) (fun c =>
    if isclose total (sum_unphased c) then Some c else None).
End Realloc.

(** list front-end for the correspondence harness *)
Definition reallocate_list (N : Num) (atol rtol : T N) (bes : list (nat * nat)) (cnt : list (T N))
    (muts : list (option nat * T N)) : option (list (T N)) :=
  match reallocate N atol rtol (length cnt) bes (nthf (zero N) cnt) muts with
  | Some c => Some (map c (seq 0 (length cnt)))
  | None => None
  end.

(** the phase handling of [infer] + [rescale] for one singleton whose fitted phase (probability
    of the block's first edge) is [r]: (edge it is placed on, stored phase, phase handed to
    [reallocate_unphased]) *)
Definition singleton_flow (N : Num) (half : T N) (first second : nat) (r : T N) : nat * T N * T N :=
  let placed := switch_edge N half first second r in
  let stored := switch_phase N half r in
  (placed, stored, orient_phase N first placed stored).
