(* FROZEN copy of the translator's output for tsdate/hypergeo.py (tools/translate.py --freeze).
   gen/GenEq*.v proves, by reflexivity, that the text regenerated on every check is convertible
   with this one; source sha256 at freeze time 09630a76b520b685bdc33f03b41a6167c50c19167d53ba81663a3add980b3bd1 *)
From Coq Require Import ZArith PrimFloat.
From TsdateV Require Import lib.Num model.ApproxBase.

(** tsdate/hypergeo.py:65-85  [_digamma]   uses: euler_gamma lit log pi tan *)
Fixpoint digamma_rec (N__ : Num) (F__ : Fns N__) (fuel__ : nat) (x : T N__) {struct fuel__} : exc (T N__) :=
  match fuel__ with O => Err EFuel | S fuel__ =>
    if (Num.leb N__ x (f_lit N__ F__ (0)%Z (1)%Z 0%float)) then
      match (digamma_rec N__ F__ fuel__ (Num.sub N__ (Num.ofZ N__ (1)%Z) x)) with
      | Err e__ => Err e__
      | Ok call1__ =>
          Ok (Num.sub N__ call1__ (Num.div N__ (f_pi N__ F__) (f_tan N__ F__ (Num.mul N__ (f_pi N__ F__) x))))
      end
    else
    if (Num.leb N__ x (f_lit N__ F__ (1)%Z (100000)%Z 0x1.4f8b588e368f1p-17%float)) then
      Ok (Num.sub N__ (Num.neg N__ (f_euler_gamma N__ F__)) (Num.div N__ (Num.ofZ N__ (1)%Z) x))
    else
    if (Num.ltb N__ x (f_lit N__ F__ (85)%Z (10)%Z 0x1.1000000000000p+3%float)) then
      match (digamma_rec N__ F__ fuel__ (Num.add N__ (Num.ofZ N__ (1)%Z) x)) with
      | Err e__ => Err e__
      | Ok call2__ =>
          Ok (Num.sub N__ call2__ (Num.div N__ (Num.ofZ N__ (1)%Z) x))
      end
    else
    let xpm2 := (Num.div N__ (Num.ofZ N__ (1)%Z) (pw N__ x 2%nat)) in
    Ok (Num.add N__ (Num.sub N__ (Num.add N__ (Num.sub N__ (Num.add N__ (Num.sub N__ (Num.sub N__ (f_log N__ F__ x) (Num.div N__ (f_lit N__ F__ (5)%Z (10)%Z 0x1.0000000000000p-1%float) x)) (Num.mul N__ (f_lit N__ F__ (83333333333333333)%Z (1000000000000000000)%Z 0x1.5555555555555p-4%float) xpm2)) (Num.mul N__ (f_lit N__ F__ (8333333333333333)%Z (1000000000000000000)%Z 0x1.1111111111111p-7%float) (pw N__ xpm2 2%nat))) (Num.mul N__ (f_lit N__ F__ (3968253968253968)%Z (1000000000000000000)%Z 0x1.0410410410410p-8%float) (pw N__ xpm2 3%nat))) (Num.mul N__ (f_lit N__ F__ (4166666666666667)%Z (1000000000000000000)%Z 0x1.1111111111111p-8%float) (pw N__ xpm2 4%nat))) (Num.mul N__ (f_lit N__ F__ (7575757575757576)%Z (1000000000000000000)%Z 0x1.f07c1f07c1f08p-8%float) (pw N__ xpm2 5%nat))) (Num.mul N__ (f_lit N__ F__ (21092796092796094)%Z (1000000000000000000)%Z 0x1.5995995995996p-6%float) (pw N__ xpm2 6%nat)))
  end.
Definition digamma (N__ : Num) (F__ : Fns N__) (x : T N__) : exc (T N__) := digamma_rec N__ F__ fuel_rec x.

(** tsdate/hypergeo.py:89-111  [_trigamma]   uses: lit pi sin *)
Fixpoint trigamma_rec (N__ : Num) (F__ : Fns N__) (fuel__ : nat) (x : T N__) {struct fuel__} : exc (T N__) :=
  match fuel__ with O => Err EFuel | S fuel__ =>
    if (Num.leb N__ x (f_lit N__ F__ (0)%Z (1)%Z 0%float)) then
      match (trigamma_rec N__ F__ fuel__ (Num.sub N__ (Num.ofZ N__ (1)%Z) x)) with
      | Err e__ => Err e__
      | Ok call3__ =>
          Ok (Num.add N__ (Num.neg N__ call3__) (Num.div N__ (pw N__ (f_pi N__ F__) 2%nat) (pw N__ (f_sin N__ F__ (Num.mul N__ (f_pi N__ F__) x)) 2%nat)))
      end
    else
    if (Num.leb N__ x (f_lit N__ F__ (1)%Z (10000)%Z 0x1.a36e2eb1c432dp-14%float)) then
      Ok (Num.div N__ (Num.ofZ N__ (1)%Z) (pw N__ x 2%nat))
    else
    if (Num.ltb N__ x (Num.ofZ N__ (5)%Z)) then
      match (trigamma_rec N__ F__ fuel__ (Num.add N__ (Num.ofZ N__ (1)%Z) x)) with
      | Err e__ => Err e__
      | Ok call4__ =>
          Ok (Num.add N__ call4__ (Num.div N__ (Num.ofZ N__ (1)%Z) (pw N__ x 2%nat)))
      end
    else
    let xpm1 := (Num.div N__ (Num.ofZ N__ (1)%Z) x) in
    let xpm2 := (Num.div N__ (Num.ofZ N__ (1)%Z) (pw N__ x 2%nat)) in
    Ok (Num.mul N__ xpm1 (Num.add N__ (Num.sub N__ (Num.add N__ (Num.sub N__ (Num.add N__ (Num.sub N__ (Num.add N__ (Num.add N__ (f_lit N__ F__ (1)%Z (1)%Z 0x1.0000000000000p+0%float) (Num.mul N__ (f_lit N__ F__ (5)%Z (10)%Z 0x1.0000000000000p-1%float) xpm1)) (Num.mul N__ (f_lit N__ F__ (166666666666666667)%Z (1000000000000000000)%Z 0x1.5555555555555p-3%float) xpm2)) (Num.mul N__ (f_lit N__ F__ (33333333333333333)%Z (1000000000000000000)%Z 0x1.1111111111111p-5%float) (pw N__ xpm2 2%nat))) (Num.mul N__ (f_lit N__ F__ (23809523809523808)%Z (1000000000000000000)%Z 0x1.8618618618618p-6%float) (pw N__ xpm2 3%nat))) (Num.mul N__ (f_lit N__ F__ (33333333333333333)%Z (1000000000000000000)%Z 0x1.1111111111111p-5%float) (pw N__ xpm2 4%nat))) (Num.mul N__ (f_lit N__ F__ (75757575757575756)%Z (1000000000000000000)%Z 0x1.364d9364d9365p-4%float) (pw N__ xpm2 5%nat))) (Num.mul N__ (f_lit N__ F__ (253113553113553102)%Z (1000000000000000000)%Z 0x1.0330330330330p-2%float) (pw N__ xpm2 6%nat))) (Num.mul N__ (f_lit N__ F__ (1166666666666666741)%Z (1000000000000000000)%Z 0x1.2aaaaaaaaaaabp+0%float) (pw N__ xpm2 7%nat))))
  end.
Definition trigamma (N__ : Num) (F__ : Fns N__) (x : T N__) : exc (T N__) := trigamma_rec N__ F__ fuel_rec x.

(** tsdate/hypergeo.py:115-116  [_betaln]   uses: lgamma *)
Definition betaln (N__ : Num) (F__ : Fns N__) (p : T N__) (q : T N__) : T N__ :=
  (Num.sub N__ (Num.add N__ (f_lgamma N__ F__ p) (f_lgamma N__ F__ q)) (f_lgamma N__ F__ (Num.add N__ p q))).

(** tsdate/hypergeo.py:120-144  [_hyperu_laplace]   uses: lit log sqrt *)
(*   hypergeo.py:130  assert b >= a > 0.0   ==> Err EAssert when false *)
(*   hypergeo.py:131  assert x > 0.0   ==> Err EAssert when false *)
Definition hyperu_laplace (N__ : Num) (F__ : Fns N__) (a : T N__) (b : T N__) (x : T N__) : exc (T N__ * T N__) :=
  if (andb (geb N__ b a) (gtb N__ a (f_lit N__ F__ (0)%Z (1)%Z 0%float))) then
    if (gtb N__ x (f_lit N__ F__ (0)%Z (1)%Z 0%float)) then
      let t := (Num.sub N__ (Num.sub N__ b x) (Num.ofZ N__ (1)%Z)) in
      let u := (Num.div N__ (Num.mul N__ (Num.ofZ N__ (2)%Z) a) (Num.sub N__ (f_sqrt N__ F__ (Num.add N__ (pw N__ t 2%nat) (Num.mul N__ (Num.mul N__ (Num.ofZ N__ (4)%Z) x) a))) t)) in
      let r := (Num.add N__ (Num.mul N__ (Num.sub N__ (Num.sub N__ b a) (Num.ofZ N__ (1)%Z)) (pw N__ u 2%nat)) (Num.mul N__ a (pw N__ (Num.add N__ (Num.ofZ N__ (1)%Z) u) 2%nat))) in
      let g := (Num.sub N__ (Num.sub N__ (Num.add N__ (Num.mul N__ (Num.sub N__ b a) (f_log N__ F__ (Num.add N__ (Num.ofZ N__ (1)%Z) u))) (Num.mul N__ a (Num.add N__ (Num.ofZ N__ (1)%Z) (f_log N__ F__ u)))) (Num.mul N__ x u)) (Num.mul N__ (f_log N__ F__ a) (Num.sub N__ a (Num.div N__ (Num.ofZ N__ (1)%Z) (Num.ofZ N__ (2)%Z))))) in
      let w := (Num.add N__ (Num.mul N__ (Num.sub N__ b (Num.ofZ N__ (1)%Z)) u) a) in
      let v := (Num.mul N__ u (Num.add N__ (Num.ofZ N__ (1)%Z) u)) in
      let dr := (Num.div N__ w (Num.add N__ (Num.mul N__ w u) (Num.mul N__ a (Num.add N__ (Num.ofZ N__ (1)%Z) u)))) in
      let dg := (Num.div N__ (Num.add N__ (Num.sub N__ w (Num.mul N__ x v)) u) v) in
      let du := (Num.div N__ (Num.mul N__ (Num.neg N__ u) v) (Num.add N__ (Num.sub N__ w (Num.mul N__ x u)) a)) in
      Ok ((Num.sub N__ g (Num.div N__ (f_log N__ F__ r) (Num.ofZ N__ (2)%Z))), (Num.sub N__ (Num.mul N__ (Num.sub N__ dg dr) du) u))
    else
    Err EAssert
  else
  Err EAssert.

(** tsdate/hypergeo.py:148-173  [_hyp1f1_laplace]   uses: lit log sqrt *)
(*   hypergeo.py:156  assert b > a > 0.0   ==> Err EAssert when false *)
Definition hyp1f1_laplace (N__ : Num) (F__ : Fns N__) (a : T N__) (b : T N__) (x : T N__) : exc (T N__) :=
  if (andb (gtb N__ b a) (gtb N__ a (f_lit N__ F__ (0)%Z (1)%Z 0%float))) then
    if (Num.eqb N__ x (f_lit N__ F__ (0)%Z (1)%Z 0%float)) then
      Ok (f_lit N__ F__ (0)%Z (1)%Z 0%float)
    else
    let t := (Num.sub N__ x b) in
    let u := (Num.div N__ (Num.mul N__ (Num.ofZ N__ (2)%Z) a) (Num.sub N__ (f_sqrt N__ F__ (Num.add N__ (pw N__ t 2%nat) (Num.mul N__ (Num.mul N__ (Num.ofZ N__ (4)%Z) x) a))) t)) in
    let r := (Num.add N__ (Num.div N__ (Num.mul N__ (pw N__ u 2%nat) b) a) (Num.div N__ (Num.mul N__ (pw N__ (Num.sub N__ (Num.ofZ N__ (1)%Z) u) 2%nat) b) (Num.sub N__ b a))) in
    let g := (Num.add N__ (Num.sub N__ (Num.sub N__ (Num.add N__ (Num.add N__ (Num.mul N__ (Num.sub N__ b a) (f_log N__ F__ (Num.sub N__ (Num.ofZ N__ (1)%Z) u))) (Num.mul N__ a (f_log N__ F__ u))) (Num.mul N__ b (f_log N__ F__ b))) (Num.mul N__ (Num.sub N__ b a) (f_log N__ F__ (Num.sub N__ b a)))) (Num.mul N__ a (f_log N__ F__ a))) (Num.mul N__ x u)) in
    Ok (Num.sub N__ g (Num.div N__ (f_log N__ F__ r) (Num.ofZ N__ (2)%Z)))
  else
  Err EAssert.

(** tsdate/hypergeo.py:177-245  [_hyp2f1_laplace]   uses: lgamma lit log sqrt *)
(*   hypergeo.py:195  assert np.isclose(x, 1.0)   ==> Err EAssert when false *)
(*   hypergeo.py:196  assert x < 1.0   ==> Err EAssert when false *)
(*   hypergeo.py:210  assert c > 0.0   ==> Err EAssert when false *)
(*   hypergeo.py:211  assert a >= 0.0   ==> Err EAssert when false *)
(*   hypergeo.py:212  assert b >= 0.0   ==> Err EAssert when false *)
(*   hypergeo.py:213  assert c >= a   ==> Err EAssert when false *)
(*   hypergeo.py:214  assert x < 1.0   ==> Err EAssert when false *)
(*   hypergeo.py:232  assert 0 < y < 1   ==> Err EAssert when false *)
Definition hyp2f1_laplace (N__ : Num) (F__ : Fns N__) (a : T N__) (b : T N__) (c : T N__) (x : T N__) : exc (T N__) :=
  let hyp2f1_unity__ := fun (a : T N__) (b : T N__) (c : T N__) (x : T N__) =>
      if (isclose N__ F__ x (f_lit N__ F__ (1)%Z (1)%Z 0x1.0000000000000p+0%float)) then
        if (Num.ltb N__ x (f_lit N__ F__ (1)%Z (1)%Z 0x1.0000000000000p+0%float)) then
          let g := (Num.sub N__ (Num.sub N__ c a) b) in
          if (Num.ltb N__ g (f_lit N__ F__ (0)%Z (1)%Z 0%float)) then
            Ok (Num.add N__ (Num.sub N__ (Num.sub N__ (Num.add N__ (f_lgamma N__ F__ c) (f_lgamma N__ F__ (Num.neg N__ g))) (f_lgamma N__ F__ a)) (f_lgamma N__ F__ b)) (Num.mul N__ g (f_log N__ F__ (Num.sub N__ (Num.ofZ N__ (1)%Z) x))))
          else
          if (gtb N__ g (f_lit N__ F__ (0)%Z (1)%Z 0%float)) then
            Ok (Num.sub N__ (Num.sub N__ (Num.add N__ (f_lgamma N__ F__ c) (f_lgamma N__ F__ g)) (f_lgamma N__ F__ (Num.sub N__ c a))) (f_lgamma N__ F__ (Num.sub N__ c b)))
          else
          Ok (Num.sub N__ (Num.sub N__ (Num.add N__ (f_log N__ F__ (Num.neg N__ (f_log N__ F__ (Num.sub N__ (Num.ofZ N__ (1)%Z) x)))) (f_lgamma N__ F__ (Num.add N__ a b))) (f_lgamma N__ F__ a)) (f_lgamma N__ F__ b))
        else
        Err EAssert
      else
      Err EAssert
  in
  if (gtb N__ c (f_lit N__ F__ (0)%Z (1)%Z 0%float)) then
    if (geb N__ a (f_lit N__ F__ (0)%Z (1)%Z 0%float)) then
      if (geb N__ b (f_lit N__ F__ (0)%Z (1)%Z 0%float)) then
        if (geb N__ c a) then
          if (Num.ltb N__ x (f_lit N__ F__ (1)%Z (1)%Z 0x1.0000000000000p+0%float)) then
            if (Num.eqb N__ x (f_lit N__ F__ (0)%Z (1)%Z 0%float)) then
              Ok (f_lit N__ F__ (0)%Z (1)%Z 0%float)
            else
            let s := (f_lit N__ F__ (0)%Z (1)%Z 0%float) in
            if (Num.ltb N__ x (f_lit N__ F__ (0)%Z (1)%Z 0%float)) then
              let s := (Num.mul N__ (Num.neg N__ b) (f_log N__ F__ (Num.sub N__ (Num.ofZ N__ (1)%Z) x))) in
              let a := (Num.sub N__ c a) in
              let x := (Num.div N__ x (Num.sub N__ x (Num.ofZ N__ (1)%Z))) in
              if (isclose N__ F__ x (f_lit N__ F__ (1)%Z (1)%Z 0x1.0000000000000p+0%float)) then
                match (hyp2f1_unity__ a b c x) with
                | Err e__ => Err e__
                | Ok call5__ =>
                    Ok (Num.add N__ s call5__)
                end
              else
              let t := (Num.sub N__ (Num.mul N__ x (Num.sub N__ b a)) c) in
              let u := (Num.sub N__ (f_sqrt N__ F__ (Num.sub N__ (pw N__ t 2%nat) (Num.mul N__ (Num.mul N__ (Num.mul N__ (Num.ofZ N__ (4)%Z) a) x) (Num.sub N__ c b)))) t) in
              let y := (Num.div N__ (Num.mul N__ (Num.ofZ N__ (2)%Z) a) u) in
              if (andb (Num.ltb N__ (Num.ofZ N__ (0)%Z) y) (Num.ltb N__ y (Num.ofZ N__ (1)%Z))) then
                let yy := (Num.div N__ (pw N__ y 2%nat) a) in
                let my := (Num.div N__ (pw N__ (Num.sub N__ (Num.ofZ N__ (1)%Z) y) 2%nat) (Num.sub N__ c a)) in
                let ymy := (Num.div N__ (Num.mul N__ (Num.mul N__ (Num.mul N__ (pw N__ x 2%nat) b) yy) my) (pw N__ (Num.sub N__ (Num.ofZ N__ (1)%Z) (Num.mul N__ x y)) 2%nat)) in
                let r := (Num.sub N__ (Num.add N__ yy my) ymy) in
                let f := (Num.sub N__ (Num.add N__ (Num.add N__ (Num.mul N__ (Num.sub N__ c (Num.div N__ (Num.ofZ N__ (1)%Z) (Num.ofZ N__ (2)%Z))) (f_log N__ F__ c)) (Num.mul N__ a (Num.sub N__ (f_log N__ F__ y) (f_log N__ F__ a)))) (Num.mul N__ (Num.sub N__ c a) (Num.sub N__ (f_log N__ F__ (Num.sub N__ (Num.ofZ N__ (1)%Z) y)) (f_log N__ F__ (Num.sub N__ c a))))) (Num.mul N__ b (f_log N__ F__ (Num.sub N__ (Num.ofZ N__ (1)%Z) (Num.mul N__ x y))))) in
                Ok (Num.add N__ (Num.sub N__ f (Num.div N__ (f_log N__ F__ r) (Num.ofZ N__ (2)%Z))) s)
              else
              Err EAssert
            else
            if (isclose N__ F__ x (f_lit N__ F__ (1)%Z (1)%Z 0x1.0000000000000p+0%float)) then
              match (hyp2f1_unity__ a b c x) with
              | Err e__ => Err e__
              | Ok call6__ =>
                  Ok (Num.add N__ s call6__)
              end
            else
            let t := (Num.sub N__ (Num.mul N__ x (Num.sub N__ b a)) c) in
            let u := (Num.sub N__ (f_sqrt N__ F__ (Num.sub N__ (pw N__ t 2%nat) (Num.mul N__ (Num.mul N__ (Num.mul N__ (Num.ofZ N__ (4)%Z) a) x) (Num.sub N__ c b)))) t) in
            let y := (Num.div N__ (Num.mul N__ (Num.ofZ N__ (2)%Z) a) u) in
            if (andb (Num.ltb N__ (Num.ofZ N__ (0)%Z) y) (Num.ltb N__ y (Num.ofZ N__ (1)%Z))) then
              let yy := (Num.div N__ (pw N__ y 2%nat) a) in
              let my := (Num.div N__ (pw N__ (Num.sub N__ (Num.ofZ N__ (1)%Z) y) 2%nat) (Num.sub N__ c a)) in
              let ymy := (Num.div N__ (Num.mul N__ (Num.mul N__ (Num.mul N__ (pw N__ x 2%nat) b) yy) my) (pw N__ (Num.sub N__ (Num.ofZ N__ (1)%Z) (Num.mul N__ x y)) 2%nat)) in
              let r := (Num.sub N__ (Num.add N__ yy my) ymy) in
              let f := (Num.sub N__ (Num.add N__ (Num.add N__ (Num.mul N__ (Num.sub N__ c (Num.div N__ (Num.ofZ N__ (1)%Z) (Num.ofZ N__ (2)%Z))) (f_log N__ F__ c)) (Num.mul N__ a (Num.sub N__ (f_log N__ F__ y) (f_log N__ F__ a)))) (Num.mul N__ (Num.sub N__ c a) (Num.sub N__ (f_log N__ F__ (Num.sub N__ (Num.ofZ N__ (1)%Z) y)) (f_log N__ F__ (Num.sub N__ c a))))) (Num.mul N__ b (f_log N__ F__ (Num.sub N__ (Num.ofZ N__ (1)%Z) (Num.mul N__ x y))))) in
              Ok (Num.add N__ (Num.sub N__ f (Num.div N__ (f_log N__ F__ r) (Num.ofZ N__ (2)%Z))) s)
            else
            Err EAssert
          else
          Err EAssert
        else
        Err EAssert
      else
      Err EAssert
    else
    Err EAssert
  else
  Err EAssert.

(** this module's functions packed into the record approx.py is written against
    (ApproxBase.HypFns); a change of a result type makes this definition ill-typed *)
Definition hypfns (N__ : Num) (F__ : Fns N__) : HypFns N__ :=
  {| h_digamma := digamma N__ F__;
     h_trigamma := trigamma N__ F__;
     h_betaln := betaln N__ F__;
     h_hyperu_laplace := hyperu_laplace N__ F__;
     h_hyp1f1_laplace := hyp1f1_laplace N__ F__;
     h_hyp2f1_laplace := hyp2f1_laplace N__ F__ |}.

