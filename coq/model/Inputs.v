(** * Reference semantics of the data that dating reads from a tree sequence
    (DESIGN.md C07 / C08): which edge a mutation sits on, per-edge mutation counts and
    per-edge mutational mass span * mu.  The input type IS the projection
    pi(ts) = (edges, mutation positions and nodes): metadata, allele states,
    populations, provenance and mutation-free sites do not occur in it.
    Polymorphic in [Num]: R for theorems, Q for evaluation. No proofs here. *)
From Coq Require Import List Arith Bool ZArith QArith.
From TsdateV Require Import lib.Num.
Import ListNotations.

Section Inputs.
  Variable N : Num.
  Notation T := (T N).

  Record edge := mkEdge { el : T; er : T; ep : nat; ec : nat }.

  (** [left <= x < right] *)
  Definition covers (e : edge) (x : T) : bool := leb N (el e) x && ltb N x (er e).

  (** index of the edge above node [u] at position [x] ([None]: above a root / isolated) *)
  Fixpoint find_edge (es : list edge) (i : nat) (x : T) (u : nat) : option nat :=
    match es with
    | [] => None
    | e :: r => if Nat.eqb (ec e) u && covers e x then Some i else find_edge r (S i) x u
    end.

  Definition mut_edges (es : list edge) (ms : list (T * nat)) : list (option nat) :=
    map (fun m => find_edge es 0 (fst m) (snd m)) ms.

  Definition count_edge (mes : list (option nat)) (i : nat) : nat :=
    length (filter (fun o => match o with Some j => Nat.eqb i j | None => false end) mes).

  (** per-edge (number of mutations, span * mu): variational.py's edge_likelihoods *)
  Definition edge_inputs (es : list edge) (ms : list (T * nat)) (mu : T) : list (nat * T) :=
    let mes := mut_edges es ms in
    map (fun ie : nat * edge => (count_edge mes (fst ie), mul N (sub N (er (snd ie)) (el (snd ie))) mu))
        (combine (seq 0 (length es)) es).

  (** the coordinate change of C07 *)
  Definition scale_edge (c : T) (e : edge) : edge := mkEdge (mul N c (el e)) (mul N c (er e)) (ep e) (ec e).
  Definition scale_mut (c : T) (m : T * nat) : T * nat := (mul N c (fst m), snd m).
End Inputs.

Arguments mkEdge {N}.
Arguments el {N}. Arguments er {N}. Arguments ep {N}. Arguments ec {N}.

(** front-end for evaluation on exact rationals with integer coordinates *)
Definition edge_inputs_Q (es : list (Z * Z * nat * nat)) (ms : list (Z * nat)) : list (option nat) * list (nat * Q) :=
  let es' := map (fun e : Z * Z * nat * nat => let '(l, r, p, c) := e in @mkEdge QNum (inject_Z l) (inject_Z r) p c) es in
  let ms' := map (fun m : Z * nat => (inject_Z (fst m), snd m)) ms in
  (mut_edges QNum es' ms', edge_inputs QNum es' ms' 1%Q).

(** A table collection as the dating code sees it: the projection [pi] plus everything
    the property C08 says must be ignored, lumped into opaque payloads. *)
Record raw_tables (N : Num) (Junk : Type) := mkRaw {
  rt_edges : list (edge N);
  rt_muts : list (T N * nat);          (* (site position, node) of each mutation *)
  rt_junk : Junk                       (* metadata, allele states, populations, provenance, mutation-free sites ... *)
}.
Arguments rt_edges {N Junk}. Arguments rt_muts {N Junk}. Arguments rt_junk {N Junk}.
Definition pi {N Junk} (tb : raw_tables N Junk) := (rt_edges tb, rt_muts tb).
Definition dating_inputs {N Junk} (tb : raw_tables N Junk) (mu : T N) :=
  (mut_edges N (rt_edges tb) (rt_muts tb), edge_inputs N (rt_edges tb) (rt_muts tb) mu).
