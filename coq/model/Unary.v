(** * Models of the two unary-node detectors and of the accept/reject decisions.

    - [contains_unary]  : util._contains_unary_nodes (util.py), the sweep with the [check] set;
    - [prior_unary]     : prior.has_locally_unary_nodes (prior.py), expressed over the
                          reference semantics: for every tree transition, the parents of the
                          edges going out / coming in, tested with the tree's child counts;
    - [vgamma_rejects] / [discrete_rejects] : ExpectationPropagation._check_valid_inputs and
                          SpansBySamples.__init__.
    No proofs in this file. *)
From Coq Require Import List ZArith Bool Arith.
From TsdateV Require Import lib.Tables model.Sweep.
Import ListNotations.
Open Scope Z_scope.

(** state: nodes_children, the [check] set of the current iteration (as a list), and the
    [return True] flag *)
Record un_state := mkUn { un_children : nat -> Z; un_check : list nat; un_found : bool }.

Section Unary.
  Variable es : list edge.
  Variable mask : nat -> bool.      (* nodes_mask *)

  (** <<  e = indexes_remove[b]; p = edges_parent[e]; nodes_children[p] -= 1; check.add(p)  >> *)
  Definition un_rmv (_ : Z) (e : nat) (s : un_state) : un_state :=
    let p := eparent (edge_at es e) in
    mkUn (upd (un_children s) p (un_children s p - 1)) (p :: un_check s) (un_found s).

  Definition un_ins (_ : Z) (e : nat) (s : un_state) : un_state :=
    let p := eparent (edge_at es e) in
    mkUn (upd (un_children s) p (un_children s p + 1)) (p :: un_check s) (un_found s).

  (** <<  for p in check: if not nodes_mask[p] and nodes_children[p] == 1: return True  >>
      then [check = set()] of the next iteration *)
  Definition un_after (_ _ : Z) (s : un_state) : un_state :=
    mkUn (un_children s) []
         (existsb (fun p => negb (mask p) && (un_children s p =? 1)) (un_check s)).

  Definition un_init : un_state := mkUn (fun _ => 0) [] false.

  Definition contains_unary (L : Z) (insq remq : list nat) : option bool :=
    match loop un_state (fun i => eleft (edge_at es i)) (fun i => eright (edge_at es i)) L
               un_rmv un_ins un_after un_found cond_std
               (sweep_fuel insq remq) 0 insq remq un_init with
    | None => None
    | Some s => Some (un_found s)
    end.
End Unary.

(** util.contains_unary_nodes(ts, skip_samples): the mask is the sample set or empty *)
Definition contains_unary_nodes (es : list edge) (is_sample : nat -> bool) (skip_samples : bool)
           (L : Z) (insq remq : list nat) : option bool :=
  contains_unary es (fun u => skip_samples && is_sample u) L insq remq.

(** prior.has_locally_unary_nodes:
    <<
    for tree, ediff in zip(ts.trees(), ts.edge_diffs()):
        changed = {e.parent for edges in (ediff.edges_out, ediff.edges_in) for e in edges}
        if (tree.num_children_array[list(changed)] == 1).any(): return True
    return False
    >>
    a tree starts at every distinct edge end point (and at 0); the edges out / in at the
    tree starting at [x] are those with right / left end [x]; [num_children_array] is
    [num_children es x] (computed row-wise as [num_children_l]). *)
Definition changed_parents (es : list edge) (x : Z) : list nat :=
  map eparent (filter (fun e => (eright e =? x) || (eleft e =? x)) es).

Definition tree_starts (es : list edge) : list Z := 0 :: map eleft es ++ map eright es.

Definition prior_unary (es : list edge) : bool :=
  existsb (fun x => existsb (fun p => num_children_l es x p =? 1) (changed_parents es x))
          (tree_starts es).

(** the accept/reject decisions *)
Definition vgamma_rejects (allow_unary : bool) (es : list edge) (is_sample : nat -> bool)
           (L : Z) (insq remq : list nat) : option bool :=
  if allow_unary then Some false
  else contains_unary_nodes es is_sample true L insq remq.

Definition discrete_rejects (allow_unary : bool) (es : list edge) : bool :=
  if allow_unary then false else prior_unary es.

(** reference detector by brute force over integer positions (executable differential
    reference, also the right-hand side of the theorems in decidable form) *)
Definition zrange0 (L : Z) : list Z := map Z.of_nat (seq 0 (Z.to_nat L)).
Definition ref_unary (es : list edge) (mask : nat -> bool) (num_nodes : nat) (L : Z) : bool :=
  existsb (fun x => existsb (fun u => negb (mask u) && (num_children_l es x u =? 1)) (seq 0 num_nodes))
          (zrange0 L).
