(** * Model of [tsdate.util._constrain_ages] (util.py, "_constrain_ages").

    Node times are a total function [nat -> T] (node id -> time); edges are a list of
    [(parent, child)] pairs in edge-table order.  No proofs in this file. *)
From Coq Require Import List Arith Bool.
From TsdateV Require Import lib.Num.
Import ListNotations.

Definition upd {A} (t : nat -> A) (u : nat) (v : A) : nat -> A :=
  fun w => if Nat.eqb w u then v else t w.

(** ** The forced pass, over any type with a boolean order and a "plus epsilon".
    <<
    for e in range(num_edges):
        p, c = edges_parent[e], edges_child[e]
        if nodes_time[c] + epsilon >= nodes_time[p]:
            nodes_time[p] = nodes_time[c] + epsilon
    >> *)
Section Forced.
  Variable T : Type.
  Variable leb : T -> T -> bool.
  Variable bump : T -> T.

  Definition fstep (t : nat -> T) (e : nat * nat) : nat -> T :=
    let '(p, c) := e in
    if leb (t p) (bump (t c)) then upd t p (bump (t c)) else t.

  Definition forced (es : list (nat * nat)) (t : nat -> T) : nat -> T :=
    fold_left fstep es t.
End Forced.

(** ** The least-squares phase and the whole kernel, over [Num]. *)
Section Constrain.
  Variable N : Num.
  Notation T := (T N).
  Variable eps : T.
  Variable fixed : nat -> bool.

  Definition two : T := add N (one N) (one N).

  (** state of the alternating-projection loop: times and per-edge cavities
      ([edges_cavity[e, 0]] for the child, [edges_cavity[e, 1]] for the parent) *)
  Definition lsstate : Type := (nat -> T) * (nat -> T * T).

  (** one edge of the inner loop; [None] models the failing
      [assert not (nodes_fixed[c] and nodes_fixed[p])] *)
  Definition ls_edge (st : lsstate) (ie : nat * (nat * nat)) : option lsstate :=
    let '(t, cav) := st in
    let '(e, (p, c)) := ie in
    let t1 := upd t c (sub N (t c) (fst (cav e))) in
    let t2 := upd t1 p (sub N (t1 p) (snd (cav e))) in
    let adj := sub N (t2 c) (t2 p) in
    if ltb N (zero N) adj then
      if fixed c && fixed p then None
      else
        let cv :=
          if negb (fixed c) && negb (fixed p) then (div N (neg N adj) two, div N adj two)
          else if fixed c && negb (fixed p) then (zero N, adj)
          else (neg N adj, zero N) in
        let t3 := upd t2 c (add N (t2 c) (fst cv)) in
        let t4 := upd t3 p (add N (t3 p) (snd cv)) in
        Some (t4, upd cav e cv)
    else
      let cv := (zero N, zero N) in
      let t3 := upd t2 c (add N (t2 c) (fst cv)) in
      let t4 := upd t3 p (add N (t3 p) (snd cv)) in
      Some (t4, upd cav e cv).

  Fixpoint ls_sweep (st : lsstate) (ies : list (nat * (nat * nat))) : option lsstate :=
    match ies with
    | [] => Some st
    | ie :: r => match ls_edge st ie with None => None | Some st' => ls_sweep st' r end
    end.

  (** [np.all(nodes_time[edges_parent] - nodes_time[edges_child] > epsilon)] *)
  Definition all_strict (es : list (nat * nat)) (t : nat -> T) : bool :=
    forallb (fun e : nat * nat => let '(p, c) := e in ltb N eps (sub N (t p) (t c))) es.

  Definition index {A} (l : list A) : list (nat * A) := combine (seq 0 (length l)) l.

  (** the [for _ in range(max_iterations)] loop.
      [inl t]  : early [return nodes_time] (the forced pass is skipped);
      [inr st] : fell through to the forced pass;  [None]: assertion failure. *)
  Fixpoint ls_loop (k : nat) (es : list (nat * nat)) (st : lsstate)
    : option ((nat -> T) + lsstate) :=
    match k with
    | O => Some (inr st)
    | S k' =>
        if all_strict es (fst st) then Some (inl (fst st))
        else match ls_sweep st (index es) with
             | None => None
             | Some st' => ls_loop k' es st'
             end
    end.

  Definition bumpN (x : T) : T := add N x eps.

  Definition st0 (t : nat -> T) : lsstate := (t, fun _ => (zero N, zero N)).

  Definition constrain (k : nat) (es : list (nat * nat)) (t : nat -> T) : option (nat -> T) :=
    match ls_loop k es (st0 t) with
    | None => None
    | Some (inl t') => Some t'
    | Some (inr st) => Some (forced T (leb N) bumpN es (fst st))
    end.
End Constrain.

(** list front-end used by the correspondence harness *)
Definition of_list {A} (d : A) (l : list A) : nat -> A := fun i => nth i l d.
Definition to_list {A} (n : nat) (f : nat -> A) : list A := map f (seq 0 n).

Definition constrain_list (N : Num) (eps : T N) (fixed : list bool) (k : nat)
  (es : list (nat * nat)) (t : list (T N)) : option (list (T N)) :=
  match constrain N eps (of_list false fixed) k es (of_list (zero N) t) with
  | None => None
  | Some t' => Some (to_list (length t) t')
  end.
