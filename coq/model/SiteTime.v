(** * Model of [tsdate.util.sites_time_from_ts], [nodes_time_unconstrained] and the
    combination step of [add_sampledata_times]  (util.py:221-358, property C31).

    A mutation is given by its node and the parent of that node in the tree at the site
    ([None] = the node is a root there); which node is the parent is tskit's business
    ([tree.parent]) and enters as data.  The per-site value starts as numpy's NaN, modelled
    as [None]; node ages are numbers of the instance ([R], [Q], binary64).  A NaN *age*
    can only occur in the float instance and is handled as the code does
    ([np.isnan(cur) or cur < age]); [isnan x] is [x != x].  The square root of the geometric
    mean is a parameter ([sqrtf]).  No proofs in this file. *)
From Coq Require Import List Bool.
From TsdateV Require Import lib.Num.
Import ListNotations.

Inductive selection := SelChild | SelParent | SelArithmetic | SelGeometric.

Section SiteTime.
  Variable N : Num.
  Notation T := (T N).
  Variable sqrtf : T -> T.

  Definition isnan (x : T) : bool := negb (eqb N x x).
  Definition two : T := add N (one N) (one N).

  (** util.py:317-327 *)
  Definition age (sel : selection) (t : nat -> T) (m : nat * option nat) : T :=
    let '(node, parent) := m in
    match sel, parent with
    | SelChild, _ | _, None => t node
    | SelParent, Some p => t p
    | SelArithmetic, Some p => div N (add N (t node) (t p)) two
    | SelGeometric, Some p => sqrtf (mul N (t node) (t p))
    end.

  (** util.py:328-329 : [if np.isnan(cur) or cur < age: cur = age] *)
  Definition step (cur : option T) (a : T) : option T :=
    match cur with
    | None => Some a
    | Some c => if isnan c || ltb N c a then Some a else Some c
    end.

  (** util.py:330-331 : [if cur < min_time: cur = min_time]  (NaN < x is false) *)
  Definition clamp (min_time : T) (cur : option T) : option T :=
    match cur with
    | None => None
    | Some c => if ltb N c min_time then Some min_time else Some c
    end.

  Definition site_time (sel : selection) (min_time : T) (t : nat -> T) (ms : list (nat * option nat))
    : option T :=
    clamp min_time (fold_left (fun cur m => step cur (age sel t m)) ms None).

  (** the whole function on a tree sequence with at least one site *)
  Definition sites_time (sel : selection) (min_time : T) (t : nat -> T)
             (sites : list (list (nat * option nat))) : option (list (option T)) :=
    match sites with
    | [] => None                       (* ValueError: no sites present *)
    | _ => Some (map (site_time sel min_time t) sites)
    end.

  (** util.py:221-239: samples keep their tree-sequence time, every other node takes the
      [mn] field of its metadata; [None] when a non-sample node has no such field *)
  Fixpoint unconstrained_list (times : list T) (is_sample : list bool) (mn : list (option T))
    : option (list T) :=
    match times, is_sample, mn with
    | [], _, _ => Some []
    | x :: xs, s :: ss, m :: ms =>
        match unconstrained_list xs ss ms with
        | None => None
        | Some r =>
            if s then Some (x :: r)
            else match m with Some v => Some (v :: r) | None => None end
        end
    | _, _, _ => None
    end.

  (** util.py:354 : [np.maximum(sites_time, sites_bound)]; NaN (no mutation) stays NaN *)
  Definition fmax (a b : T) : T := if isnan a then a else if isnan b then b else if ltb N a b then b else a.
  Definition sampledata_time (est : option T) (bound : T) : option T :=
    match est with None => None | Some e => Some (fmax e bound) end.
End SiteTime.

(** list front end for the harness *)
Definition nth_time (N : Num) (l : list (T N)) : nat -> T N := fun i => nth i l (zero N).
