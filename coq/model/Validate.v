(** * Model of the parameter-validation front end of [tsdate.core]
    ([date], [variational_gamma], [inside_outside], [maximization],
    [EstimationMethod.__init__], the [run] guards, [DiscreteTimeMethod.main_algorithm],
    [variational.ExpectationPropagation._check_valid_inputs], [parse_result]).

    The model is the *decision procedure*: given the parameters of a call and a few
    boolean facts about the tree sequence, which check fires first (exception class and
    which message), or do all checks pass ([Proceed]: the numerical algorithm starts).
    NaN and the infinities are explicit constructors, so nothing is true "because R is
    total".  No proofs in this file.

    Domain.  A numeric parameter is [None] or a [num] (bool, int, numpy integer, float).
    Strings / arbitrary objects in numeric positions (Python raises [TypeError] from the
    comparison) are not representable, on purpose.  "Passed as None" and "not passed" are
    identified; this is faithful for every keyword a wrapper names explicitly, and for the
    keywords routed through [ **kwargs ] as long as a keyword the chosen method does not
    accept is not passed explicitly as [None] (the harness never does). *)
From Coq Require Import List ZArith QArith Bool.
Import ListNotations.

(** ** Python numbers *)
Inductive xnum := XNaN | XPInf | XNInf | XFin (q : Q).

Inductive num :=
| NBool (b : bool)      (* bool, a subclass of int *)
| NInt (z : Z)          (* int *)
| NNpInt (z : Z)        (* numpy integer scalar: numeric, but not an instance of int *)
| NFloat (x : xnum).    (* float, or numpy.float64 (a subclass of float) *)

Definition num_val (n : num) : xnum :=
  match n with
  | NBool b => XFin (if b then 1 else 0)
  | NInt z | NNpInt z => XFin (inject_Z z)
  | NFloat x => x
  end.

(** [x > 0] (also [x > 0.0]): false for NaN *)
Definition gt0x (x : xnum) : bool :=
  match x with XFin q => negb (Qle_bool q 0) | XPInf => true | XNaN | XNInf => false end.
(** [x >= 0] *)
Definition ge0x (x : xnum) : bool :=
  match x with XFin q => Qle_bool 0 q | XPInf => true | XNaN | XNInf => false end.
Definition finitex (x : xnum) : bool := match x with XFin _ => true | _ => false end.

Definition gt0 (n : num) : bool := gt0x (num_val n).
Definition ge0 (n : num) : bool := ge0x (num_val n).
Definition finite (n : num) : bool := finitex (num_val n).
(** [isinstance(n, int)] *)
Definition is_int (n : num) : bool := match n with NBool _ | NInt _ => true | _ => false end.
(** [bool(x)] of an optional number: None, False, 0, 0.0 are falsy; NaN is truthy *)
Definition truthy (o : option num) : bool :=
  match o with
  | None => false
  | Some n => match num_val n with XFin q => negb (Qeq_bool q 0) | _ => true end
  end.
Definition given {A} (o : option A) : bool := match o with Some _ => true | None => false end.

(** ** Parameters *)
Inductive mname := MVariational | MInsideOutside | MMaximization | MUnknown.
(** [probability_space]: None, "linear", "logarithmic", anything else *)
Inductive pspace := PSNone | PSLin | PSLog | PSOther.
(** [population_size]: None, a number, a dict for [PopulationSizeHistory( **d )]
    ([PopDict ok]: [ok = false] when the constructor raises its ValueError, e.g. a
    non-positive size), or an already built [PopulationSizeHistory] object *)
Inductive popsize := PopNone | PopNum (n : num) | PopDict (ok : bool) | PopObj.

Record params := mkParams {
  p_method : option mname;                 (* date(method=...) ; None = default *)
  p_mutation_rate : option num;
  p_recombination_rate : option num;
  p_population_size : popsize;
  p_Ne : option num;                       (* deprecated alias, named only by the discrete wrappers *)
  p_priors : bool;                         (* a priors object is passed *)
  p_eps : option num;
  p_constr_iterations : option num;
  p_min_branch_length : option num;
  p_max_iterations : option num;           (* variational_gamma only *)
  p_max_shape : option num;                (* variational_gamma only; not validated by core.py *)
  p_probability_space : pspace;            (* discrete wrappers only *)
  p_num_threads : option num;              (* discrete wrappers only; not validated by core.py *)
  p_var_only : bool;                       (* some other variational-only keyword is passed with a non-None value:
                                              rescaling_intervals, rescaling_iterations, match_segregating_sites,
                                              regularise_roots, singletons_phased *)
  p_io_only : bool;                        (* an inside_outside-only keyword is passed with a non-None value:
                                              outside_standardize, ignore_oldest_root *)
  p_return_posteriors : bool;              (* deprecated return_posteriors passed (any non-None value) *)
  p_allow_unary : option num;
  p_return_fit : option num;
  p_return_likelihood : option num
}.

(** facts about the tree sequence that the front end looks at *)
Record tsfacts := mkFacts {
  f_nomut : bool;            (* ts.num_mutations == 0  (the MUTATION table is empty; the site table may well
                                be non-empty: bare sites, cleared mutations, simplify(filter_sites=False)) *)
  f_multitree : bool;        (* ts.num_trees > 1 *)
  f_contemporary : bool;     (* every sample node has time 0 *)
  f_unary : bool;            (* util.contains_unary_nodes(ts) *)
  f_prior_ts_err : bool      (* prior.MixturePrior(ts, ...) raises its ValueError
                                (not simplified, non-contemporaneous samples, unary nodes, ...) *)
}.

(** ** Outcomes *)
Inductive eclass := VE | NIE | TE.    (* ValueError, NotImplementedError, TypeError *)
Inductive tag :=
| T_method               (* "method must be one of" *)
| T_eps_variational      (* "The `eps` parameter has been disambiguated" *)
| T_no_mutations         (* "No mutations present" *)
| T_unexpected_kwarg     (* TypeError "got an unexpected keyword argument" *)
| T_return_posteriors    (* "The return_posteriors parameter has been deprecated" *)
| T_recombination        (* "Using the recombination clock is not currently supported" *)
| T_popsize_dict         (* ValueError raised by PopulationSizeHistory( **dict ) *)
| T_constr_iterations    (* "Number of constrained least squares iterations must be" *)
| T_min_branch_length    (* "Minimum branch length must be positive and finite" *)
| T_priors_unused        (* "Priors are not used for method" *)
| T_popsize_unused       (* "Population size is not used for method" *)
| T_popsize_required     (* "Must specify population size if priors are not already built" *)
| T_prior_ts             (* ValueError of prior.MixturePrior about the tree sequence *)
| T_popsize_nonpositive  (* "Population sizes must be greater than 0" *)
| T_popsize_infinite     (* "Population sizes must be finite" *)
| T_popsize_and_priors   (* "Cannot specify population size if specifying priors" *)
| T_ne_both              (* "Only provide one of Ne (deprecated) or population_size" *)
| T_max_iterations       (* "Maximum number of EP iterations must be greater than 0" *)
| T_variational_needs_rate  (* "Variational gamma method requires mutation rate" *)
| T_rate_positive        (* "Mutation rate must be positive" *)
| T_unary                (* "Tree sequence contains unary nodes, simplify first" *)
| T_topology_clock       (* NotImplementedError "Specifying no mutation or recombination rate" *)
| T_maximization_needs_rate (* "Outside maximization method requires mutation rate" *)
| T_samples_time0        (* NotImplementedError "Samples must all be at time 0" *)
| T_probability_space.   (* "Invalid discrete probability space" *)

Inductive outcome := Proceed | Reject (c : eclass) (t : tag).

(** first failing check wins *)
Definition andthen (o k : outcome) : outcome := match o with Proceed => k | r => r end.
Definition check (bad : bool) (c : eclass) (t : tag) : outcome := if bad then Reject c t else Proceed.
Infix ">>" := andthen (at level 61, left associativity).

Definition pop_given (pop : popsize) : bool := match pop with PopNone => false | _ => true end.

(** [EstimationMethod.__init__], core.py:77-198.  [variational] is
    [prior_grid_func_name is None]; [pop] is the population size after [Ne] aliasing. *)
Definition init_checks (variational : bool) (pop : popsize) (p : params) (f : tsfacts) : outcome :=
  (* 99-105 *) check (p_return_posteriors p) VE T_return_posteriors >>
  (* 118-122 *) check (given (p_recombination_rate p)) NIE T_recombination >>
  (* 124-126 *) check (match pop with PopDict false => true | _ => false end) VE T_popsize_dict >>
  (* 139-153 *) check (match p_constr_iterations p with
                       | None => false
                       | Some n => negb (is_int n && ge0 n) end) VE T_constr_iterations >>
  (* 155-160 : [not (x > 0.0 and np.isfinite(x))] *)
                check (match p_min_branch_length p with
                       | None => false
                       | Some n => negb (gt0 n && finite n) end) VE T_min_branch_length >>
  (* 164-194 *)
  (if variational then
     check (p_priors p) VE T_priors_unused >>
     check (pop_given pop) VE T_popsize_unused
   else if negb (p_priors p) then
     check (negb (pop_given pop)) VE T_popsize_required >>
     (* prior.prior_grid: MixturePrior(ts, ...) first, then make_discretised_prior ->
        demography.PopulationSizeHistory(number): demography.py:92-95 *)
     check (f_prior_ts_err f) VE T_prior_ts >>
     match pop with
     | PopNum n => check (negb (gt0 n)) VE T_popsize_nonpositive >>
                   check (negb (finite n)) VE T_popsize_infinite
     | _ => Proceed
     end
   else
     check (pop_given pop) VE T_popsize_and_priors).

(** [variational_gamma], core.py:752-853, then [VariationalGammaMethod.run] 463-480 and
    [ExpectationPropagation._check_valid_inputs] variational.py:247-252 *)
Definition variational_gamma (p : params) (f : tsfacts) : outcome :=
  (* 832-836 *) check (given (p_eps p)) VE T_eps_variational >>
  (* 837-840 *) check (f_nomut f) VE T_no_mutations >>
  (* 841-843: keywords that EstimationMethod.__init__ does not name *)
  check (given (p_Ne p) || negb (match p_probability_space p with PSNone => true | _ => false end)
         || given (p_num_threads p) || p_io_only p) TE T_unexpected_kwarg >>
  init_checks true (p_population_size p) p f >>
  (* 477-478 *) check (match p_max_iterations p with
                       | None => false            (* default 25 *)
                       | Some n => negb (gt0 n) end) VE T_max_iterations >>
  (* 479-480 *) check (negb (given (p_mutation_rate p))) VE T_variational_needs_rate >>
  (* variational.py:249 *) check (match p_mutation_rate p with
                                  | None => false
                                  | Some n => negb (gt0 n) end) VE T_rate_positive >>
  (* variational.py:251 *) check (negb (truthy (p_allow_unary p)) && f_unary f) VE T_unary.

(** Ne aliasing shared by the two discrete wrappers, core.py:597-601 / 723-727 *)
Definition alias_ne (p : params) : outcome * popsize :=
  match p_Ne p with
  | None => (Proceed, p_population_size p)
  | Some n => if pop_given (p_population_size p) then (Reject VE T_ne_both, PopNone)
              else (Proceed, PopNum n)
  end.

(** [DiscreteTimeMethod.main_algorithm], core.py:341-371 (default probability space
    is [LOG_GRID]); [get_fixed_nodes_set] 306-312 is evaluated for both grids *)
Definition main_algorithm (p : params) (f : tsfacts) : outcome :=
  match p_probability_space p with
  | PSOther => Reject VE T_probability_space
  | _ => check (negb (f_contemporary f)) NIE T_samples_time0
  end.

Definition inside_outside (p : params) (f : tsfacts) : outcome :=
  fst (alias_ne p) >>
  (* 736-742: keywords that EstimationMethod.__init__ does not name *)
  check (given (p_max_iterations p) || given (p_max_shape p) || p_var_only p) TE T_unexpected_kwarg >>
  init_checks false (snd (alias_ne p)) p f >>
  (* 386-394 ; recombination_rate is None here *)
  check (negb (given (p_mutation_rate p)) && f_multitree f) NIE T_topology_clock >>
  main_algorithm p f.

Definition maximization (p : params) (f : tsfacts) : outcome :=
  fst (alias_ne p) >>
  check (given (p_max_iterations p) || given (p_max_shape p) || p_var_only p || p_io_only p)
        TE T_unexpected_kwarg >>
  init_checks false (snd (alias_ne p)) p f >>
  (* 435-436 *) check (negb (given (p_mutation_rate p))) VE T_maximization_needs_rate >>
  main_algorithm p f.

(** [date], core.py:952-971 *)
Definition decide (p : params) (f : tsfacts) : outcome :=
  match p_method p with
  | None | Some MVariational => variational_gamma p f
  | Some MInsideOutside => inside_outside p f
  | Some MMaximization => maximization p f
  | Some MUnknown => Reject VE T_method
  end.

(** ** [parse_result], core.py:296-304 *)
Inductive ritem := RTreeSequence | RFit | RLikelihood.
(** [inl x]: a bare object is returned; [inr l]: a tuple *)
Definition parse_result (p : params) : ritem + list ritem :=
  let ret := [RTreeSequence]
             ++ (if truthy (p_return_fit p) then [RFit] else [])
             ++ (if truthy (p_return_likelihood p) then [RLikelihood] else []) in
  match ret with
  | [x] => inl x
  | l => inr l
  end.
