(** * An explicit computation of Kingman's coalescent on [n] tips (property C14).

    The reference the prior of tsdate is compared with.  No proofs in this file; all
    arithmetic is exact ([Q], reduced after every operation).

    Kingman's n-coalescent: start with [n] singleton blocks.  While [b >= 2] blocks
    remain, wait an exponential time with rate [b(b-1)/2], independent of everything
    else, then merge a pair of blocks chosen uniformly among the [b(b-1)/2] pairs.
    The block created by a merge is an internal node of the tree; its number of
    descendant tips is the block size and its age is the time of the merge.

    A state of the jump chain is the list of block sizes (kept sorted; every pair of
    blocks is equally likely to merge, so the sizes are all that matters).  [step]
    enumerates every pair of POSITIONS [(i, j)], [i < j], of the current state.

    "The age of a node with [k] of [n] descendant tips" is read as the node-averaged
    law: E[sum over nodes with k tips of f(age)] / E[number of nodes with k tips].
    If the merge from [a + 1] to [a] blocks creates a size-[k] block with probability
    [c(a, k)], the level [a] has weight [c(a,k) / sum_a' c(a',k)], and given the level
    the age is [sum_{i = a+1}^{n} E_i], [E_i] independent exponentials of rate
    [i(i-1)/2] (mean [2/(i(i-1))], variance the square of that). *)
From Coq Require Import List ZArith QArith Bool.
Import ListNotations.

Definition state := list Z.

Fixpoint insert_sorted (x : Z) (l : state) : state :=
  match l with
  | [] => [x]
  | y :: r => if (x <=? y)%Z then x :: l else y :: insert_sorted x r
  end.

Fixpoint remove_at {A} (i : nat) (l : list A) : list A :=
  match l, i with
  | [], _ => []
  | _ :: r, O => r
  | x :: r, S i' => x :: remove_at i' r
  end.

(** all pairs of positions (i, j), i < j < b *)
Definition pairs (b : nat) : list (nat * nat) :=
  flat_map (fun i => map (fun j => (i, j)) (seq (S i) (b - S i))) (seq 0 b).

(** merge the blocks at positions i < j: (size of the new block, new state) *)
Definition merge_at (s : state) (ij : nat * nat) : Z * state :=
  let '(i, j) := ij in
  let x := nth i s 0%Z in
  let y := nth j s 0%Z in
  let rest := remove_at i (remove_at j s) in
  ((x + y)%Z, insert_sorted (x + y)%Z rest).

Definition qadd (a b : Q) : Q := Qred (a + b).
Definition qmul (a b : Q) : Q := Qred (a * b).
Definition qdiv (a b : Q) : Q := Qred (a / b).
Definition qsub (a b : Q) : Q := Qred (a - b).

(** number of pairs of [b] blocks *)
Definition npairs (b : nat) : Q := inject_Z (Z.of_nat b * (Z.of_nat b - 1) / 2).

(** lexicographic order on states, for grouping equal states *)
Fixpoint state_leb (s1 s2 : state) : bool :=
  match s1, s2 with
  | [], _ => true
  | _ :: _, [] => false
  | x :: r1, y :: r2 => if (x <? y)%Z then true else if (y <? x)%Z then false else state_leb r1 r2
  end.
Fixpoint state_eqb (s1 s2 : state) : bool :=
  match s1, s2 with
  | [], [] => true
  | x :: r1, y :: r2 => (x =? y)%Z && state_eqb r1 r2
  | _, _ => false
  end.

(** A weighted state carries the NUMBER OF MERGE SEQUENCES (sequences of chosen
    position pairs) that lead to it.  Every sequence of [n - b] choices has the same
    probability [prod_{i = b+1}^{n} 1 / (i(i-1)/2)], so probabilities are counts divided
    by the total count. *)
Definition wstate := (state * Z)%type.

(** merge sort of weighted states (definitions as in Coq.Sorting.Mergesort) *)
Fixpoint wmerge (l1 l2 : list wstate) : list wstate :=
  let fix merge_aux l2 :=
    match l1, l2 with
    | [], _ => l2
    | _, [] => l1
    | a1 :: l1', a2 :: l2' =>
        if state_leb (fst a1) (fst a2) then a1 :: wmerge l1' l2 else a2 :: merge_aux l2'
    end
  in merge_aux l2.
Fixpoint merge_list_to_stack (stack : list (option (list wstate))) (l : list wstate) :=
  match stack with
  | [] => [Some l]
  | None :: stack' => Some l :: stack'
  | Some l' :: stack' => None :: merge_list_to_stack stack' (wmerge l' l)
  end.
Fixpoint merge_stack (stack : list (option (list wstate))) : list wstate :=
  match stack with
  | [] => []
  | None :: stack' => merge_stack stack'
  | Some l :: stack' => wmerge l (merge_stack stack')
  end.
Fixpoint iter_merge (stack : list (option (list wstate))) (l : list wstate) : list wstate :=
  match l with
  | [] => merge_stack stack
  | a :: l' => iter_merge (merge_list_to_stack stack [a]) l'
  end.
Definition wsort : list wstate -> list wstate := iter_merge [].

(** add up the counts of equal (adjacent after sorting) states *)
Fixpoint group (l : list wstate) : list wstate :=
  match l with
  | [] => []
  | (s, p) :: r =>
      match group r with
      | (s', p') :: g => if state_eqb s s' then (s, (p + p')%Z) :: g else (s, p) :: (s', p') :: g
      | [] => [(s, p)]
      end
  end.

(** one merge of the jump chain applied to the counted states with [b] blocks: every
    state, every pair of positions.  Returns (size of created block, new state, count). *)
Definition expand (b : nat) (d : list wstate) : list (Z * state * Z) :=
  flat_map (fun sp : wstate => map (fun ij => (merge_at (fst sp) ij, snd sp)) (pairs b)) d.

Definition regroup (ex : list (Z * state * Z)) : list wstate :=
  group (wsort (map (fun e : Z * state * Z => (snd (fst e), snd e)) ex)).

Fixpoint add_at (k : nat) (q : Z) (v : list Z) : list Z :=
  match v, k with
  | [], _ => []
  | x :: r, O => (x + q)%Z :: r
  | x :: r, S k' => x :: add_at k' q r
  end.

(** [created n ex]: for k = 0 .. n, the number of merge sequences whose last merge
    creates a block of size [k] *)
Definition created (n : nat) (ex : list (Z * state * Z)) : list Z :=
  fold_left (fun v (e : Z * state * Z) => add_at (Z.to_nat (fst (fst e))) (snd e) v)
            ex (repeat 0%Z (S n)).

Definition zsum (l : list Z) : Z := fold_left Z.add l 0%Z.

(** run the chain from [n] singletons; result: for each level [a] = n-1, n-2, .., 1
    (blocks remaining AFTER the merge) the probabilities [c(a, k)], k = 0 .. n, that
    this merge creates a block of size [k] (count / total count) *)
Fixpoint run (fuel b n : nat) (d : list wstate) : list (nat * list Q) :=
  match fuel with
  | O => []
  | S f =>
      if (b <? 2)%nat then []
      else let ex := expand b d in
           let cr := created n ex in
           let tot := zsum cr in
           ((b - 1)%nat, map (fun c => qdiv (inject_Z c) (inject_Z tot)) cr)
             :: run f (b - 1)%nat n (regroup ex)
  end.

Definition levels (n : nat) : list (nat * list Q) :=
  run n n n [(repeat 1%Z n, 1%Z)].

(** holding times: mean and variance of the time from [n] blocks down to [a] blocks *)
Definition hold_mean (n a : nat) : Q :=
  fold_left (fun s i => qadd s (qdiv 1 (npairs i))) (seq (S a) (n - a)) 0.
Definition hold_var (n a : nat) : Q :=
  fold_left (fun s i => qadd s (qmul (qdiv 1 (npairs i)) (qdiv 1 (npairs i)))) (seq (S a) (n - a)) 0.

(** node-averaged mean and variance of the age of a node with [k] of [n] tips *)
Definition moments_from (n : nat) (lv : list (nat * list Q)) (k : nat) : Q * Q :=
  let tot := fold_left (fun s al => qadd s (nth k (snd al) 0)) lv 0 in
  let m1 := fold_left (fun s al => qadd s (qmul (nth k (snd al) 0) (hold_mean n (fst al)))) lv 0 in
  let m2 := fold_left (fun s al =>
                qadd s (qmul (nth k (snd al) 0)
                   (qadd (hold_var n (fst al)) (qmul (hold_mean n (fst al)) (hold_mean n (fst al))))))
              lv 0 in
  let mean := qdiv m1 tot in
  (mean, qsub (qdiv m2 tot) (qmul mean mean)).

(** table indexed by k = 0 .. n (entries 0 and 1 are meaningless: no such node) *)
Definition kingman_table (n : nat) : list (Q * Q) :=
  let lv := levels n in map (moments_from n lv) (seq 0 (S n)).

Definition kingman_mean (n k : nat) : Q := fst (nth k (kingman_table n) (0, 0)).
Definition kingman_var (n k : nat) : Q := snd (nth k (kingman_table n) (0, 0)).
