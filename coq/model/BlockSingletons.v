(** * Model of [phasing._block_singletons] (phasing.py) and of the phase switch of
    [ExpectationPropagation.infer] (variational.py, "switched_edges").

    An unphased diploid individual [i] owns at most two current edges (the edges above its two
    nodes).  A *block* is opened when an edge of [i] is inserted while no block is open, and
    flushed when one of two present edges is removed; its span is measured from the last
    insertion.  Singletons are counted per individual between flushes.
    [-1] is tskit.NULL; [None] in [bs_pos] is the NaN of [individuals_position].
    No proofs in this file. *)
From Coq Require Import List ZArith Bool Arith.
From TsdateV Require Import lib.Tables model.Sweep.
Import ListNotations.
Open Scope Z_scope.

(** a flushed block: (blocks_order, (edge removed, other edge), blocks_singletons, blocks_span) *)
Record block := mkBlock { b_order : Z; b_e0 : Z; b_e1 : Z; b_count : Z; b_span : option Z }.

Record bs_state := mkBS {
  bs_edges  : nat -> Z * Z;       (* individuals_edges *)
  bs_pos    : nat -> option Z;    (* individuals_position (None = nan) *)
  bs_count  : nat -> Z;           (* individuals_singletons *)
  bs_block  : nat -> Z;           (* individuals_block *)
  bs_mblock : nat -> Z;           (* mutations_block *)
  bs_blocks : list block;         (* flushed blocks, in flush order *)
  bs_num    : Z;                  (* num_blocks *)
  bs_mq     : list nat;           (* indexes_mutation[d:] *)
  bs_err    : Z                   (* 0: fine; 1: an assertion failed *)
}.

Section Block.
  Variable es : list edge.
  Variable unphased : nat -> bool.     (* individuals_unphased *)
  Variable nind : nat -> Z.            (* nodes_individual *)
  Variable mpos : nat -> Z.            (* mutations_position *)
  Variable mnode : nat -> nat.         (* mutations_node *)

  (** [i != tskit.NULL and individuals_unphased[i]] *)
  Definition tracked (c : nat) : option nat :=
    let i := nind c in
    if i =? -1 then None else if unphased (Z.to_nat i) then Some (Z.to_nat i) else None.

  Definition fail_with (code : Z) (s : bs_state) : bs_state :=
    mkBS (bs_edges s) (bs_pos s) (bs_count s) (bs_block s) (bs_mblock s) (bs_blocks s)
         (bs_num s) (bs_mq s) (if bs_err s =? 0 then code else bs_err s).

  (** [individuals_block = np.full(num_individuals, tskit.NULL)] (since repair f3f9c6a; it used
      to be sized by num_edges): every individual id indexes it in bounds *)

  Definition bs_rmv (left : Z) (e : nat) (s : bs_state) : bs_state :=
    match tracked (echild (edge_at es e)) with
    | None => s
    | Some i =>
        let '(u, v) := bs_edges s i in
        let ez := Z.of_nat e in
        if negb ((u =? ez) || (v =? ez)) then fail_with 1 s     (* assert u == e or v == e *)
        else
          let sib := if v =? ez then u else v in
          let edges' := upd (bs_edges s) i (sib, -1) in
          if sib =? -1 then
            mkBS edges' (bs_pos s) (bs_count s) (bs_block s) (bs_mblock s) (bs_blocks s)
                 (bs_num s) (bs_mq s) (bs_err s)
          else                                         (* flush block *)
            let blk := mkBlock (bs_block s i) ez sib (bs_count s i)
                               (match bs_pos s i with Some p => Some (left - p) | None => None end) in
            mkBS edges' (upd (bs_pos s) i None) (upd (bs_count s) i 0) (upd (bs_block s) i (-1))
                 (bs_mblock s) (bs_blocks s ++ [blk]) (bs_num s) (bs_mq s) (bs_err s)
    end.

  Definition bs_ins (left : Z) (e : nat) (s : bs_state) : bs_state :=
    match tracked (echild (edge_at es e)) with
    | None => s
    | Some i =>
        let '(u, v) := bs_edges s i in
        if negb ((u =? -1) || (v =? -1)) then fail_with 1 s     (* assert u == NULL or v == NULL *)
        else
          let edges' := upd (bs_edges s) i (Z.of_nat e, Z.max u v) in
          let pos' := upd (bs_pos s) i (Some left) in
          if bs_block s i =? -1 then
            mkBS edges' pos' (bs_count s) (upd (bs_block s) i (bs_num s)) (bs_mblock s) (bs_blocks s)
                 (bs_num s + 1) (bs_mq s) (bs_err s)
          else
            mkBS edges' pos' (bs_count s) (bs_block s) (bs_mblock s) (bs_blocks s)
                 (bs_num s) (bs_mq s) (bs_err s)
    end.

  (** [while d < num_mutations and position_mutation[d] < right]; the mutation's node is used
      only through [nodes_individual] *)
  Fixpoint bs_muts (right : Z) (q : list nat) (s : bs_state) : bs_state :=
    match q with
    | m :: r =>
        if mpos m <? right then
          let s' := match tracked (mnode m) with
                    | None => s
                    | Some i =>
                        mkBS (bs_edges s) (bs_pos s) (upd (bs_count s) i (bs_count s i + 1)) (bs_block s)
                             (upd (bs_mblock s) m (bs_block s i)) (bs_blocks s) (bs_num s) (bs_mq s) (bs_err s)
                    end in
          bs_muts right r s'
        else mkBS (bs_edges s) (bs_pos s) (bs_count s) (bs_block s) (bs_mblock s) (bs_blocks s)
                  (bs_num s) q (bs_err s)
    | [] => mkBS (bs_edges s) (bs_pos s) (bs_count s) (bs_block s) (bs_mblock s) (bs_blocks s)
                 (bs_num s) [] (bs_err s)
    end.

  Definition bs_after (_ right : Z) (s : bs_state) : bs_state := bs_muts right (bs_mq s) s.

  Definition bs_init (num_mutations : nat) : bs_state :=
    mkBS (fun _ => (-1, -1)) (fun _ => None) (fun _ => 0) (fun _ => -1) (fun _ => -1) [] 0
         (argsort mpos num_mutations) 0.

  Definition bs_sweep (L : Z) (num_mutations : nat) (insq remq : list nat) : option bs_state :=
    loop bs_state (fun i => eleft (edge_at es i)) (fun i => eright (edge_at es i)) L
         bs_rmv bs_ins bs_after (fun s => negb (bs_err s =? 0)) cond_std
         (sweep_fuel insq remq) 0 insq remq (bs_init num_mutations).
End Block.

(** stable insertion sort of the flushed blocks by [blocks_order] ([np.argsort(blocks_order)]) *)
Fixpoint insert_block (b : block) (l : list block) : list block :=
  match l with
  | [] => [b]
  | k :: r => if b_order b <? b_order k then b :: l else k :: insert_block b r
  end.
Definition sort_blocks (l : list block) : list block := fold_right insert_block [] l.

(** the whole kernel.  [inl code]: the call raises (1 = AssertionError inside the sweep or at the
    final [assert num_blocks == blocks_edges.shape[0] == blocks_stats.shape[0]],     0 = out of fuel, which never happens on valid tables).
    [inr]: rows (singletons, span) of blocks_stats, rows of blocks_edges, mutations_block. *)
Definition block_singletons (es : list edge) (unphased : nat -> bool) (nind : nat -> Z)
           (mpos : nat -> Z) (mnode : nat -> nat) (L : Z) (num_mutations : nat)
           (insq remq : list nat) : Z + (list (Z * option Z) * list (Z * Z) * list Z) :=
  match bs_sweep es unphased nind mpos mnode L num_mutations insq remq with
  | None => inl 0
  | Some s =>
      if negb (bs_err s =? 0) then inl (bs_err s)
      else if negb (bs_num s =? Z.of_nat (length (bs_blocks s))) then inl 1
      else
        let bl := sort_blocks (bs_blocks s) in
        inr (map (fun b => (b_count b, b_span b)) bl, map (fun b => (b_e0 b, b_e1 b)) bl,
             to_list num_mutations (bs_mblock s))
  end.

Definition block_singletons_list (es : list edge) (unphased : list bool) (nind : list Z)
           (muts : list (Z * nat)) (L : Z) (insq remq : list nat) :=
  block_singletons es (of_list false unphased) (of_list (-1) nind)
                   (fun m => fst (nth m muts (0, O))) (fun m => snd (nth m muts (0, O)))
                   L (length muts) insq remq.

(** ** The phase switch of infer() (variational.py):
    <<
    singletons = self.mutation_blocks != tskit.NULL
    switched_blocks = self.mutation_blocks[singletons]
    switched_edges = np.where(self.mutation_phase[singletons] < 0.5,
                              self.block_edges[switched_blocks, 1], self.block_edges[switched_blocks, 0])
    self.mutation_edges[singletons] = switched_edges
    self.mutation_nodes[singletons] = self.edge_children[switched_edges]
    >>
    [lt_half m] is the recorded outcome of [mutation_phase[m] < 0.5] (the phases come out of
    the EP numerics, which are not part of this model). *)
Definition switch_edge (bedges : list (Z * Z)) (mblock : nat -> Z) (lt_half : nat -> bool)
           (medge : nat -> Z) (m : nat) : Z :=
  if mblock m =? -1 then medge m
  else let '(e0, e1) := nth (Z.to_nat (mblock m)) bedges (-1, -1) in
       if lt_half m then e1 else e0.

Definition switch_node (es : list edge) (bedges : list (Z * Z)) (mblock : nat -> Z)
           (lt_half : nat -> bool) (mnode : nat -> nat) (m : nat) : nat :=
  if mblock m =? -1 then mnode m
  else echild (edge_at es (Z.to_nat (switch_edge bedges mblock lt_half (fun _ => -1) m))).

(** ** Reference semantics of the blocks, per integer position (no sweep).
    [pair_at x i] : the two edges above the nodes of individual [i] at [x] (as a set). *)
Definition ind_edges_at (es : list edge) (nind : nat -> Z) (x : Z) (i : nat) : list nat :=
  filter (fun e => covers (edge_at es e) x && (nind (echild (edge_at es e)) =? Z.of_nat i)) (edge_ids es).

Definition same_pair (a b : list nat) : bool :=
  match a, b with
  | [a0; a1], [b0; b1] => (Nat.eqb a0 b0 && Nat.eqb a1 b1) || (Nat.eqb a0 b1 && Nat.eqb a1 b0)
  | _, _ => false
  end.

(** maximal runs of positions [x = a .. b-1] over which individual [i] has the same two edges:
    list of (left, right, edge pair) *)
Fixpoint ref_runs_from (es : list edge) (nind : nat -> Z) (i : nat) (xs : list Z)
         (cur : option (Z * list nat)) : list (Z * Z * list nat) :=
  match xs with
  | [] => []        (* the caller ends [xs] with a position no edge covers, closing the last run *)
  | x :: r =>
      let p := ind_edges_at es nind x i in
      match cur with
      | Some (a, q) =>
          if same_pair p q then ref_runs_from es nind i r cur
          else (a, x, q) :: ref_runs_from es nind i r (if Nat.eqb (length p) 2 then Some (x, p) else None)
      | None => ref_runs_from es nind i r (if Nat.eqb (length p) 2 then Some (x, p) else None)
      end
  end.

(** runs of individual [i] over [[0, L)]: a trailing position [L] (covered by no edge) closes
    the last run *)
Definition ref_runs (es : list edge) (nind : nat -> Z) (L : Z) (i : nat) : list (Z * Z * list nat) :=
  ref_runs_from es nind i (map Z.of_nat (seq 0 (S (Z.to_nat L)))) None.

(** reference blocks of individual [i]: (span, number of singletons inside, edge pair) *)
Definition ref_blocks (es : list edge) (nind : nat -> Z) (muts : list (Z * nat)) (L : Z) (i : nat)
  : list (Z * Z * list nat) :=
  map (fun r => let '(a, b, p) := r in
                (b - a,
                 Z.of_nat (length (filter (fun m => (a <=? fst m) && (fst m <? b) &&
                                                    (nind (snd m) =? Z.of_nat i)) muts)),
                 p))
      (ref_runs es nind L i).
