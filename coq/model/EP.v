(** * Model of the expectation-propagation bookkeeping of [tsdate.variational]
    ([_damp], [_rescale], [_rescale_factors], [_assemble_factors],
    [ExpectationPropagation.propagate_likelihood], [propagate_prior], [iterate],
    [node_moments], the edge traversal order of [__init__], and the phase switch of
    [infer]).

    Natural parameters of a gamma are pairs [(alpha, beta)] = (shape - 1, rate).
    The moment-matching projections ([approx.*_projection]) are NOT modelled here: they are
    an arbitrary, possibly stateful, oracle [project : Orc -> call -> option (V2 * V2 * Orc)]
    (a Section variable).  Two instances are used: a tape of recorded results (the
    correspondence with the implementation) and the closed-form conjugate update (C20).
    A Python [AssertionError]/[IndexError] is [None].  No proofs in this file. *)
From Coq Require Import List Arith Bool ZArith.
From TsdateV Require Import lib.Num.
Import ListNotations.

Definition updf {A} (t : nat -> A) (u : nat) (v : A) : nat -> A :=
  fun w => if Nat.eqb w u then v else t w.

Definition obind {A B} (x : option A) (f : A -> option B) : option B :=
  match x with None => None | Some a => f a end.

Section Vec.
  Variable N : Num.
  Notation T := (T N).
  Definition V2 : Type := (T * T)%type.
  Definition vzero : V2 := (zero N, zero N).
  Definition vadd (a b : V2) : V2 := (add N (fst a) (fst b), add N (snd a) (snd b)).
  Definition vsub (a b : V2) : V2 := (sub N (fst a) (fst b), sub N (snd a) (snd b)).
  Definition vscal (a : V2) (k : T) : V2 := (mul N (fst a) k, mul N (snd a) k).
  Definition vdiv (a : V2) (k : T) : V2 := (div N (fst a) k, div N (snd a) k).
  (** [np.all(x == 0.0)] *)
  Definition viszero (a : V2) : bool := eqb N (fst a) (zero N) && eqb N (snd a) (zero N).
  Definition nabs (x : T) : T := if ltb N x (zero N) then neg N x else x.
  Definition ofnat (n : nat) : T := ofZ N (Z.of_nat n).
  (** [np.mean] of a short vector: left-to-right sum divided by the length
      (numpy's pairwise summation is the plain loop below 8 elements) *)
  Definition nmean (l : list T) : T :=
    div N (fold_left (add N) l (zero N)) (ofnat (length l)).

  (** ** [_damp(x, y, s)]  (variational.py:158-178)
      <<
      if np.all(y == 0.0) and np.all(x == 0.0): return 1.0
      assert 0 < s < 1; assert 0.0 < x[0] + 1; assert 0.0 < x[1]
      a = 1.0 if (1 + x[0] - y[0] > (1 + x[0]) * s) else (1 - s) * (1 + x[0]) / y[0]
      b = 1.0 if (x[1] - y[1] > x[1] * s) else (1 - s) * x[1] / y[1]
      d = min(a, b); assert 0.0 < d <= 1.0
      >> *)
  Definition damp (x y : V2) (s : T) : option T :=
    if viszero y && viszero x then Some (one N) else
    if negb (ltb N (zero N) s && ltb N s (one N)) then None else
    if negb (ltb N (zero N) (add N (fst x) (one N))) then None else
    if negb (ltb N (zero N) (snd x)) then None else
    let x0 := fst x in let y0 := fst y in let x1 := snd x in let y1 := snd y in
    let a := if ltb N (mul N (add N (one N) x0) s) (sub N (add N (one N) x0) y0) then one N
             else div N (mul N (sub N (one N) s) (add N (one N) x0)) y0 in
    let b := if ltb N (mul N x1 s) (sub N x1 y1) then one N
             else div N (mul N (sub N (one N) s) x1) y1 in
    let d := if ltb N b a then b else a in
    if ltb N (zero N) d && leb N d (one N) then Some d else None.

  (** ** [_rescale(x, s)]  (variational.py:181-195)
      <<
      if np.all(x == 0.0): return 1.0
      assert 0 < x[0] + 1; assert 0 < x[1]
      if 1 + x[0] > s: return (s - 1) / x[0]
      elif 1 + x[0] < 1 / s: return (1 / s - 1) / x[0]
      return 1.0
      >> *)
  Definition rescale1 (x : V2) (s : T) : option T :=
    if viszero x then Some (one N) else
    if negb (ltb N (zero N) (add N (fst x) (one N))) then None else
    if negb (ltb N (zero N) (snd x)) then None else
    if ltb N s (add N (one N) (fst x)) then Some (div N (sub N s (one N)) (fst x))
    else if ltb N (add N (one N) (fst x)) (div N (one N) s)
         then Some (div N (sub N (div N (one N) s) (one N)) (fst x))
         else Some (one N).
End Vec.

Arguments vzero {N}. Arguments vadd {N}. Arguments vsub {N}. Arguments vscal {N}.
Arguments vdiv {N}. Arguments viszero {N}. Arguments nabs {N}. Arguments nmean {N}.
Arguments damp {N}. Arguments rescale1 {N}. Arguments ofnat {N}.

(** ** The EP state: [node_posterior], [factors.scale], [factors.edge], [factors.block],
    [factors.node]; factor rows are pairs (column 0, column 1) =
    (ROOTWARD, LEAFWARD) for edges and blocks, (MIXPRIOR, CONSTRNT) for nodes. *)
Record state (N : Num) := mkSt {
  post   : nat -> V2 N;
  scl    : nat -> T N;
  fedge  : nat -> V2 N * V2 N;
  fblock : nat -> V2 N * V2 N;
  fnode  : nat -> V2 N * V2 N
}.
Arguments mkSt {N}. Arguments post {N}. Arguments scl {N}. Arguments fedge {N}.
Arguments fblock {N}. Arguments fnode {N}.

(** one call of a projection: (kind, unphased, fixed age, parent cavity, child cavity,
    damped likelihood).  kind 0: parent fixed (leafward / sideways);  1: child fixed
    (rootward / sideways);  2: twin;  3: both free (gamma / unphased).  Unused slots are 0. *)
Definition call (N : Num) : Type := (nat * bool * T N * V2 N * V2 N * V2 N)%type.

Section EP.
  Variable N : Num.
  Notation T := (T N).
  Notation V2 := (V2 N).
  Notation state := (state N).

  (** constants: [TINY = sqrt(finfo.tiny)], [np.inf] *)
  Variable tiny infty : T.
  (** topology held by [EPFactors]: [_p, _c] (edges), [_j, _k] (blocks) *)
  Variable nE : nat.
  Variable ep ec : nat -> nat.
  Variable nB : nat.
  Variable bj bk : nat -> nat.
  Variable nN : nat.
  (** [node_constraints[:, LOWER]], [[:, UPPER]] *)
  Variable lo hi : nat -> T.
  (** the projection oracle *)
  Variable Orc : Type.
  Variable project : Orc -> call N -> option (V2 * V2 * Orc).

  Definition init : state :=
    mkSt (fun _ => vzero) (fun _ => one N) (fun _ => (vzero, vzero))
         (fun _ => (vzero, vzero)) (fun _ => (vzero, vzero)).

  (** [fixed = constraints[:, LOWER] == constraints[:, UPPER]] *)
  Definition fixedb (u : nat) : bool := eqb N (lo u) (hi u).

  (** ** [_rescale_factors]  (variational.py:124-138) *)
  Definition rescale_factors (st : state) : state :=
    mkSt (post st) (fun _ => one N)
      (fun i => let f := fedge st i in
                (vscal (fst f) (scl st (ep i)), vscal (snd f) (scl st (ec i))))
      (fun i => let f := fblock st i in
                (vscal (fst f) (scl st (bj i)), vscal (snd f) (scl st (bk i))))
      (fun u => let f := fnode st u in
                (vscal (fst f) (scl st u), vscal (snd f) (scl st u))).

  (** ** [_assemble_factors]  (variational.py:142-155): sum of all messages addressed to [u] *)
  Fixpoint vsum (n : nat) (f : nat -> V2) : V2 :=
    match n with O => vzero | S m => vadd (vsum m f) (f m) end.
  Definition contrib (par chi : nat -> nat) (fa : nat -> V2 * V2) (u i : nat) : V2 :=
    vadd (if Nat.eqb (par i) u then fst (fa i) else vzero)
         (if Nat.eqb (chi i) u then snd (fa i) else vzero).
  Definition assemble (st : state) (u : nat) : V2 :=
    vadd (vadd (vadd (vsum nE (contrib ep ec (fedge st) u))
                     (vsum nB (contrib bj bk (fblock st) u)))
               (fst (fnode st u))) (snd (fnode st u)).

  (** ** one message update (the pattern repeated in every branch of the loop body)
      <<
      factor[i, SIDE] *= 1.0 - delta
      factor[i, SIDE] += (posterior[u] - cavity) / scale[u]
      eta = posterior_damping(posterior[u]); posterior[u] *= eta; scale[u] *= eta
      >>
      [side = false] is column ROOTWARD, [true] is LEAFWARD; [new] is the projected posterior. *)
  Definition fget (unph : bool) (st : state) : nat -> V2 * V2 :=
    if unph then fblock st else fedge st.
  Definition fset (unph : bool) (st : state) (i : nat) (v : V2 * V2) : state :=
    if unph then mkSt (post st) (scl st) (fedge st) (updf (fblock st) i v) (fnode st)
    else mkSt (post st) (scl st) (updf (fedge st) i v) (fblock st) (fnode st).
  Definition side_get (side : bool) (f : V2 * V2) : V2 := if side then snd f else fst f.
  Definition side_set (side : bool) (f : V2 * V2) (v : V2) : V2 * V2 :=
    if side then (fst f, v) else (v, snd f).

  Definition apply_one (unph side : bool) (st : state) (i u : nat) (d : T) (cav new : V2)
      (eta : T) : state :=
    let f := fget unph st i in
    let m := vadd (vscal (side_get side f) (sub N (one N) d))
                  (vdiv (vsub new cav) (scl st u)) in
    let st1 := fset unph st i (side_set side f m) in
    mkSt (updf (post st1) u (vscal new eta)) (updf (scl st1) u (mul N (scl st1 u) eta))
         (fedge st1) (fblock st1) (fnode st1).

  (** ** loop body of [propagate_likelihood]  (variational.py:425-511) *)
  Section Lik.
    Variable unph : bool.
    Variable n : nat.                  (* number of rows of the factor array *)
    Variable par chi : nat -> nat.
    Variable lik : nat -> V2.          (* (mutation count, mutational span * rate) *)
    Variable maxshape minstep : T.

    Definition edge_step (so : state * Orc) (i : nat) : option (state * Orc) :=
      let '(st0, o) := so in
      if negb (Nat.ltb i n) then None else
      let p := par i in
      let c := chi i in
      let st := if ltb N (scl st0 p) tiny || ltb N (scl st0 c) tiny
                then rescale_factors st0 else st0 in
      if fixedb p && fixedb c then Some (st, o)
      else if fixedb p then
        (* child free: leafward_projection / sideways_projection *)
        let msg := vscal (snd (fget unph st i)) (scl st c) in
        obind (damp (post st c) msg minstep) (fun d =>
        let cav := vsub (post st c) (vscal msg d) in
        let el := vscal (lik i) d in
        obind (project o (0, unph, lo p, vzero, cav, el)) (fun r =>
        let '(_, newc, o') := r in
        obind (rescale1 newc maxshape) (fun eta =>
        Some (apply_one unph true st i c d cav newc eta, o'))))
      else if fixedb c then
        (* parent free: rootward_projection / sideways_projection *)
        let msg := vscal (fst (fget unph st i)) (scl st p) in
        obind (damp (post st p) msg minstep) (fun d =>
        let cav := vsub (post st p) (vscal msg d) in
        let el := vscal (lik i) d in
        obind (project o (1, unph, lo c, cav, vzero, el)) (fun r =>
        let '(newp, _, o') := r in
        obind (rescale1 newp maxshape) (fun eta =>
        Some (apply_one unph false st i p d cav newp eta, o'))))
      else if Nat.eqb p c then
        (* singleton block whose two edges have the same parent: twin_projection *)
        if negb unph then None else
        let msg := vscal (fst (fget unph st i)) (scl st p) in
        obind (damp (post st p) msg minstep) (fun d =>
        let cav := vsub (post st p) (vscal msg d) in
        let el := vscal (lik i) d in
        obind (project o (2, unph, zero N, cav, vzero, el)) (fun r =>
        let '(newp, _, o') := r in
        obind (rescale1 newp maxshape) (fun eta =>
        Some (apply_one unph false st i p d cav newp eta, o'))))
      else
        (* both free: gamma_projection / unphased_projection *)
        let pmsg := vscal (fst (fget unph st i)) (scl st p) in
        let cmsg := vscal (snd (fget unph st i)) (scl st c) in
        obind (damp (post st p) pmsg minstep) (fun dp =>
        obind (damp (post st c) cmsg minstep) (fun dc =>
        let d := if ltb N dc dp then dc else dp in
        let pcav := vsub (post st p) (vscal pmsg d) in
        let ccav := vsub (post st c) (vscal cmsg d) in
        let el := vscal (lik i) d in
        obind (project o (3, unph, zero N, pcav, ccav, el)) (fun r =>
        let '(newp, newc, o') := r in
        obind (rescale1 newp maxshape) (fun etap =>
        obind (rescale1 newc maxshape) (fun etac =>
        let st1 := apply_one unph false st i p d pcav newp etap in
        Some (apply_one unph true st1 i c d ccav newc etac, o')))))).

    Fixpoint edge_loop (order : list nat) (so : state * Orc) : option (state * Orc) :=
      match order with
      | [] => Some so
      | i :: r => obind (edge_step so i) (edge_loop r)
      end.

    (** the asserts at the top of [propagate_likelihood], then the loop *)
    Definition propagate_likelihood (order : list nat) (so : state * Orc) : option (state * Orc) :=
      if leb N (one N) maxshape && (ltb N (zero N) minstep && ltb N minstep (one N))
      then edge_loop order so else None.
  End Lik.

  (** ** [propagate_prior]  (variational.py:515-564) *)
  Section Prior.
    Variable free : nat -> bool.
    Variable maxshape : T.
    Variable em_maxitt : nat.
    Variable em_reltol : T.

    Definition free_nodes : list nat := filter free (seq 0 nN).

    (** [cavity = posterior - factor[:, MIXPRIOR] * scale[:, np.newaxis]] *)
    Definition prior_cavity (st : state) (u : nat) : V2 :=
      vsub (post st u) (vscal (fst (fnode st u)) (scl st u)).

    (** the EM loop fitting the exponential rate; [srs] = (shape, rate) of the free cavities *)
    Fixpoint em_loop (fuel itt : nat) (srs : list (T * T)) (delta pen : T) : T :=
      match fuel with
      | O => pen
      | S f =>
          if ltb N (mul N (nabs pen) em_reltol) (nabs delta) then
            if Nat.ltb em_maxitt itt then pen
            else
              let delta' :=
                sub N (div N (one N)
                         (nmean (map (fun sr => div N (fst sr) (add N (snd sr) pen)) srs))) pen in
              em_loop f (S itt) srs delta' (add N pen delta')
          else pen
      end.
    Definition em_penalty (srs : list (T * T)) : T :=
      let pen0 := div N (one N) (nmean (map (fun sr => div N (fst sr) (snd sr)) srs)) in
      em_loop (em_maxitt + 2) 0 srs infty pen0.

    (** vectorised part: [posterior[free, 1] = cavity[free, 1] + penalty] and
        [factor[free, MIXPRIOR] = (posterior[free] - cavity[free]) / scale[free]] *)
    Definition prior_set (cav : nat -> V2) (pen : T) (st : state) (u : nat) : state :=
      let newp := (fst (post st u), add N (snd (cav u)) pen) in
      let f := fnode st u in
      mkSt (updf (post st) u newp) (scl st) (fedge st) (fblock st)
           (updf (fnode st) u (vdiv (vsub newp (cav u)) (scl st u), snd f)).
    (** [eta = posterior_damping(posterior[i]); posterior[i] *= eta; scale[i] *= eta] *)
    Definition prior_cap (ost : option state) (u : nat) : option state :=
      obind ost (fun st =>
      obind (rescale1 (post st u) maxshape) (fun eta =>
      Some (mkSt (updf (post st) u (vscal (post st u) eta))
                 (updf (scl st) u (mul N (scl st u) eta))
                 (fedge st) (fblock st) (fnode st)))).

    (** update with a given penalty (what the bookkeeping theorems quantify over) *)
    Definition prior_update (pen : T) (st : state) : option state :=
      let cav := prior_cavity st in
      fold_left prior_cap free_nodes (Some (fold_left (prior_set cav pen) free_nodes st)).

    Definition propagate_prior (st : state) : option state :=
      if negb (leb N (one N) maxshape) then None else
      match free_nodes with
      | [] => Some st
      | _ =>
          let cav := prior_cavity st in
          let srs := map (fun u => (add N (fst (cav u)) (one N), snd (cav u))) free_nodes in
          let pen := em_penalty srs in
          if ltb N (zero N) pen then prior_update pen st else None
      end.
  End Prior.

  (** ** [iterate]  (variational.py:697-752) *)
  Section Iterate.
    Variable block_order edge_order : list nat.
    Variable blik elik : nat -> V2.
    Variable free : nat -> bool.           (* [unconstrained_roots] *)
    Variable maxshape minstep : T.
    Variable em_maxitt : nat.
    Variable em_reltol : T.
    Variable regularise : bool.

    Definition iterate (so : state * Orc) : option (state * Orc) :=
      obind (propagate_likelihood true nB bj bk blik maxshape minstep block_order so) (fun so1 =>
      obind (propagate_likelihood false nE ep ec elik maxshape minstep edge_order so1) (fun so2 =>
      obind (if regularise then propagate_prior free maxshape em_maxitt em_reltol (fst so2)
             else Some (fst so2)) (fun st3 =>
      Some (rescale_factors st3, snd so2)))).

    Fixpoint iterate_n (k : nat) (so : state * Orc) : option (state * Orc) :=
      match k with O => Some so | S k' => obind (iterate so) (iterate_n k') end.
  End Iterate.

  (** ** [node_moments]  (variational.py:920-928): (mean, variance) *)
  Definition node_moments (st : state) (u : nat) : T * T :=
    if negb (eqb N (lo u) (hi u)) then
      let mn := div N (add N (fst (post st u)) (one N)) (snd (post st u)) in
      (mn, div N mn (snd (post st u)))
    else (lo u, zero N).
End EP.

Arguments init {N}.

(** ** Traversal order and block nodes built by [__init__]  (variational.py:303-351)
    <<
    block_nodes[0] = edge_parents[block_edges[:, 0]]; block_nodes[1] = edge_parents[block_edges[:, 1]]
    edge_unphased[block_edges[:, 0]] = True; edge_unphased[block_edges[:, 1]] = True
    edges = np.arange(num_edges)[~edge_unphased]
    edge_order = np.concatenate((edges[:-1], np.flip(edges)))
    >> *)
Definition edge_unphased (block_edges : list (nat * nat)) (e : nat) : bool :=
  existsb (fun be : nat * nat => Nat.eqb (fst be) e || Nat.eqb (snd be) e) block_edges.
Definition mk_edge_order (nE : nat) (block_edges : list (nat * nat)) : list nat :=
  let edges := filter (fun e => negb (edge_unphased block_edges e)) (seq 0 nE) in
  removelast edges ++ rev edges.
Definition mk_block_nodes (ep : nat -> nat) (block_edges : list (nat * nat)) : list (nat * nat) :=
  map (fun be : nat * nat => (ep (fst be), ep (snd be))) block_edges.

(** ** The phase switch of [infer]  (variational.py:895-905) and the orientation of
    [rescale]  (variational.py:770-774), per singleton.
    [phase] is the fitted probability of the FIRST edge of the block. *)
Section Phase.
  Variable N : Num.
  Notation T := (T N).
  Variable half : T.
  (** [(edge the mutation is placed on, phase stored in mutation_phase)] *)
  Definition switch_edge (first second : nat) (phase : T) : nat :=
    if ltb N phase half then second else first.
  Definition switch_phase (phase : T) : T :=
    if ltb N phase half then sub N (one N) phase else phase.
  (** [rescale]: the value handed to [reallocate_unphased] *)
  Definition orient_phase (first placed : nat) (stored : T) : T :=
    if negb (Nat.eqb placed first) then sub N (one N) stored else stored.
End Phase.

(** ** List front-end and tape oracle used by the correspondence harness *)
Section Front.
  Variable N : Num.
  Notation T := (T N).
  Notation V2 := (V2 N).

  Definition nthf {A} (d : A) (l : list A) : nat -> A := fun i => nth i l d.

  Definition slists : Type :=
    (list V2 * list T * list (V2 * V2) * list (V2 * V2) * list (V2 * V2))%type.

  Definition st_of_lists (s : slists) : state N :=
    let '(po, sc, fe, fb, fn) := s in
    mkSt (nthf vzero po) (nthf (one N) sc) (nthf (vzero, vzero) fe)
         (nthf (vzero, vzero) fb) (nthf (vzero, vzero) fn).
  Definition st_to_lists (nN nE nB : nat) (st : state N) : slists :=
    (map (post st) (seq 0 nN), map (scl st) (seq 0 nN), map (fedge st) (seq 0 nE),
     map (fblock st) (seq 0 nB), map (fnode st) (seq 0 nN)).

  (** tape oracle: pops the recorded result, logs the arguments it was asked with *)
  Definition tapeO : Type := (list (V2 * V2) * list (call N))%type.
  Definition tape_project (o : tapeO) (c : call N) : option (V2 * V2 * tapeO) :=
    match fst o with
    | [] => None
    | r :: t => Some (fst r, snd r, (t, c :: snd o))
    end.

  (** run [k] iterations from the initial state; after every iteration the state goes
      through its list form (same values).  Result: states after each completed iteration,
      [true] iff no assertion fired, the projection calls made (in order), unused tape length *)
  Section Run.
    Variable tiny infty : T.
    Variable edges : list (nat * nat).             (* (parent, child) *)
    Variable block_edges : list (nat * nat).
    Variable constraints : list (T * T).
    Variable elik blik : list V2.
    Variable free : list bool.
    Variable maxshape minstep em_reltol : T.
    Variable em_maxitt : nat.
    Variable regularise : bool.

    Let nE := length edges.
    Let nB := length block_edges.
    Let nN := length constraints.
    Let ep := nthf 0%nat (map fst edges).
    Let ec := nthf 0%nat (map snd edges).
    Let bn := mk_block_nodes ep block_edges.
    Let bj := nthf 0%nat (map fst bn).
    Let bk := nthf 0%nat (map snd bn).
    Let lo := nthf (zero N) (map fst constraints).
    Let hi := nthf (zero N) (map snd constraints).

    Definition one_iter (so : state N * tapeO) : option (state N * tapeO) :=
      iterate N tiny infty nE ep ec nB bj bk nN lo hi tapeO tape_project
        (seq 0 nB) (mk_edge_order nE block_edges) (nthf vzero blik) (nthf vzero elik)
        (nthf false free) maxshape minstep em_maxitt em_reltol regularise so.

    Fixpoint run_iters (k : nat) (s : slists) (o : tapeO) (acc : list slists)
      : list slists * bool * list (call N) * nat :=
      match k with
      | O => (rev acc, true, rev (snd o), length (fst o))
      | S k' =>
          match one_iter (st_of_lists s, o) with
          | None => (rev acc, false, [], 0%nat)
          | Some (st', o') =>
              let s' := st_to_lists nN nE nB st' in
              run_iters k' s' o' (s' :: acc)
          end
      end.

    Definition run_tape (k : nat) (tape : list (V2 * V2)) :=
      run_iters k (st_to_lists nN nE nB init) (tape, []) [].
  End Run.
End Front.
