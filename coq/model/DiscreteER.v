(** * An IEEE-like extended real line as a [Num]: the carrier of the logarithmic
    probability space in theorems.  [-inf] is a value ([np.log(0)]), [+inf] and NaN exist so
    that no subtraction is totalised by a junk real: [-inf - -inf = NaN], [x - -inf = +inf].
    Comparisons with NaN are false, as in IEEE-754.  No proofs in this file. *)
From Coq Require Import Reals ZArith.
From TsdateV Require Import lib.Num model.Discrete.

Inductive ER : Type := ENaN | ENInf | EPInf | EFin (r : R).

Definition er_add (a b : ER) : ER :=
  match a, b with
  | ENaN, _ | _, ENaN => ENaN
  | EFin x, EFin y => EFin (x + y)
  | ENInf, EPInf | EPInf, ENInf => ENaN
  | ENInf, _ | _, ENInf => ENInf
  | EPInf, _ | _, EPInf => EPInf
  end.
Definition er_neg (a : ER) : ER :=
  match a with ENaN => ENaN | ENInf => EPInf | EPInf => ENInf | EFin x => EFin (- x) end.
Definition er_sub (a b : ER) : ER := er_add a (er_neg b).

(** sign of a real: inl true = positive, inl false = negative, inr = zero *)
Definition er_sign (x : R) : option bool :=
  if Rlt_dec 0 x then Some true else if Rlt_dec x 0 then Some false else None.
Definition er_inf (positive : bool) : ER := if positive then EPInf else ENInf.
Definition er_mul (a b : ER) : ER :=
  match a, b with
  | ENaN, _ | _, ENaN => ENaN
  | EFin x, EFin y => EFin (x * y)
  | EFin x, ENInf | ENInf, EFin x => match er_sign x with Some s => er_inf (negb s) | None => ENaN end
  | EFin x, EPInf | EPInf, EFin x => match er_sign x with Some s => er_inf s | None => ENaN end
  | ENInf, ENInf | EPInf, EPInf => EPInf
  | ENInf, EPInf | EPInf, ENInf => ENInf
  end.
(** division is not used by the logarithmic space; x/0 is NaN here (IEEE would need signed zeros) *)
Definition er_div (a b : ER) : ER :=
  match a, b with
  | EFin x, EFin y => if Req_EM_T y 0 then ENaN else EFin (x / y)
  | EFin _, ENInf | EFin _, EPInf => EFin 0
  | ENInf, EFin y | EPInf, EFin y =>
      match er_sign y with Some s => er_mul a (er_inf s) | None => ENaN end
  | _, _ => ENaN
  end.
Definition er_leb (a b : ER) : bool :=
  match a, b with
  | ENaN, _ | _, ENaN => false
  | ENInf, _ => true
  | _, EPInf => true
  | EFin x, EFin y => Rleb x y
  | _, _ => false
  end.
Definition er_eqb (a b : ER) : bool :=
  match a, b with
  | ENInf, ENInf | EPInf, EPInf => true
  | EFin x, EFin y => Reqb x y
  | _, _ => false
  end.
Definition er_ltb (a b : ER) : bool := er_leb a b && negb (er_eqb a b).

Definition ERNum : Num := {|
  T := ER; zero := EFin 0; one := EFin 1;
  add := er_add; sub := er_sub; mul := er_mul; div := er_div; neg := er_neg;
  ltb := er_ltb; leb := er_leb; eqb := er_eqb;
  ofZ := fun z => EFin (IZR z) |}.

(** [np.exp] and [np.log] on the extended line *)
Definition er_exp (a : ER) : ER :=
  match a with ENaN => ENaN | ENInf => EFin 0 | EPInf => EPInf | EFin x => EFin (exp x) end.
Definition er_log (a : ER) : ER :=
  match a with
  | ENaN | ENInf => ENaN
  | EPInf => EPInf
  | EFin x => if Rlt_dec 0 x then EFin (ln x) else if Req_EM_T x 0 then ENInf else ENaN
  end.

(** the logarithmic probability space of theorems *)
Definition LogER : Space := LogSpace ERNum ENInf er_exp er_log.
