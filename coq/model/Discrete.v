(** * Model of [tsdate/discrete.py] (Likelihoods, LogLikelihoods, BeliefPropagation)
    and of the parts of [tsdate/node_time_class.py] these use.  No proofs in this file.

    The algorithms are written ONCE over a record [Space] ("probability space": the
    operations that differ between [Likelihoods] and [LogLikelihoods]); the two spaces are
    built from a [Num] (so the same text runs on [R], [Q], an IEEE-like extended real and
    binary64 [PrimFloat]) plus the transcendental functions given as explicit parameters.

    The Poisson pmf is NOT modelled: edge likelihoods enter as a function
    [lik e i j] = pmf(mutations on edge e; (timepoints[i] - timepoints[j] + eps) * mu * span e)
    (theorems: abstract; correspondence: a table of scipy's values). *)
From Coq Require Import List Arith Bool PeanoNat.
From TsdateV Require Import lib.Num.
Import ListNotations.

(** ** Probability spaces (discrete.py:18-30 class attributes and 298-316, 352-353 / 356-489) *)
Record Space := mkSpace {
  S : Type;
  s_id : S;                   (* identity_constant *)
  s_null : S;                 (* null_constant *)
  s_comb : S -> S -> S;       (* combine *)
  s_ratio : S -> S -> S;      (* ratio, div_0_null=False *)
  s_isnan : S -> bool;        (* np.isnan *)
  s_rsum : list S -> S;       (* one segment of np.add.reduceat / logsumexp of a slice *)
  s_msum : list S -> S;       (* marginalize: np.sum / logsumexp *)
  s_geom : S -> S -> S;       (* scale_geometric fraction value *)
  s_max2 : S -> S -> S;       (* np.maximum (NaN-propagating) *)
  s_leb : S -> S -> bool;     (* <= of the stored numbers *)
  s_oflin : S -> S            (* NodeTimeValues.force_probability_space on a linear number *)
}.

Section Spaces.
  Variable N : Num.
  Notation T := (T N).

  Definition nisnan (x : T) : bool := negb (eqb N x x).
  (** [np.maximum(a, b)] = (a >= b || isnan a) ? a : b *)
  Definition nmax2 (a b : T) : T := if leb N b a then a else if nisnan a then a else b.

  (** [np.add.reduceat] on one segment of <= 8 doubles: a[i] + (a[i+1] + a[i+2] + ...)
      (measured: the first element is the accumulator, the rest goes through numpy's
      pairwise-sum kernel, which is a plain left-to-right loop below 8 elements) *)
  Definition lin_rsum (l : list T) : T :=
    match l with
    | [] => zero N
    | x :: r => match r with
                | [] => x
                | y :: r' => add N x (fold_left (add N) r' y)
                end
    end.
  (** [np.sum] of < 8 doubles: left to right *)
  Definition lin_msum (l : list T) : T := fold_left (add N) l (zero N).

  (** value ** fraction *)
  Variable powf : T -> T -> T.

  Definition LinSpace : Space := {|
    S := T; s_id := one N; s_null := zero N;
    s_comb := mul N; s_ratio := div N; s_isnan := nisnan;
    s_rsum := lin_rsum; s_msum := lin_msum;
    s_geom := fun f v => powf v f;
    s_max2 := nmax2; s_leb := leb N;
    s_oflin := fun x => x |}.

  (** log space *)
  Variable ninf : T.
  Variables expf logf : T -> T.

  (** discrete.py:370-383
      <<
      alpha = -np.inf; r = 0.0
      for x in X:
          if x != -np.inf:
              if x <= alpha: r += np.exp(x - alpha)
              else: r *= np.exp(alpha - x); r += 1.0; alpha = x
      return -np.inf if r == 0 else np.log(r) + alpha
      >> *)
  Definition lse_step (st : T * T) (x : T) : T * T :=
    let '(alpha, r) := st in
    if negb (eqb N x ninf) then
      if leb N x alpha then (alpha, add N r (expf (sub N x alpha)))
      else (x, add N (mul N r (expf (sub N alpha x))) (one N))
    else (alpha, r).
  Definition logsumexp (l : list T) : T :=
    let '(alpha, r) := fold_left lse_step l (ninf, zero N) in
    if eqb N r (zero N) then ninf else add N (logf r) alpha.

  Definition LogSpace : Space := {|
    S := T; s_id := zero N; s_null := ninf;
    s_comb := add N; s_ratio := sub N; s_isnan := nisnan;
    s_rsum := logsumexp; s_msum := logsumexp;
    s_geom := fun f v => mul N f v;
    s_max2 := nmax2; s_leb := leb N;
    s_oflin := logf |}.
End Spaces.

(** ** Generic list helpers *)
Definition updf {A} (t : nat -> A) (u : nat) (v : A) : nat -> A :=
  fun w => if Nat.eqb w u then v else t w.

(** an edge: (edge id, parent, child) *)
Definition edge : Type := nat * nat * nat.
Definition e_id (e : edge) : nat := fst (fst e).
Definition e_parent (e : edge) : nat := snd (fst e).
Definition e_child (e : edge) : nat := snd e.

(** [itertools.groupby(edges, key)] : maximal runs of consecutive equal keys *)
Fixpoint groupby_go (key : edge -> nat) (k : nat) (acc : list edge) (es : list edge)
  : list (nat * list edge) :=
  match es with
  | [] => [(k, rev acc)]
  | e :: r => if Nat.eqb (key e) k then groupby_go key k (e :: acc) r
              else (k, rev acc) :: groupby_go key (key e) [e] r
  end.
Definition groupby (key : edge -> nat) (es : list edge) : list (nat * list edge) :=
  match es with
  | [] => []
  | e :: r => groupby_go key (key e) [e] r
  end.

Section Algo.
  Variable P : Space.
  Notation S := (S P).
  Notation V := (list S).
  Variable G : nat.                         (* grid_size *)

  (** *** Index tables, discrete.py:65-91 *)
  Definition tri (n : nat) : nat := n * (n + 1) / 2.
  (** [(((n * (n + 1)) // 2) + t)[t:]] for n = arange(grid_size) *)
  Definition row_indices (t : nat) : list nat := map (fun n => tri n + t) (seq t (G - t)).
  (** running_sum loop: arr = arange(rs, rs + G - i); append arr[0]; rs = arr[-1] + 1 *)
  Fixpoint col_go (rs : nat) (is : list nat) : list nat :=
    match is with
    | [] => []
    | i :: r => rs :: col_go (rs + (G - i) - 1 + 1) r
    end.
  Definition col_indices : list nat := col_go 0 (seq 0 G).
  Definition to_lower_tri : list nat := concat (map (fun i => seq 0 (i + 1)) (seq 0 G)).
  Definition to_upper_tri : list nat := concat (map (fun i => seq i (G - i)) (seq 0 (G + 1))).

  (** fancy indexing [v[idx]] *)
  Definition take (v : V) (idx : list nat) : V := map (fun k => nth k v (s_null P)) idx.
  Definition make_lower_tri (v : V) : V := take v to_lower_tri.   (* discrete.py:262-267 *)
  Definition make_upper_tri (v : V) : V := take v to_upper_tri.   (* discrete.py:276-281 *)

  (** [np.add.reduceat(arr, idx)] (and the log-space loops, discrete.py:406-432, which
      slice in the same way): segment k is arr[idx[k]:idx[k+1]], the last runs to the end;
      numpy returns arr[idx[k]] when idx[k] >= idx[k+1]. *)
  Fixpoint reduceat (arr : V) (idx : list nat) : V :=
    match idx with
    | [] => []
    | i :: rest =>
        match rest with
        | [] => [s_rsum P (skipn i arr)]
        | j :: _ => (if Nat.ltb i j then s_rsum P (firstn (j - i) (skipn i arr))
                     else nth i arr (s_null P)) :: reduceat arr rest
        end
    end.
  Definition rowsum_lower_tri (arr : V) : V := reduceat arr (row_indices 0).  (* :269-274 *)
  Definition rowsum_upper_tri (arr : V) : V := reduceat arr col_indices.      (* :283-288 *)

  (** elementwise [a * b] / [a + b] of equal-length arrays *)
  Definition vcomb (a b : V) : V := map (fun xy => s_comb P (fst xy) (snd xy)) (combine a b).
  Definition vratio (a : V) (d : S) : V := map (fun x => s_ratio P x d) a.
  (** ratio(a, b, div_0_null=True), discrete.py:301-310 / 447-456 *)
  Definition ratio0 (x y : S) : S :=
    let r := s_ratio P x y in if s_isnan P r then s_null P else r.
  Definition vratio0 (a b : V) : V := map (fun xy => ratio0 (fst xy) (snd xy)) (combine a b).
  (** [np.max] *)
  Definition npmax (l : V) : S :=
    match l with [] => s_null P | x :: r => fold_left (s_max2 P) r x end.
  (** [np.argmax]: first maximum; the first NaN wins *)
  Fixpoint argmax_go (mp : S) (idx i : nat) (l : V) : nat :=
    match l with
    | [] => idx
    | x :: r => if s_leb P x mp then argmax_go mp idx (i + 1) r
                else if s_isnan P x then i else argmax_go x i (i + 1) r
    end.
  Definition argmax (l : V) : nat :=
    match l with
    | [] => 0
    | x :: r => if s_isnan P x then 0 else argmax_go x 0 1 r
    end.

  (** *** Data of one run *)
  Variable lik : nat -> nat -> nat -> S.   (* edge id, parent grid index i, child grid index j <= i *)
  Variable sfrac : nat -> S.               (* edge id -> edge.span / spans[child] *)
  Variable fixed : nat -> bool.            (* node in fixednodes *)
  Variable prior : nat -> V.               (* priors[node] (already in this probability space) *)

  (** flattened lower-triangular likelihoods: the pmf applied to [timediff_lower_tri]
      (discrete.py:57-62: row i holds timepoints[i] - timepoints[0..i] + eps) *)
  Definition ll_lower (e : nat) : V :=
    concat (map (fun i => map (fun j => lik e i j) (seq 0 (i + 1))) (seq 0 G)).
  (** pmf applied to [timediff] = timepoints - timepoints[0] + eps (discrete.py:63, 203-227) *)
  Definition ll_fixed (e : nat) : V := map (fun i => lik e i 0) (seq 0 G).
  (** get_mut_lik_upper_tri, discrete.py:248-254 *)
  Definition ll_upper (e : nat) : V := take (ll_lower e) (concat (map row_indices (seq 0 G))).

  (** get_inside / get_outside / get_fixed (discrete.py:328-350, 464-486):
      [liks = identity_constant; liks *= ll; return rowsum(arr * liks)] *)
  Definition liks (ll : V) : V := map (s_comb P (s_id P)) ll.
  Definition get_inside (arr : V) (e : nat) : V := rowsum_lower_tri (vcomb arr (liks (ll_lower e))).
  Definition get_outside (arr : V) (e : nat) : V := rowsum_upper_tri (vcomb arr (liks (ll_upper e))).
  Definition get_fixed (x : S) (e : nat) : V := map (s_comb P x) (liks (ll_fixed e)).

  (** *** inside_pass, discrete.py:589-659 *)
  (** the message of one edge to its parent, given the inside values so far;
      [None] = "dangling nodes" ValueError (child not visited yet) *)
  Definition edge_msg (ins : nat -> option V) (e : edge) : option V :=
    if fixed (e_child e) then
      Some (get_fixed (s_geom P (sfrac (e_id e)) (s_id P)) (e_id e))
    else match ins (e_child e) with
         | None => None
         | Some iv => Some (get_inside (map (s_geom P (sfrac (e_id e))) (make_lower_tri iv)) (e_id e))
         end.

  Record istate := mkI {
    i_ins : nat -> option V;       (* inside[node]; None = still NaN *)
    i_den : nat -> option S;       (* denominator[node]; None = still NaN *)
    i_marg : S;                    (* marginal_lik accumulated so far *)
    i_gi : nat -> option V         (* g_i[edge id] before the final division (cache_inside) *)
  }.

  Fixpoint inside_edges (ins : nat -> option V) (gi : nat -> option V) (val : V) (es : list edge)
    : option (V * (nat -> option V)) :=
    match es with
    | [] => Some (val, gi)
    | e :: r => match edge_msg ins e with
                | None => None
                | Some m => inside_edges ins (updf gi (e_id e) (Some m)) (vcomb val m) r
                end
    end.

  Definition inside_group (standardize : bool) (st : istate) (g : nat * list edge) : option istate :=
    let '(p, es) := g in
    if fixed p then Some st
    else match inside_edges (i_ins st) (i_gi st) (prior p) es with
         | None => None
         | Some (val, gi) =>
             let den := if standardize then npmax val else s_id P in
             Some (mkI (updf (i_ins st) p (Some (vratio val den)))
                       (updf (i_den st) p (Some den))
                       (if standardize then s_comb P (i_marg st) den else i_marg st)
                       gi)
         end.

  Fixpoint inside_groups (standardize : bool) (st : istate) (gs : list (nat * list edge)) : option istate :=
    match gs with
    | [] => Some st
    | g :: r => match inside_group standardize st g with
                | None => None
                | Some st' => inside_groups standardize st' r
                end
    end.

  (** marginal likelihood: for root, span_when_root in root_spans.items() *)
  Fixpoint marg_roots (ins : nat -> option V) (m : S) (roots : list (nat * S)) : option S :=
    match roots with
    | [] => Some m
    | (r, f) :: rest => match ins r with
                        | None => None
                        | Some iv => marg_roots ins (s_comb P m (s_msum P (map (s_geom P f) iv))) rest
                        end
    end.

  Definition istate0 : istate := mkI (fun _ => None) (fun _ => None) (s_id P) (fun _ => None).

  (** [es]: ts.edges() in table order; [roots]: root_spans as (root, span_when_root/spans[root]).
      Result: (final state, returned marginal likelihood) *)
  Definition inside_pass (standardize : bool) (es : list edge) (roots : list (nat * S))
    : option (istate * S) :=
    match inside_groups standardize istate0 (groupby e_parent es) with
    | None => None
    | Some st => match marg_roots (i_ins st) (i_marg st) roots with
                 | None => None
                 | Some m => Some (st, m)
                 end
    end.

  (** *** outside_pass, discrete.py:661-740 *)
  Section Outside.
    Variable st : istate.               (* result of inside_pass *)
    Variable cache_inside : bool.       (* was g_i cached? *)
    Variable standardize : bool.
    Variable ignore_oldest_root : bool.
    Variable num_nodes : nat.

    (** g_i of an edge: cached ([ratio(g_i, denominator[edges_child])], discrete.py:650) or
        recomputed (discrete.py:711-716); the same expression either way *)
    Definition g_i (e : edge) : option V :=
      match i_den st (e_child e) with
      | None => None
      | Some d =>
          if cache_inside then
            match i_gi st (e_id e) with None => None | Some m => Some (vratio m d) end
          else
            match i_ins st (e_child e) with
            | None => None
            | Some iv => Some (vratio (get_inside (map (s_geom P (sfrac (e_id e))) (make_lower_tri iv)) (e_id e)) d)
            end
      end.

    Definition out_edge (out : nat -> option V) (e : edge) : option V :=
      match i_ins st (e_parent e), out (e_parent e), g_i e with
      | Some ip, Some op, Some g =>
          let inside_div_gi := vratio0 ip g in
          let pv := map (s_geom P (sfrac (e_id e))) (make_upper_tri (vcomb op inside_div_gi)) in
          let pv := if standardize then vratio pv (npmax pv) else pv in
          Some (get_outside pv (e_id e))
      | _, _, _ => None
      end.

    Fixpoint out_edges (out : nat -> option V) (val : V) (es : list edge) : option V :=
      match es with
      | [] => Some val
      | e :: r =>
          if ignore_oldest_root && Nat.eqb (e_parent e) (num_nodes - 1) then out_edges out val r
          else if fixed (e_parent e) then None       (* RuntimeError: fixed nodes cannot be parents *)
          else match out_edge out e with
               | None => None
               | Some m => out_edges out (vcomb val m) r
               end
      end.

    Definition out_group (out : nat -> option V) (g : nat * list edge) : option (nat -> option V) :=
      let '(c, es) := g in
      if fixed c then Some out
      else match out_edges out (repeat (s_id P) G) es, i_den st c with
           | Some val, Some d =>
               (* assert self.denominator[edge.child] > self.lik.null_constant *)
               if s_leb P d (s_null P) || s_isnan P d then None
               else Some (updf out c (Some (if standardize then vratio val (npmax val) else vratio val d)))
           | _, _ => None
           end.

    Fixpoint out_groups (out : nat -> option V) (gs : list (nat * list edge)) : option (nat -> option V) :=
      match gs with
      | [] => Some out
      | g :: r => match out_group out g with None => None | Some o => out_groups o r end
      end.

    (** outside = zeros (linear), roots set to span_when_root/spans[root], then forced into
        the probability space (discrete.py:682-685) *)
    Variable zero_lin : S.
    Definition out0 (roots : list (nat * S)) (nonfixed : list nat) : nat -> option V :=
      fun u => if existsb (Nat.eqb u) nonfixed then
                 match find (fun rf => Nat.eqb (fst rf) u) roots with
                 | Some rf => Some (repeat (s_oflin P (snd rf)) G)
                 | None => Some (repeat (s_oflin P zero_lin) G)
                 end
               else None.

    (** [es]: edges in the order of [edges_by_child_desc] *)
    Definition outside_pass (es : list edge) (roots : list (nat * S)) (nonfixed : list nat)
      : option (nat -> option V) :=
      out_groups (out0 roots nonfixed) (groupby e_child es).

    (** posterior_grid = combine(inside, outside), discrete.py:737-740 *)
    Definition posterior_grid (out : nat -> option V) (u : nat) : option V :=
      match i_ins st u, out u with
      | Some a, Some b => Some (vcomb a b)
      | _, _ => None
      end.
  End Outside.

  (** *** outside_maximization, discrete.py:763-838 *)
  Section Maxim.
    Variable ins : nat -> option V.          (* self.inside *)
    (** [pois e pidx t] = poisson(mut_edges[e], (timepoints[pidx] - timepoints[t] + eps) * mu * span e) *)
    Variable pois : nat -> nat -> nat -> S.

    Definition ll_mut (e pidx ypi : nat) : V := map (pois e pidx) (seq 0 (ypi + 1)).

    Definition max_step (mx : nat -> nat) (acc : nat * V) (e : edge) : nat * V :=
      let '(ypi, result) := acc in
      let cur := mx (e_parent e) in
      let ypi' := if Nat.ltb cur ypi then cur else ypi in
      let ll := ll_mut (e_id e) cur ypi' in
      let sl := firstn (ypi' + 1) ll in
      (ypi', vcomb (vratio sl (npmax sl)) (firstn (ypi' + 1) result) ++ skipn (ypi' + 1) result).

    Definition max_group (mx : nat -> nat) (g : nat * list edge) : option (nat -> nat) :=
      let '(c, es) := g in
      if fixed c then Some mx
      else match es with
           | [] => Some mx
           | e0 :: rest =>
               let ypi0 := mx (e_parent e0) in
               let ll0 := ll_mut (e_id e0) ypi0 ypi0 in
               let '(ypi, result) := fold_left (max_step mx) rest (ypi0, vratio ll0 (npmax ll0)) in
               match ins c with
               | None => None
               | Some iv => Some (updf mx c (argmax (vcomb (firstn (ypi + 1) result) (firstn (ypi + 1) iv))))
               end
           end.

    Fixpoint max_groups (mx : nat -> nat) (gs : list (nat * list edge)) : option (nat -> nat) :=
      match gs with
      | [] => Some mx
      | g :: r => match max_group mx g with None => None | Some m => max_groups m r end
      end.

    (** [mrcas]: nodes that are never a child; non-fixed ones take argmax(inside) *)
    Fixpoint max_roots (mx : nat -> nat) (rs : list nat) : option (nat -> nat) :=
      match rs with
      | [] => Some mx
      | r :: rest => if fixed r then max_roots mx rest
                     else match ins r with
                          | None => None
                          | Some iv => max_roots (updf mx r (argmax iv)) rest
                          end
      end.

    Definition mrcas (num_nodes : nat) (es : list edge) : list nat :=
      filter (fun u => negb (existsb (fun e => Nat.eqb (e_child e) u) es)) (seq 0 num_nodes).

    (** [es]: edges in the order of [edges_by_child_then_parent_desc] *)
    Definition outside_maximization (num_nodes : nat) (es : list edge) : option (nat -> nat) :=
      match max_roots (fun _ => 0) (mrcas num_nodes es) with
      | None => None
      | Some mx => max_groups mx (groupby e_child es)
      end.

    (** posterior_mean = timepoints[maximized_node_times] *)
    Definition posterior_mean (timepoints : V) (num_nodes : nat) (mx : nat -> nat) : V :=
      map (fun u => nth (mx u) timepoints (s_null P)) (seq 0 num_nodes).
  End Maxim.
End Algo.

(** ** Order conditions on the edge sequences (executable; run on every generated input) *)
(** inside pass: groups have distinct parents, and every non-fixed child of a group has
    its own group earlier *)
Fixpoint inside_orderb (fixed : nat -> bool) (seen : list nat) (gs : list (nat * list edge)) : bool :=
  match gs with
  | [] => true
  | (p, es) :: r =>
      negb (existsb (Nat.eqb p) seen)
      && forallb (fun e => fixed (e_child e) || existsb (Nat.eqb (e_child e)) seen) es
      && inside_orderb fixed (if fixed p then seen else p :: seen) r
  end.

(** outside pass / maximization: groups have distinct children; every parent of a group has
    been given its value before: it is the child of an earlier group, or it is the child of
    no group at all ([allc] = the children of all groups) *)
Fixpoint outside_orderb (allc seen : list nat) (gs : list (nat * list edge)) : bool :=
  match gs with
  | [] => true
  | (c, es) :: r =>
      negb (existsb (Nat.eqb c) seen)
      && forallb (fun e => negb (Nat.eqb (e_parent e) c)
                           && (existsb (Nat.eqb (e_parent e)) seen
                               || negb (existsb (Nat.eqb (e_parent e)) allc))) es
      && outside_orderb allc (c :: seen) r
  end.

(** ** list front-ends used by the correspondence harness *)
Definition vec_of_list {A} (l : list (list A)) : nat -> list A := fun i => nth i l [].
Definition tab3 {A} (d : A) (tbl : list (list (list A))) : nat -> nat -> nat -> A :=
  fun e i j => nth j (nth i (nth e tbl []) []) d.
Definition dump {A} (n : nat) (f : nat -> option A) : list (option A) := map f (seq 0 n).
