(* FROZEN copy of the translator's output for tsdate/approx.py (tools/translate.py --freeze).
   gen/GenEq*.v proves, by reflexivity, that the text regenerated on every check is convertible
   with this one; source sha256 at freeze time b7ebea57d7f4456fea6a6684ad1a64e5d4059b7b3770129d2e28b5ffea113b04 *)
From Coq Require Import ZArith PrimFloat.
From TsdateV Require Import lib.Num model.ApproxBase.

(** tsdate/approx.py:75-89  [approximate_log_moments]   uses: lit log *)
(*   approx.py:84  assert mean > 0   ==> Err EAssert when false *)
(*   approx.py:85  assert variance > 0   ==> Err EAssert when false *)
Definition approximate_log_moments (N__ : Num) (F__ : Fns N__) (H__ : HypFns N__) (mean : T N__) (variance : T N__) : exc (T N__ * T N__ * T N__) :=
  if (gtb N__ mean (Num.ofZ N__ (0)%Z)) then
    if (gtb N__ variance (Num.ofZ N__ (0)%Z)) then
      let logx := (Num.sub N__ (f_log N__ F__ mean) (Num.div N__ (Num.mul N__ (f_lit N__ F__ (5)%Z (10)%Z 0x1.0000000000000p-1%float) variance) (pw N__ mean 2%nat))) in
      let xlogx := (Num.add N__ (Num.mul N__ mean (f_log N__ F__ mean)) (Num.div N__ (Num.mul N__ (f_lit N__ F__ (5)%Z (10)%Z 0x1.0000000000000p-1%float) variance) mean)) in
      let logx2 := (Num.add N__ (pw N__ (f_log N__ F__ mean) 2%nat) (Num.div N__ (Num.mul N__ (Num.sub N__ (Num.ofZ N__ (1)%Z) (f_log N__ F__ mean)) variance) (pw N__ mean 2%nat))) in
      Ok (logx, xlogx, logx2)
    else
    Err EAssert
  else
  Err EAssert.

(** tsdate/approx.py:93-127  [approximate_gamma_kl]   uses: H isfinite isinf lit log *)
Definition approximate_gamma_kl (N__ : Num) (F__ : Fns N__) (H__ : HypFns N__) (x : T N__) (logx : T N__) : exc (T N__ * T N__) :=
  if (orb (Num.leb N__ x (f_lit N__ F__ (0)%Z (1)%Z 0%float)) (f_isinf N__ F__ logx)) then
    Err EKLFail
  else
  if (negb (gtb N__ (f_log N__ F__ x) logx)) then
    Err EKLFail
  else
  let alpha := (Num.div N__ (f_lit N__ F__ (5)%Z (10)%Z 0x1.0000000000000p-1%float) (Num.sub N__ (f_log N__ F__ x) logx)) in
  if (Num.ltb N__ (Num.div N__ (f_lit N__ F__ (1)%Z (1)%Z 0x1.0000000000000p+0%float) alpha) (f_lit N__ F__ (1)%Z (10000)%Z 0x1.a36e2eb1c432dp-14%float)) then
    Ok ((Num.sub N__ alpha (f_lit N__ F__ (1)%Z (1)%Z 0x1.0000000000000p+0%float)), (Num.div N__ alpha x))
  else
  let itt := (Num.ofZ N__ (0)%Z) in
  if (orb (f_isfinite N__ F__ (Num.mul N__ (absN N__ alpha) (f_lit N__ F__ (1)%Z (67108864)%Z 0x1.0000000000000p-26%float))) (andb (f_isinf N__ F__ (Num.mul N__ (absN N__ alpha) (f_lit N__ F__ (1)%Z (67108864)%Z 0x1.0000000000000p-26%float))) (Num.ltb N__ (Num.mul N__ (absN N__ alpha) (f_lit N__ F__ (1)%Z (67108864)%Z 0x1.0000000000000p-26%float)) (Num.zero N__)))) then
    if (gtb N__ itt (Num.ofZ N__ (100)%Z)) then
      Err EKLFail
    else
    match ((h_digamma N__ H__) alpha) with
    | Err e__ => Err e__
    | Ok call1__ =>
        let delta := (Num.sub N__ (Num.add N__ (Num.sub N__ call1__ (f_log N__ F__ alpha)) (f_log N__ F__ x)) logx) in
        match ((h_trigamma N__ H__) alpha) with
        | Err e__ => Err e__
        | Ok call2__ =>
            let delta := (Num.div N__ delta (Num.sub N__ call2__ (Num.div N__ (Num.ofZ N__ (1)%Z) alpha))) in
            let alpha := (Num.sub N__ alpha delta) in
            let itt := (Num.add N__ itt (Num.ofZ N__ (1)%Z)) in
            let loop3__ := fix loop3__ (fuel__ : nat) (delta : T N__) (alpha : T N__) (itt : T N__) {struct fuel__} : exc (T N__ * T N__ * T N__) :=
                match fuel__ with O => Err EFuel | S fuel__ =>
                  if (gtb N__ (absN N__ delta) (Num.mul N__ (absN N__ alpha) (f_lit N__ F__ (1)%Z (67108864)%Z 0x1.0000000000000p-26%float))) then
                    if (gtb N__ itt (Num.ofZ N__ (100)%Z)) then
                      Err EKLFail
                    else
                    match ((h_digamma N__ H__) alpha) with
                    | Err e__ => Err e__
                    | Ok call4__ =>
                        let delta := (Num.sub N__ (Num.add N__ (Num.sub N__ call4__ (f_log N__ F__ alpha)) (f_log N__ F__ x)) logx) in
                        match ((h_trigamma N__ H__) alpha) with
                        | Err e__ => Err e__
                        | Ok call5__ =>
                            let delta := (Num.div N__ delta (Num.sub N__ call5__ (Num.div N__ (Num.ofZ N__ (1)%Z) alpha))) in
                            let alpha := (Num.sub N__ alpha delta) in
                            let itt := (Num.add N__ itt (Num.ofZ N__ (1)%Z)) in
                            loop3__ fuel__ delta alpha itt
                        end
                    end
                  else
                  Ok (delta, alpha, itt)
                end in
            match loop3__ fuel_loop delta alpha itt with
            | Err e__ => Err e__
            | Ok (delta, alpha, itt) =>
                if (orb (negb (f_isfinite N__ F__ alpha)) (Num.leb N__ alpha (Num.ofZ N__ (0)%Z))) then
                  Err EKLFail
                else
                Ok ((Num.sub N__ alpha (f_lit N__ F__ (1)%Z (1)%Z 0x1.0000000000000p+0%float)), (Num.div N__ alpha x))
            end
        end
    end
  else
  if (orb (negb (f_isfinite N__ F__ alpha)) (Num.leb N__ alpha (Num.ofZ N__ (0)%Z))) then
    Err EKLFail
  else
  Ok ((Num.sub N__ alpha (f_lit N__ F__ (1)%Z (1)%Z 0x1.0000000000000p+0%float)), (Num.div N__ alpha x)).

(** tsdate/approx.py:131-140  [approximate_gamma_mom]   uses: lit *)
Definition approximate_gamma_mom (N__ : Num) (F__ : Fns N__) (H__ : HypFns N__) (mean : T N__) (variance : T N__) : exc (T N__ * T N__) :=
  if (negb (andb (gtb N__ mean (f_lit N__ F__ (0)%Z (1)%Z 0%float)) (gtb N__ variance (f_lit N__ F__ (0)%Z (1)%Z 0%float)))) then
    Err EKLFail
  else
  let shape := (Num.div N__ (pw N__ mean 2%nat) variance) in
  let rate := (Num.div N__ mean variance) in
  Ok ((Num.sub N__ shape (f_lit N__ F__ (1)%Z (1)%Z 0x1.0000000000000p+0%float)), rate).

(** tsdate/approx.py:144-185  [approximate_gamma_iqr]   uses: E exp isfinite isinf lgamma lit log *)
Definition approximate_gamma_iqr (N__ : Num) (F__ : Fns N__) (H__ : HypFns N__) (E__ : ExtFns N__) (q1 : T N__) (q2 : T N__) (x1 : T N__) (x2 : T N__) (max_shape : T N__) : exc (T N__ * T N__) :=
  let upper_bound__ := fun (q : T N__) (x : T N__) =>
      let beta := (Num.div N__ ((e_gammainc_inv N__ E__) max_shape q) x) in
      ((Num.sub N__ max_shape (Num.ofZ N__ (1)%Z)), beta)
  in
  if (Num.eqb N__ x2 x1) then
    Ok (upper_bound__ q1 x1)
  else
  if (negb (andb (gtb N__ q2 q1) (gtb N__ x2 x1))) then
    Err EKLFail
  else
  let alpha := (Num.div N__ (f_log N__ F__ (Num.div N__ q2 q1)) (f_log N__ F__ (Num.div N__ x2 x1))) in
  if (gtb N__ alpha max_shape) then
    Ok (upper_bound__ q1 x1)
  else
  let itt := (Num.ofZ N__ (0)%Z) in
  if (orb (f_isfinite N__ F__ (Num.mul N__ (absN N__ alpha) (f_lit N__ F__ (1)%Z (67108864)%Z 0x1.0000000000000p-26%float))) (andb (f_isinf N__ F__ (Num.mul N__ (absN N__ alpha) (f_lit N__ F__ (1)%Z (67108864)%Z 0x1.0000000000000p-26%float))) (Num.ltb N__ (Num.mul N__ (absN N__ alpha) (f_lit N__ F__ (1)%Z (67108864)%Z 0x1.0000000000000p-26%float)) (Num.zero N__)))) then
    if (gtb N__ itt (Num.ofZ N__ (100)%Z)) then
      Err EKLFail
    else
    let y1 := ((e_gammainc_inv N__ E__) alpha q1) in
    let y2 := ((e_gammainc_inv N__ E__) alpha q2) in
    let obj := (Num.sub N__ (Num.div N__ y2 y1) (Num.div N__ x2 x1)) in
    let inv_1 := (Num.neg N__ (f_exp N__ F__ (Num.add N__ (Num.add N__ y1 (Num.mul N__ (f_log N__ F__ y1) (Num.sub N__ (Num.ofZ N__ (1)%Z) alpha))) (f_lgamma N__ F__ alpha)))) in
    let inv_2 := (Num.neg N__ (f_exp N__ F__ (Num.add N__ (Num.add N__ y2 (Num.mul N__ (f_log N__ F__ y2) (Num.sub N__ (Num.ofZ N__ (1)%Z) alpha))) (f_lgamma N__ F__ alpha)))) in
    match ((e_gammainc_der N__ E__) alpha y1) with
    | Err e__ => Err e__
    | Ok call6__ =>
        let gra_1 := (Num.mul N__ call6__ inv_1) in
        match ((e_gammainc_der N__ E__) alpha y2) with
        | Err e__ => Err e__
        | Ok call7__ =>
            let gra_2 := (Num.mul N__ call7__ inv_2) in
            let gra := (Num.div N__ (Num.sub N__ (Num.mul N__ gra_2 y1) (Num.mul N__ gra_1 y2)) (pw N__ y1 2%nat)) in
            let delta := (Num.div N__ (Num.neg N__ obj) gra) in
            let alpha := (Num.add N__ alpha delta) in
            let itt := (Num.add N__ itt (Num.ofZ N__ (1)%Z)) in
            let loop8__ := fix loop8__ (fuel__ : nat) (delta : T N__) (alpha : T N__) (itt : T N__) {struct fuel__} : exc (T N__ * T N__ * T N__) :=
                match fuel__ with O => Err EFuel | S fuel__ =>
                  if (gtb N__ (absN N__ delta) (Num.mul N__ (absN N__ alpha) (f_lit N__ F__ (1)%Z (67108864)%Z 0x1.0000000000000p-26%float))) then
                    if (gtb N__ itt (Num.ofZ N__ (100)%Z)) then
                      Err EKLFail
                    else
                    let y1 := ((e_gammainc_inv N__ E__) alpha q1) in
                    let y2 := ((e_gammainc_inv N__ E__) alpha q2) in
                    let obj := (Num.sub N__ (Num.div N__ y2 y1) (Num.div N__ x2 x1)) in
                    let inv_1 := (Num.neg N__ (f_exp N__ F__ (Num.add N__ (Num.add N__ y1 (Num.mul N__ (f_log N__ F__ y1) (Num.sub N__ (Num.ofZ N__ (1)%Z) alpha))) (f_lgamma N__ F__ alpha)))) in
                    let inv_2 := (Num.neg N__ (f_exp N__ F__ (Num.add N__ (Num.add N__ y2 (Num.mul N__ (f_log N__ F__ y2) (Num.sub N__ (Num.ofZ N__ (1)%Z) alpha))) (f_lgamma N__ F__ alpha)))) in
                    match ((e_gammainc_der N__ E__) alpha y1) with
                    | Err e__ => Err e__
                    | Ok call9__ =>
                        let gra_1 := (Num.mul N__ call9__ inv_1) in
                        match ((e_gammainc_der N__ E__) alpha y2) with
                        | Err e__ => Err e__
                        | Ok call10__ =>
                            let gra_2 := (Num.mul N__ call10__ inv_2) in
                            let gra := (Num.div N__ (Num.sub N__ (Num.mul N__ gra_2 y1) (Num.mul N__ gra_1 y2)) (pw N__ y1 2%nat)) in
                            let delta := (Num.div N__ (Num.neg N__ obj) gra) in
                            let alpha := (Num.add N__ alpha delta) in
                            let itt := (Num.add N__ itt (Num.ofZ N__ (1)%Z)) in
                            loop8__ fuel__ delta alpha itt
                        end
                    end
                  else
                  Ok (delta, alpha, itt)
                end in
            match loop8__ fuel_loop delta alpha itt with
            | Err e__ => Err e__
            | Ok (delta, alpha, itt) =>
                if (negb (gtb N__ alpha (Num.ofZ N__ (0)%Z))) then
                  Err EKLFail
                else
                if (gtb N__ alpha max_shape) then
                  Ok (upper_bound__ q1 x1)
                else
                let beta := (Num.div N__ ((e_gammainc_inv N__ E__) alpha q1) x1) in
                Ok ((Num.sub N__ alpha (Num.ofZ N__ (1)%Z)), beta)
            end
        end
    end
  else
  if (negb (gtb N__ alpha (Num.ofZ N__ (0)%Z))) then
    Err EKLFail
  else
  if (gtb N__ alpha max_shape) then
    Ok (upper_bound__ q1 x1)
  else
  let beta := (Num.div N__ ((e_gammainc_inv N__ E__) alpha q1) x1) in
  Ok ((Num.sub N__ alpha (Num.ofZ N__ (1)%Z)), beta).

(** tsdate/approx.py:207-212  [_valid_moments]   uses: isfinite lit *)
Definition valid_moments (N__ : Num) (F__ : Fns N__) (H__ : HypFns N__) (mn : T N__) (va : T N__) : bool :=
  if (negb (andb (f_isfinite N__ F__ mn) (f_isfinite N__ F__ va))) then
    false
  else
  if (negb (andb (gtb N__ mn (f_lit N__ F__ (0)%Z (1)%Z 0%float)) (gtb N__ va (f_lit N__ F__ (0)%Z (1)%Z 0%float)))) then
    false
  else
  true.

(** tsdate/approx.py:216-221  [_valid_gamma]   uses: isfinite lit *)
Definition valid_gamma (N__ : Num) (F__ : Fns N__) (H__ : HypFns N__) (s : T N__) (r : T N__) : bool :=
  if (negb (andb (f_isfinite N__ F__ s) (f_isfinite N__ F__ r))) then
    false
  else
  if (orb (Num.leb N__ s (f_lit N__ F__ (0)%Z (1)%Z 0%float)) (Num.leb N__ r (f_lit N__ F__ (0)%Z (1)%Z 0%float))) then
    false
  else
  true.

(** tsdate/approx.py:225-230  [_valid_hyp1f1]   uses: isfinite lit *)
Definition valid_hyp1f1 (N__ : Num) (F__ : Fns N__) (H__ : HypFns N__) (a : T N__) (b : T N__) (z : T N__) : bool :=
  if (negb (andb (andb (f_isfinite N__ F__ a) (f_isfinite N__ F__ b)) (f_isfinite N__ F__ z))) then
    false
  else
  if (negb (andb (geb N__ b a) (gtb N__ a (f_lit N__ F__ (0)%Z (1)%Z 0%float)))) then
    false
  else
  true.

(** tsdate/approx.py:234-241  [_valid_hyperu]   uses: isfinite lit *)
Definition valid_hyperu (N__ : Num) (F__ : Fns N__) (H__ : HypFns N__) (a : T N__) (b : T N__) (z : T N__) : bool :=
  if (negb (andb (andb (f_isfinite N__ F__ a) (f_isfinite N__ F__ b)) (f_isfinite N__ F__ z))) then
    false
  else
  if (Num.leb N__ z (f_lit N__ F__ (0)%Z (1)%Z 0%float)) then
    false
  else
  if (negb (andb (gtb N__ b a) (gtb N__ a (f_lit N__ F__ (0)%Z (1)%Z 0%float)))) then
    false
  else
  true.

(** tsdate/approx.py:245-252  [_valid_hyp2f1]   uses: isfinite *)
Definition valid_hyp2f1 (N__ : Num) (F__ : Fns N__) (H__ : HypFns N__) (a : T N__) (b : T N__) (c : T N__) (z : T N__) : bool :=
  if (negb (andb (andb (f_isfinite N__ F__ a) (f_isfinite N__ F__ b)) (f_isfinite N__ F__ c))) then
    false
  else
  if (orb (orb (negb (f_isfinite N__ F__ z)) (geb N__ z (Num.ofZ N__ (1)%Z))) (geb N__ (Num.div N__ z (Num.sub N__ z (Num.ofZ N__ (1)%Z))) (Num.ofZ N__ (1)%Z))) then
    false
  else
  if (negb (andb (andb (gtb N__ a (Num.ofZ N__ (0)%Z)) (gtb N__ b (Num.ofZ N__ (0)%Z))) (gtb N__ c (Num.ofZ N__ (0)%Z)))) then
    false
  else
  true.

(** tsdate/approx.py:259-297  [moments]   uses: H exp isfinite lgamma log *)
Definition moments (N__ : Num) (F__ : Fns N__) (H__ : HypFns N__) (a_i : T N__) (b_i : T N__) (a_j : T N__) (b_j : T N__) (y_ij : T N__) (mu_ij : T N__) : exc (nanv (T N__ * T N__ * T N__ * T N__ * T N__)) :=
  let a := a_j in
  let b := (Num.add N__ (Num.add N__ a_i a_j) y_ij) in
  let c := (Num.add N__ (Num.add N__ a_j y_ij) (Num.ofZ N__ (1)%Z)) in
  let t := (Num.add N__ mu_ij b_i) in
  if (gtb N__ t (Num.ofZ N__ (0)%Z)) then
    let z := (Num.div N__ (Num.sub N__ mu_ij b_j) t) in
    if (negb (valid_hyp2f1 N__ F__ H__ a b c z)) then
      Ok Nan
    else
    match ((h_hyp2f1_laplace N__ H__) (Num.add N__ a (Num.ofZ N__ (0)%Z)) (Num.add N__ b (Num.ofZ N__ (0)%Z)) (Num.add N__ c (Num.ofZ N__ (0)%Z)) z) with
    | Err e__ => Err e__
    | Ok f0 =>
        match ((h_hyp2f1_laplace N__ H__) (Num.add N__ a (Num.ofZ N__ (1)%Z)) (Num.add N__ b (Num.ofZ N__ (1)%Z)) (Num.add N__ c (Num.ofZ N__ (1)%Z)) z) with
        | Err e__ => Err e__
        | Ok f1 =>
            match ((h_hyp2f1_laplace N__ H__) (Num.add N__ a (Num.ofZ N__ (2)%Z)) (Num.add N__ b (Num.ofZ N__ (2)%Z)) (Num.add N__ c (Num.ofZ N__ (2)%Z)) z) with
            | Err e__ => Err e__
            | Ok f2 =>
                let s1 := (Num.div N__ (Num.mul N__ a b) c) in
                let s2 := (Num.div N__ (Num.mul N__ (Num.mul N__ s1 (Num.add N__ a (Num.ofZ N__ (1)%Z))) (Num.add N__ b (Num.ofZ N__ (1)%Z))) (Num.add N__ c (Num.ofZ N__ (1)%Z))) in
                let d1 := (Num.mul N__ s1 (f_exp N__ F__ (Num.sub N__ f1 f0))) in
                let d2 := (Num.mul N__ s2 (f_exp N__ F__ (Num.sub N__ f2 f0))) in
                let logl := (Num.sub N__ (Num.add N__ (Num.add N__ f0 ((h_betaln N__ H__) (Num.add N__ y_ij (Num.ofZ N__ (1)%Z)) a)) (f_lgamma N__ F__ b)) (Num.mul N__ b (f_log N__ F__ t))) in
                let mn_j := (Num.div N__ d1 t) in
                let sq_j := (Num.div N__ d2 (pw N__ t 2%nat)) in
                let va_j := (Num.sub N__ sq_j (pw N__ mn_j 2%nat)) in
                let mn_i := (Num.add N__ (Num.mul N__ mn_j z) (Num.div N__ b t)) in
                let sq_i := (Num.add N__ (Num.mul N__ sq_j (pw N__ z 2%nat)) (Num.div N__ (Num.mul N__ (Num.add N__ b (Num.ofZ N__ (1)%Z)) (Num.add N__ mn_i (Num.mul N__ mn_j z))) t)) in
                let va_i := (Num.sub N__ sq_i (pw N__ mn_i 2%nat)) in
                Ok (Val (logl, mn_i, va_i, mn_j, va_j))
            end
        end
    end
  else
  Ok Nan.

(** tsdate/approx.py:301-339  [rootward_moments]   uses: H isfinite lgamma lit log *)
(*   approx.py:310  assert t_j >= 0.0   ==> Err EAssert when false *)
Definition rootward_moments (N__ : Num) (F__ : Fns N__) (H__ : HypFns N__) (t_j : T N__) (a_i : T N__) (b_i : T N__) (y_ij : T N__) (mu_ij : T N__) : exc (nanv (T N__ * T N__ * T N__)) :=
  if (geb N__ t_j (f_lit N__ F__ (0)%Z (1)%Z 0%float)) then
    let s := (Num.add N__ a_i y_ij) in
    let r := (Num.add N__ mu_ij b_i) in
    if (negb (valid_gamma N__ F__ H__ s r)) then
      Ok Nan
    else
    if (Num.eqb N__ t_j (f_lit N__ F__ (0)%Z (1)%Z 0%float)) then
      let logl := (Num.sub N__ (f_lgamma N__ F__ s) (Num.mul N__ s (f_log N__ F__ r))) in
      let mn_i := (Num.div N__ s r) in
      let va_i := (Num.div N__ s (pw N__ r 2%nat)) in
      Ok (Val (logl, mn_i, va_i))
    else
    let a := (Num.add N__ y_ij (Num.ofZ N__ (1)%Z)) in
    let b := (Num.add N__ s (Num.ofZ N__ (1)%Z)) in
    let z := (Num.mul N__ t_j r) in
    if (negb (valid_hyperu N__ F__ H__ a b z)) then
      Ok Nan
    else
    match ((h_hyperu_laplace N__ H__) (Num.add N__ a (Num.ofZ N__ (0)%Z)) (Num.add N__ b (Num.ofZ N__ (0)%Z)) z) with
    | Err e__ => Err e__
    | Ok (f0, d0) =>
        match ((h_hyperu_laplace N__ H__) (Num.add N__ a (Num.ofZ N__ (1)%Z)) (Num.add N__ b (Num.ofZ N__ (1)%Z)) z) with
        | Err e__ => Err e__
        | Ok (f1, d1) =>
            let logl := (Num.add N__ (Num.add N__ (Num.sub N__ f0 (Num.mul N__ b_i t_j)) (Num.mul N__ (Num.sub N__ b (Num.ofZ N__ (1)%Z)) (f_log N__ F__ t_j))) (f_lgamma N__ F__ a)) in
            let mn_i := (Num.mul N__ t_j (Num.sub N__ (Num.ofZ N__ (1)%Z) d0)) in
            let va_i := (Num.mul N__ (Num.mul N__ (pw N__ t_j 2%nat) d0) (Num.sub N__ d1 d0)) in
            Ok (Val (logl, mn_i, va_i))
        end
    end
  else
  Err EAssert.

(** tsdate/approx.py:343-373  [leafward_moments]   uses: H exp isfinite lit log *)
(*   approx.py:352  assert t_i > 0.0   ==> Err EAssert when false *)
Definition leafward_moments (N__ : Num) (F__ : Fns N__) (H__ : HypFns N__) (t_i : T N__) (a_j : T N__) (b_j : T N__) (y_ij : T N__) (mu_ij : T N__) : exc (nanv (T N__ * T N__ * T N__)) :=
  if (gtb N__ t_i (f_lit N__ F__ (0)%Z (1)%Z 0%float)) then
    let a := a_j in
    let b := (Num.add N__ (Num.add N__ a_j y_ij) (Num.ofZ N__ (1)%Z)) in
    let z := (Num.mul N__ t_i (Num.sub N__ mu_ij b_j)) in
    if (negb (valid_hyp1f1 N__ F__ H__ a b z)) then
      Ok Nan
    else
    match ((h_hyp1f1_laplace N__ H__) (Num.add N__ a (Num.ofZ N__ (0)%Z)) (Num.add N__ b (Num.ofZ N__ (0)%Z)) z) with
    | Err e__ => Err e__
    | Ok f0 =>
        match ((h_hyp1f1_laplace N__ H__) (Num.add N__ a (Num.ofZ N__ (1)%Z)) (Num.add N__ b (Num.ofZ N__ (1)%Z)) z) with
        | Err e__ => Err e__
        | Ok f1 =>
            match ((h_hyp1f1_laplace N__ H__) (Num.add N__ a (Num.ofZ N__ (2)%Z)) (Num.add N__ b (Num.ofZ N__ (2)%Z)) z) with
            | Err e__ => Err e__
            | Ok f2 =>
                let d1 := (Num.mul N__ (Num.div N__ a b) (f_exp N__ F__ (Num.sub N__ f1 f0))) in
                let d2 := (Num.mul N__ (Num.div N__ (Num.mul N__ (Num.div N__ a b) (Num.add N__ a (Num.ofZ N__ (1)%Z))) (Num.add N__ b (Num.ofZ N__ (1)%Z))) (f_exp N__ F__ (Num.sub N__ f2 f0))) in
                let logl := (Num.add N__ (Num.add N__ (Num.sub N__ f0 (Num.mul N__ mu_ij t_i)) (Num.mul N__ (Num.sub N__ b (Num.ofZ N__ (1)%Z)) (f_log N__ F__ t_i))) ((h_betaln N__ H__) a (Num.sub N__ b a))) in
                let mn_j := (Num.mul N__ t_i d1) in
                let sq_j := (Num.mul N__ (pw N__ t_i 2%nat) d2) in
                let va_j := (Num.sub N__ sq_j (pw N__ mn_j 2%nat)) in
                Ok (Val (logl, mn_j, va_j))
            end
        end
    end
  else
  Err EAssert.

(** tsdate/approx.py:377-415  [unphased_moments]   uses: H exp isfinite lgamma log *)
Definition unphased_moments (N__ : Num) (F__ : Fns N__) (H__ : HypFns N__) (a_i : T N__) (b_i : T N__) (a_j : T N__) (b_j : T N__) (y_ij : T N__) (mu_ij : T N__) : exc (nanv (T N__ * T N__ * T N__ * T N__ * T N__)) :=
  let a := a_j in
  let b := (Num.add N__ (Num.add N__ a_i a_j) y_ij) in
  let c := (Num.add N__ a_j a_i) in
  let t := (Num.add N__ mu_ij b_i) in
  if (gtb N__ t (Num.ofZ N__ (0)%Z)) then
    let z := (Num.div N__ (Num.add N__ mu_ij b_j) t) in
    if (negb (valid_hyp2f1 N__ F__ H__ a b c (Num.sub N__ (Num.ofZ N__ (1)%Z) z))) then
      Ok Nan
    else
    match ((h_hyp2f1_laplace N__ H__) (Num.add N__ a (Num.ofZ N__ (0)%Z)) (Num.add N__ b (Num.ofZ N__ (0)%Z)) (Num.add N__ c (Num.ofZ N__ (0)%Z)) (Num.sub N__ (Num.ofZ N__ (1)%Z) z)) with
    | Err e__ => Err e__
    | Ok f0 =>
        match ((h_hyp2f1_laplace N__ H__) (Num.add N__ a (Num.ofZ N__ (1)%Z)) (Num.add N__ b (Num.ofZ N__ (1)%Z)) (Num.add N__ c (Num.ofZ N__ (1)%Z)) (Num.sub N__ (Num.ofZ N__ (1)%Z) z)) with
        | Err e__ => Err e__
        | Ok f1 =>
            match ((h_hyp2f1_laplace N__ H__) (Num.add N__ a (Num.ofZ N__ (2)%Z)) (Num.add N__ b (Num.ofZ N__ (2)%Z)) (Num.add N__ c (Num.ofZ N__ (2)%Z)) (Num.sub N__ (Num.ofZ N__ (1)%Z) z)) with
            | Err e__ => Err e__
            | Ok f2 =>
                let s1 := (Num.div N__ (Num.mul N__ a b) c) in
                let s2 := (Num.div N__ (Num.mul N__ (Num.mul N__ s1 (Num.add N__ a (Num.ofZ N__ (1)%Z))) (Num.add N__ b (Num.ofZ N__ (1)%Z))) (Num.add N__ c (Num.ofZ N__ (1)%Z))) in
                let d1 := (Num.mul N__ s1 (f_exp N__ F__ (Num.sub N__ f1 f0))) in
                let d2 := (Num.mul N__ s2 (f_exp N__ F__ (Num.sub N__ f2 f0))) in
                let logl := (Num.sub N__ (Num.add N__ (Num.add N__ f0 ((h_betaln N__ H__) a_j a_i)) (f_lgamma N__ F__ b)) (Num.mul N__ b (f_log N__ F__ t))) in
                let mn_j := (Num.div N__ d1 t) in
                let sq_j := (Num.div N__ d2 (pw N__ t 2%nat)) in
                let va_j := (Num.sub N__ sq_j (pw N__ mn_j 2%nat)) in
                let mn_i := (Num.sub N__ (Num.div N__ b t) (Num.mul N__ mn_j z)) in
                let sq_i := (Num.add N__ (Num.mul N__ sq_j (pw N__ z 2%nat)) (Num.div N__ (Num.mul N__ (Num.add N__ b (Num.ofZ N__ (1)%Z)) (Num.sub N__ mn_i (Num.mul N__ mn_j z))) t)) in
                let va_i := (Num.sub N__ sq_i (pw N__ mn_i 2%nat)) in
                Ok (Val (logl, mn_i, va_i, mn_j, va_j))
            end
        end
    end
  else
  Ok Nan.

(** tsdate/approx.py:419-432  [twin_moments]   uses: lgamma log *)
Definition twin_moments (N__ : Num) (F__ : Fns N__) (H__ : HypFns N__) (a_i : T N__) (b_i : T N__) (y_ij : T N__) (mu_ij : T N__) : (T N__ * T N__ * T N__) :=
  let s := (Num.add N__ a_i y_ij) in
  let r := (Num.add N__ b_i (Num.mul N__ (Num.ofZ N__ (2)%Z) mu_ij)) in
  let logl := (Num.sub N__ (Num.add N__ (Num.mul N__ (f_log N__ F__ (Num.ofZ N__ (2)%Z)) y_ij) (f_lgamma N__ F__ s)) (Num.mul N__ (f_log N__ F__ r) s)) in
  let mn_i := (Num.div N__ s r) in
  let va_i := (Num.div N__ s (pw N__ r 2%nat)) in
  (logl, mn_i, va_i).

(** tsdate/approx.py:436-462  [sideways_moments]   uses: H isfinite lgamma lit log *)
(*   approx.py:445  assert t_i > 0.0   ==> Err EAssert when false *)
Definition sideways_moments (N__ : Num) (F__ : Fns N__) (H__ : HypFns N__) (t_i : T N__) (a_j : T N__) (b_j : T N__) (y_ij : T N__) (mu_ij : T N__) : exc (nanv (T N__ * T N__ * T N__)) :=
  if (gtb N__ t_i (f_lit N__ F__ (0)%Z (1)%Z 0%float)) then
    let a := a_j in
    let b := (Num.add N__ (Num.add N__ a_j y_ij) (Num.ofZ N__ (1)%Z)) in
    let z := (Num.mul N__ t_i (Num.add N__ mu_ij b_j)) in
    if (negb (valid_hyperu N__ F__ H__ a b z)) then
      Ok Nan
    else
    match ((h_hyperu_laplace N__ H__) (Num.add N__ a (Num.ofZ N__ (0)%Z)) (Num.add N__ b (Num.ofZ N__ (0)%Z)) z) with
    | Err e__ => Err e__
    | Ok (f0, d0) =>
        match ((h_hyperu_laplace N__ H__) (Num.add N__ a (Num.ofZ N__ (1)%Z)) (Num.add N__ b (Num.ofZ N__ (1)%Z)) z) with
        | Err e__ => Err e__
        | Ok (f1, d1) =>
            let logl := (Num.add N__ (Num.add N__ (Num.sub N__ f0 (Num.mul N__ mu_ij t_i)) (Num.mul N__ (Num.sub N__ b (Num.ofZ N__ (1)%Z)) (f_log N__ F__ t_i))) (f_lgamma N__ F__ a)) in
            let mn_j := (Num.mul N__ (Num.neg N__ t_i) d0) in
            let va_j := (Num.mul N__ (Num.mul N__ (pw N__ t_i 2%nat) d0) (Num.sub N__ d1 d0)) in
            Ok (Val (logl, mn_j, va_j))
        end
    end
  else
  Err EAssert.

(** tsdate/approx.py:466-504  [mutation_moments]   uses: H exp isfinite *)
Definition mutation_moments (N__ : Num) (F__ : Fns N__) (H__ : HypFns N__) (a_i : T N__) (b_i : T N__) (a_j : T N__) (b_j : T N__) (y_ij : T N__) (mu_ij : T N__) : exc (nanv (T N__ * T N__)) :=
  let a := a_j in
  let b := (Num.add N__ (Num.add N__ a_i a_j) y_ij) in
  let c := (Num.add N__ (Num.add N__ a_j y_ij) (Num.ofZ N__ (1)%Z)) in
  let t := (Num.add N__ mu_ij b_i) in
  if (gtb N__ t (Num.ofZ N__ (0)%Z)) then
    let z := (Num.div N__ (Num.sub N__ mu_ij b_j) t) in
    if (negb (valid_hyp2f1 N__ F__ H__ a b c z)) then
      Ok Nan
    else
    match ((h_hyp2f1_laplace N__ H__) (Num.add N__ a (Num.ofZ N__ (0)%Z)) (Num.add N__ b (Num.ofZ N__ (0)%Z)) (Num.add N__ c (Num.ofZ N__ (0)%Z)) z) with
    | Err e__ => Err e__
    | Ok f000 =>
        match ((h_hyp2f1_laplace N__ H__) (Num.add N__ a (Num.ofZ N__ (0)%Z)) (Num.add N__ b (Num.ofZ N__ (2)%Z)) (Num.add N__ c (Num.ofZ N__ (0)%Z)) z) with
        | Err e__ => Err e__
        | Ok f020 =>
            match ((h_hyp2f1_laplace N__ H__) (Num.add N__ a (Num.ofZ N__ (1)%Z)) (Num.add N__ b (Num.ofZ N__ (1)%Z)) (Num.add N__ c (Num.ofZ N__ (1)%Z)) z) with
            | Err e__ => Err e__
            | Ok f111 =>
                match ((h_hyp2f1_laplace N__ H__) (Num.add N__ a (Num.ofZ N__ (1)%Z)) (Num.add N__ b (Num.ofZ N__ (2)%Z)) (Num.add N__ c (Num.ofZ N__ (1)%Z)) z) with
                | Err e__ => Err e__
                | Ok f121 =>
                    match ((h_hyp2f1_laplace N__ H__) (Num.add N__ a (Num.ofZ N__ (2)%Z)) (Num.add N__ b (Num.ofZ N__ (2)%Z)) (Num.add N__ c (Num.ofZ N__ (2)%Z)) z) with
                    | Err e__ => Err e__
                    | Ok f222 =>
                        let s1 := (Num.div N__ (Num.mul N__ a b) c) in
                        let d1 := (Num.div N__ (Num.mul N__ b (Num.add N__ b (Num.ofZ N__ (1)%Z))) (pw N__ t 2%nat)) in
                        let d2 := (Num.div N__ (Num.mul N__ d1 a) c) in
                        let d3 := (Num.div N__ (Num.mul N__ d2 (Num.add N__ a (Num.ofZ N__ (1)%Z))) (Num.add N__ c (Num.ofZ N__ (1)%Z))) in
                        let mn_m := (Num.add N__ (Num.mul N__ (Num.div N__ (Num.div N__ (Num.mul N__ s1 (f_exp N__ F__ (Num.sub N__ f111 f000))) t) (Num.ofZ N__ (2)%Z)) (Num.add N__ (Num.ofZ N__ (1)%Z) z)) (Num.div N__ (Num.div N__ b t) (Num.ofZ N__ (2)%Z))) in
                        let sq_m := (Num.add N__ (Num.add N__ (Num.div N__ (Num.mul N__ d1 (f_exp N__ F__ (Num.sub N__ f020 f000))) (Num.ofZ N__ (3)%Z)) (Num.div N__ (Num.mul N__ d2 (f_exp N__ F__ (Num.sub N__ f121 f000))) (Num.ofZ N__ (3)%Z))) (Num.div N__ (Num.mul N__ d3 (f_exp N__ F__ (Num.sub N__ f222 f000))) (Num.ofZ N__ (3)%Z))) in
                        let va_m := (Num.sub N__ sq_m (pw N__ mn_m 2%nat)) in
                        Ok (Val (mn_m, va_m))
                    end
                end
            end
        end
    end
  else
  Ok Nan.

(** tsdate/approx.py:508-523  [mutation_rootward_moments]   uses: H isfinite lgamma lit log *)
Definition mutation_rootward_moments (N__ : Num) (F__ : Fns N__) (H__ : HypFns N__) (t_j : T N__) (a_i : T N__) (b_i : T N__) (y_ij : T N__) (mu_ij : T N__) : exc (nanv (T N__ * T N__)) :=
  match (rootward_moments N__ F__ H__ t_j a_i b_i y_ij mu_ij) with
  | Err e__ => Err e__
  | Ok (Val (logl, mn_i, va_i)) =>
      let mn_m := (Num.add N__ (Num.div N__ mn_i (Num.ofZ N__ (2)%Z)) (Num.div N__ t_j (Num.ofZ N__ (2)%Z))) in
      let sq_m := (Num.div N__ (Num.add N__ (Num.add N__ (Num.add N__ va_i (pw N__ mn_i 2%nat)) (Num.mul N__ mn_i t_j)) (pw N__ t_j 2%nat)) (Num.ofZ N__ (3)%Z)) in
      let va_m := (Num.sub N__ sq_m (pw N__ mn_m 2%nat)) in
      Ok (Val (mn_m, va_m))
  | Ok Nan =>
      Ok Nan
  end.

(** tsdate/approx.py:527-542  [mutation_leafward_moments]   uses: H exp isfinite lit log *)
Definition mutation_leafward_moments (N__ : Num) (F__ : Fns N__) (H__ : HypFns N__) (t_i : T N__) (a_j : T N__) (b_j : T N__) (y_ij : T N__) (mu_ij : T N__) : exc (nanv (T N__ * T N__)) :=
  match (leafward_moments N__ F__ H__ t_i a_j b_j y_ij mu_ij) with
  | Err e__ => Err e__
  | Ok (Val (logl, mn_j, va_j)) =>
      let mn_m := (Num.add N__ (Num.div N__ mn_j (Num.ofZ N__ (2)%Z)) (Num.div N__ t_i (Num.ofZ N__ (2)%Z))) in
      let sq_m := (Num.div N__ (Num.add N__ (Num.add N__ (Num.add N__ va_j (pw N__ mn_j 2%nat)) (Num.mul N__ mn_j t_i)) (pw N__ t_i 2%nat)) (Num.ofZ N__ (3)%Z)) in
      let va_m := (Num.sub N__ sq_m (pw N__ mn_m 2%nat)) in
      Ok (Val (mn_m, va_m))
  | Ok Nan =>
      Ok Nan
  end.

(** tsdate/approx.py:546-595  [mutation_unphased_moments]   uses: H exp isfinite *)
Definition mutation_unphased_moments (N__ : Num) (F__ : Fns N__) (H__ : HypFns N__) (a_i : T N__) (b_i : T N__) (a_j : T N__) (b_j : T N__) (y_ij : T N__) (mu_ij : T N__) : exc (nanv (T N__ * T N__ * T N__)) :=
  let a := a_j in
  let b := (Num.add N__ (Num.add N__ a_j a_i) y_ij) in
  let c := (Num.add N__ a_j a_i) in
  let t := (Num.add N__ mu_ij b_i) in
  if (gtb N__ t (Num.ofZ N__ (0)%Z)) then
    let z := (Num.div N__ (Num.add N__ mu_ij b_j) t) in
    if (negb (valid_hyp2f1 N__ F__ H__ a b c (Num.sub N__ (Num.ofZ N__ (1)%Z) z))) then
      Ok Nan
    else
    match ((h_hyp2f1_laplace N__ H__) (Num.add N__ a (Num.ofZ N__ (0)%Z)) (Num.add N__ b (Num.ofZ N__ (0)%Z)) (Num.add N__ c (Num.ofZ N__ (0)%Z)) (Num.sub N__ (Num.ofZ N__ (1)%Z) z)) with
    | Err e__ => Err e__
    | Ok f000 =>
        match ((h_hyp2f1_laplace N__ H__) (Num.add N__ a (Num.ofZ N__ (0)%Z)) (Num.add N__ b (Num.ofZ N__ (0)%Z)) (Num.add N__ c (Num.ofZ N__ (1)%Z)) (Num.sub N__ (Num.ofZ N__ (1)%Z) z)) with
        | Err e__ => Err e__
        | Ok f001 =>
            match ((h_hyp2f1_laplace N__ H__) (Num.add N__ a (Num.ofZ N__ (0)%Z)) (Num.add N__ b (Num.ofZ N__ (1)%Z)) (Num.add N__ c (Num.ofZ N__ (2)%Z)) (Num.sub N__ (Num.ofZ N__ (1)%Z) z)) with
            | Err e__ => Err e__
            | Ok f012 =>
                match ((h_hyp2f1_laplace N__ H__) (Num.add N__ a (Num.ofZ N__ (0)%Z)) (Num.add N__ b (Num.ofZ N__ (2)%Z)) (Num.add N__ c (Num.ofZ N__ (3)%Z)) (Num.sub N__ (Num.ofZ N__ (1)%Z) z)) with
                | Err e__ => Err e__
                | Ok f023 =>
                    match ((h_hyp2f1_laplace N__ H__) (Num.add N__ a (Num.ofZ N__ (2)%Z)) (Num.add N__ b (Num.ofZ N__ (1)%Z)) (Num.add N__ c (Num.ofZ N__ (2)%Z)) (Num.sub N__ (Num.ofZ N__ (1)%Z) z)) with
                    | Err e__ => Err e__
                    | Ok f212 =>
                        match ((h_hyp2f1_laplace N__ H__) (Num.add N__ a (Num.ofZ N__ (3)%Z)) (Num.add N__ b (Num.ofZ N__ (2)%Z)) (Num.add N__ c (Num.ofZ N__ (3)%Z)) (Num.sub N__ (Num.ofZ N__ (1)%Z) z)) with
                        | Err e__ => Err e__
                        | Ok f323 =>
                            let s0 := (Num.div N__ (Num.div N__ (Num.div N__ b t) c) (Num.add N__ c (Num.ofZ N__ (1)%Z))) in
                            let s1 := (Num.mul N__ (Num.sub N__ c a) (Num.add N__ (Num.sub N__ c a) (Num.ofZ N__ (1)%Z))) in
                            let s2 := (Num.mul N__ a (Num.add N__ a (Num.ofZ N__ (1)%Z))) in
                            let d0 := (Num.div N__ (Num.div N__ (Num.mul N__ s0 (Num.add N__ b (Num.ofZ N__ (1)%Z))) t) (Num.add N__ c (Num.ofZ N__ (2)%Z))) in
                            let d1 := (Num.mul N__ s1 (Num.add N__ (Num.sub N__ c a) (Num.ofZ N__ (2)%Z))) in
                            let d2 := (Num.mul N__ s2 (Num.add N__ a (Num.ofZ N__ (2)%Z))) in
                            let mn_m := (Num.add N__ (Num.div N__ (Num.mul N__ (Num.mul N__ s0 s1) (f_exp N__ F__ (Num.sub N__ f012 f000))) (Num.ofZ N__ (2)%Z)) (Num.div N__ (Num.mul N__ (Num.mul N__ s0 s2) (f_exp N__ F__ (Num.sub N__ f212 f000))) (Num.ofZ N__ (2)%Z))) in
                            let sq_m := (Num.add N__ (Num.div N__ (Num.mul N__ (Num.mul N__ d0 d1) (f_exp N__ F__ (Num.sub N__ f023 f000))) (Num.ofZ N__ (3)%Z)) (Num.div N__ (Num.mul N__ (Num.mul N__ d0 d2) (f_exp N__ F__ (Num.sub N__ f323 f000))) (Num.ofZ N__ (3)%Z))) in
                            let va_m := (Num.sub N__ sq_m (pw N__ mn_m 2%nat)) in
                            let pr_m := (Num.mul N__ (Num.div N__ (Num.sub N__ c a) c) (f_exp N__ F__ (Num.sub N__ f001 f000))) in
                            Ok (Val (pr_m, mn_m, va_m))
                        end
                    end
                end
            end
        end
    end
  else
  Ok Nan.

(** tsdate/approx.py:599-614  [mutation_twin_moments]   uses: lit *)
Definition mutation_twin_moments (N__ : Num) (F__ : Fns N__) (H__ : HypFns N__) (a_i : T N__) (b_i : T N__) (y_ij : T N__) (mu_ij : T N__) : (T N__ * T N__ * T N__) :=
  let s := (Num.add N__ a_i y_ij) in
  let r := (Num.add N__ b_i (Num.mul N__ (Num.ofZ N__ (2)%Z) mu_ij)) in
  let pr_m := (f_lit N__ F__ (5)%Z (10)%Z 0x1.0000000000000p-1%float) in
  let mn_m := (Num.div N__ (Num.div N__ s r) (Num.ofZ N__ (2)%Z)) in
  let sq_m := (Num.div N__ (Num.div N__ (Num.mul N__ (Num.add N__ s (Num.ofZ N__ (1)%Z)) s) (Num.ofZ N__ (3)%Z)) (pw N__ r 2%nat)) in
  let va_m := (Num.sub N__ sq_m (pw N__ mn_m 2%nat)) in
  (pr_m, mn_m, va_m).

(** tsdate/approx.py:618-663  [mutation_sideways_moments]   uses: H exp isfinite lit *)
(*   approx.py:629  assert t_i > 0   ==> Err EAssert when false *)
Definition mutation_sideways_moments (N__ : Num) (F__ : Fns N__) (H__ : HypFns N__) (t_i : T N__) (a_j : T N__) (b_j : T N__) (y_ij : T N__) (mu_ij : T N__) : exc (nanv (T N__ * T N__ * T N__)) :=
  if (gtb N__ t_i (Num.ofZ N__ (0)%Z)) then
    let a := a_j in
    let b := (Num.add N__ (Num.add N__ a_j y_ij) (Num.ofZ N__ (1)%Z)) in
    let z := (Num.mul N__ t_i (Num.add N__ mu_ij b_j)) in
    if (negb (valid_hyperu N__ F__ H__ a b z)) then
      Ok Nan
    else
    match ((h_hyperu_laplace N__ H__) (Num.add N__ a (Num.ofZ N__ (0)%Z)) (Num.add N__ b (Num.ofZ N__ (0)%Z)) z) with
    | Err e__ => Err e__
    | Ok (f00, d00) =>
        match ((h_hyperu_laplace N__ H__) (Num.add N__ a (Num.ofZ N__ (1)%Z)) (Num.add N__ b (Num.ofZ N__ (0)%Z)) z) with
        | Err e__ => Err e__
        | Ok (f10, d10) =>
            match ((h_hyperu_laplace N__ H__) (Num.add N__ a (Num.ofZ N__ (2)%Z)) (Num.add N__ b (Num.ofZ N__ (1)%Z)) z) with
            | Err e__ => Err e__
            | Ok (f21, d21) =>
                match ((h_hyperu_laplace N__ H__) (Num.add N__ a (Num.ofZ N__ (3)%Z)) (Num.add N__ b (Num.ofZ N__ (2)%Z)) z) with
                | Err e__ => Err e__
                | Ok (f32, d32) =>
                    let pr_m := (Num.sub N__ (f_lit N__ F__ (1)%Z (1)%Z 0x1.0000000000000p+0%float) (Num.mul N__ (f_exp N__ F__ (Num.sub N__ f10 f00)) a)) in
                    let mn_m := (Num.add N__ (Num.div N__ (Num.mul N__ pr_m t_i) (Num.ofZ N__ (2)%Z)) (Num.div N__ (Num.mul N__ (Num.mul N__ (Num.mul N__ t_i (f_exp N__ F__ (Num.sub N__ f21 f00))) a) (Num.add N__ a (Num.ofZ N__ (1)%Z))) (Num.ofZ N__ (2)%Z))) in
                    let sq_m := (Num.add N__ (Num.div N__ (Num.mul N__ pr_m (pw N__ t_i 2%nat)) (Num.ofZ N__ (3)%Z)) (Num.div N__ (Num.mul N__ (Num.mul N__ (Num.mul N__ (Num.mul N__ (pw N__ t_i 2%nat) (f_exp N__ F__ (Num.sub N__ f32 f00))) a) (Num.add N__ a (Num.ofZ N__ (1)%Z))) (Num.add N__ a (Num.ofZ N__ (2)%Z))) (Num.ofZ N__ (3)%Z))) in
                    let va_m := (Num.sub N__ sq_m (pw N__ mn_m 2%nat)) in
                    Ok (Val (pr_m, mn_m, va_m))
                end
            end
        end
    end
  else
  Err EAssert.

(** tsdate/approx.py:667-678  [mutation_edge_moments] *)
Definition mutation_edge_moments (N__ : Num) (F__ : Fns N__) (H__ : HypFns N__) (t_i : T N__) (t_j : T N__) : (T N__ * T N__) :=
  let mn_m := (Num.mul N__ (Num.div N__ (Num.ofZ N__ (1)%Z) (Num.ofZ N__ (2)%Z)) (Num.add N__ t_i t_j)) in
  let va_m := (Num.mul N__ (Num.div N__ (Num.ofZ N__ (1)%Z) (Num.ofZ N__ (12)%Z)) (pw N__ (Num.sub N__ t_i t_j) 2%nat)) in
  (mn_m, va_m).

(** tsdate/approx.py:682-699  [mutation_block_moments] *)
(*   approx.py:691  assert t_i > 0   ==> Err EAssert when false *)
(*   approx.py:692  assert t_j > 0   ==> Err EAssert when false *)
Definition mutation_block_moments (N__ : Num) (F__ : Fns N__) (H__ : HypFns N__) (t_i : T N__) (t_j : T N__) : exc (T N__ * T N__ * T N__) :=
  if (gtb N__ t_i (Num.ofZ N__ (0)%Z)) then
    if (gtb N__ t_j (Num.ofZ N__ (0)%Z)) then
      let pr_m := (Num.div N__ t_i (Num.add N__ t_i t_j)) in
      let mn_m := (Num.add N__ (Num.div N__ (Num.mul N__ pr_m t_i) (Num.ofZ N__ (2)%Z)) (Num.div N__ (Num.mul N__ (Num.sub N__ (Num.ofZ N__ (1)%Z) pr_m) t_j) (Num.ofZ N__ (2)%Z))) in
      let sq_m := (Num.add N__ (Num.div N__ (Num.mul N__ pr_m (pw N__ t_i 2%nat)) (Num.ofZ N__ (3)%Z)) (Num.div N__ (Num.mul N__ (Num.sub N__ (Num.ofZ N__ (1)%Z) pr_m) (pw N__ t_j 2%nat)) (Num.ofZ N__ (3)%Z))) in
      let va_m := (Num.sub N__ sq_m (pw N__ mn_m 2%nat)) in
      Ok (pr_m, mn_m, va_m)
    else
    Err EAssert
  else
  Err EAssert.

(** tsdate/approx.py:706-729  [gamma_projection]   uses: H exp isfinite lgamma lit log *)
Definition gamma_projection (N__ : Num) (F__ : Fns N__) (H__ : HypFns N__) (pars_i : (T N__ * T N__)) (pars_j : (T N__ * T N__)) (pars_ij : (T N__ * T N__)) : exc (nanv (T N__ * (T N__ * T N__) * (T N__ * T N__))) :=
  let '(a_i, b_i) := pars_i in
  let '(a_j, b_j) := pars_j in
  let '(y_ij, mu_ij) := pars_ij in
  let a_i := (Num.add N__ a_i (Num.ofZ N__ (1)%Z)) in
  let a_j := (Num.add N__ a_j (Num.ofZ N__ (1)%Z)) in
  match (moments N__ F__ H__ a_i b_i a_j b_j y_ij mu_ij) with
  | Err e__ => Err e__
  | Ok (Val (logl, mn_i, va_i, mn_j, va_j)) =>
      if (negb (andb (valid_moments N__ F__ H__ mn_i va_i) (valid_moments N__ F__ H__ mn_j va_j))) then
        Ok Nan
      else
      match (approximate_gamma_mom N__ F__ H__ mn_i va_i) with
      | Err e__ => Err e__
      | Ok proj_i =>
          match (approximate_gamma_mom N__ F__ H__ mn_j va_j) with
          | Err e__ => Err e__
          | Ok proj_j =>
              Ok (Val (logl, proj_i, proj_j))
          end
      end
  | Ok Nan =>
      Ok Nan
  end.

(** tsdate/approx.py:733-752  [leafward_projection]   uses: H exp isfinite lit log *)
Definition leafward_projection (N__ : Num) (F__ : Fns N__) (H__ : HypFns N__) (t_i : T N__) (pars_j : (T N__ * T N__)) (pars_ij : (T N__ * T N__)) : exc (nanv (T N__ * (T N__ * T N__))) :=
  let '(a_j, b_j) := pars_j in
  let '(y_ij, mu_ij) := pars_ij in
  let a_j := (Num.add N__ a_j (Num.ofZ N__ (1)%Z)) in
  match (leafward_moments N__ F__ H__ t_i a_j b_j y_ij mu_ij) with
  | Err e__ => Err e__
  | Ok (Val (logl, mn_j, va_j)) =>
      if (negb (valid_moments N__ F__ H__ mn_j va_j)) then
        Ok Nan
      else
      match (approximate_gamma_mom N__ F__ H__ mn_j va_j) with
      | Err e__ => Err e__
      | Ok proj_j =>
          Ok (Val (logl, proj_j))
      end
  | Ok Nan =>
      Ok Nan
  end.

(** tsdate/approx.py:756-775  [rootward_projection]   uses: H isfinite lgamma lit log *)
Definition rootward_projection (N__ : Num) (F__ : Fns N__) (H__ : HypFns N__) (t_j : T N__) (pars_i : (T N__ * T N__)) (pars_ij : (T N__ * T N__)) : exc (nanv (T N__ * (T N__ * T N__))) :=
  let '(a_i, b_i) := pars_i in
  let '(y_ij, mu_ij) := pars_ij in
  let a_i := (Num.add N__ a_i (Num.ofZ N__ (1)%Z)) in
  match (rootward_moments N__ F__ H__ t_j a_i b_i y_ij mu_ij) with
  | Err e__ => Err e__
  | Ok (Val (logl, mn_i, va_i)) =>
      if (negb (valid_moments N__ F__ H__ mn_i va_i)) then
        Ok Nan
      else
      match (approximate_gamma_mom N__ F__ H__ mn_i va_i) with
      | Err e__ => Err e__
      | Ok proj_i =>
          Ok (Val (logl, proj_i))
      end
  | Ok Nan =>
      Ok Nan
  end.

(** tsdate/approx.py:779-802  [unphased_projection]   uses: H exp isfinite lgamma lit log *)
Definition unphased_projection (N__ : Num) (F__ : Fns N__) (H__ : HypFns N__) (pars_i : (T N__ * T N__)) (pars_j : (T N__ * T N__)) (pars_ij : (T N__ * T N__)) : exc (nanv (T N__ * (T N__ * T N__) * (T N__ * T N__))) :=
  let '(a_i, b_i) := pars_i in
  let '(a_j, b_j) := pars_j in
  let '(y_ij, mu_ij) := pars_ij in
  let a_i := (Num.add N__ a_i (Num.ofZ N__ (1)%Z)) in
  let a_j := (Num.add N__ a_j (Num.ofZ N__ (1)%Z)) in
  match (unphased_moments N__ F__ H__ a_i b_i a_j b_j y_ij mu_ij) with
  | Err e__ => Err e__
  | Ok (Val (logl, mn_i, va_i, mn_j, va_j)) =>
      if (orb (negb (valid_moments N__ F__ H__ mn_i va_i)) (negb (valid_moments N__ F__ H__ mn_j va_j))) then
        Ok Nan
      else
      match (approximate_gamma_mom N__ F__ H__ mn_i va_i) with
      | Err e__ => Err e__
      | Ok proj_i =>
          match (approximate_gamma_mom N__ F__ H__ mn_j va_j) with
          | Err e__ => Err e__
          | Ok proj_j =>
              Ok (Val (logl, proj_i, proj_j))
          end
      end
  | Ok Nan =>
      Ok Nan
  end.

(** tsdate/approx.py:806-825  [twin_projection]   uses: isfinite lgamma lit log *)
Definition twin_projection (N__ : Num) (F__ : Fns N__) (H__ : HypFns N__) (pars_i : (T N__ * T N__)) (pars_ij : (T N__ * T N__)) : exc (nanv (T N__ * (T N__ * T N__))) :=
  let '(a_i, b_i) := pars_i in
  let '(y_ij, mu_ij) := pars_ij in
  let a_i := (Num.add N__ a_i (Num.ofZ N__ (1)%Z)) in
  let '(logl, mn_i, va_i) := (twin_moments N__ F__ H__ a_i b_i y_ij mu_ij) in
  if (negb (valid_moments N__ F__ H__ mn_i va_i)) then
    Ok Nan
  else
  match (approximate_gamma_mom N__ F__ H__ mn_i va_i) with
  | Err e__ => Err e__
  | Ok proj_i =>
      Ok (Val (logl, proj_i))
  end.

(** tsdate/approx.py:829-848  [sideways_projection]   uses: H isfinite lgamma lit log *)
Definition sideways_projection (N__ : Num) (F__ : Fns N__) (H__ : HypFns N__) (t_i : T N__) (pars_j : (T N__ * T N__)) (pars_ij : (T N__ * T N__)) : exc (nanv (T N__ * (T N__ * T N__))) :=
  let '(a_j, b_j) := pars_j in
  let '(y_ij, mu_ij) := pars_ij in
  let a_j := (Num.add N__ a_j (Num.ofZ N__ (1)%Z)) in
  match (sideways_moments N__ F__ H__ t_i a_j b_j y_ij mu_ij) with
  | Err e__ => Err e__
  | Ok (Val (logl, mn_j, va_j)) =>
      if (negb (valid_moments N__ F__ H__ mn_j va_j)) then
        Ok Nan
      else
      match (approximate_gamma_mom N__ F__ H__ mn_j va_j) with
      | Err e__ => Err e__
      | Ok proj_j =>
          Ok (Val (logl, proj_j))
      end
  | Ok Nan =>
      Ok Nan
  end.

(** tsdate/approx.py:852-875  [mutation_gamma_projection]   uses: H exp isfinite lit *)
Definition mutation_gamma_projection (N__ : Num) (F__ : Fns N__) (H__ : HypFns N__) (pars_i : (T N__ * T N__)) (pars_j : (T N__ * T N__)) (pars_ij : (T N__ * T N__)) : exc (nanv (T N__ * (T N__ * T N__))) :=
  let '(a_i, b_i) := pars_i in
  let '(a_j, b_j) := pars_j in
  let '(y_ij, mu_ij) := pars_ij in
  let a_i := (Num.add N__ a_i (Num.ofZ N__ (1)%Z)) in
  let a_j := (Num.add N__ a_j (Num.ofZ N__ (1)%Z)) in
  match (mutation_moments N__ F__ H__ a_i b_i a_j b_j y_ij mu_ij) with
  | Err e__ => Err e__
  | Ok (Val (mn_m, va_m)) =>
      if (negb (valid_moments N__ F__ H__ mn_m va_m)) then
        Ok Nan
      else
      match (approximate_gamma_mom N__ F__ H__ mn_m va_m) with
      | Err e__ => Err e__
      | Ok proj_m =>
          Ok (Val ((f_lit N__ F__ (1)%Z (1)%Z 0x1.0000000000000p+0%float), proj_m))
      end
  | Ok Nan =>
      Ok Nan
  end.

(** tsdate/approx.py:879-899  [mutation_leafward_projection]   uses: H exp isfinite lit log *)
Definition mutation_leafward_projection (N__ : Num) (F__ : Fns N__) (H__ : HypFns N__) (t_i : T N__) (pars_j : (T N__ * T N__)) (pars_ij : (T N__ * T N__)) : exc (nanv (T N__ * (T N__ * T N__))) :=
  let '(a_j, b_j) := pars_j in
  let '(y_ij, mu_ij) := pars_ij in
  let a_j := (Num.add N__ a_j (Num.ofZ N__ (1)%Z)) in
  match (mutation_leafward_moments N__ F__ H__ t_i a_j b_j y_ij mu_ij) with
  | Err e__ => Err e__
  | Ok (Val (mn_m, va_m)) =>
      if (negb (valid_moments N__ F__ H__ mn_m va_m)) then
        Ok Nan
      else
      match (approximate_gamma_mom N__ F__ H__ mn_m va_m) with
      | Err e__ => Err e__
      | Ok proj_m =>
          Ok (Val ((f_lit N__ F__ (1)%Z (1)%Z 0x1.0000000000000p+0%float), proj_m))
      end
  | Ok Nan =>
      Ok Nan
  end.

(** tsdate/approx.py:903-923  [mutation_rootward_projection]   uses: H isfinite lgamma lit log *)
Definition mutation_rootward_projection (N__ : Num) (F__ : Fns N__) (H__ : HypFns N__) (t_j : T N__) (pars_i : (T N__ * T N__)) (pars_ij : (T N__ * T N__)) : exc (nanv (T N__ * (T N__ * T N__))) :=
  let '(a_i, b_i) := pars_i in
  let '(y_ij, mu_ij) := pars_ij in
  let a_i := (Num.add N__ a_i (Num.ofZ N__ (1)%Z)) in
  match (mutation_rootward_moments N__ F__ H__ t_j a_i b_i y_ij mu_ij) with
  | Err e__ => Err e__
  | Ok (Val (mn_m, va_m)) =>
      if (negb (valid_moments N__ F__ H__ mn_m va_m)) then
        Ok Nan
      else
      match (approximate_gamma_mom N__ F__ H__ mn_m va_m) with
      | Err e__ => Err e__
      | Ok proj_m =>
          Ok (Val ((f_lit N__ F__ (1)%Z (1)%Z 0x1.0000000000000p+0%float), proj_m))
      end
  | Ok Nan =>
      Ok Nan
  end.

(** tsdate/approx.py:927-941  [mutation_edge_projection]   uses: isfinite lit *)
Definition mutation_edge_projection (N__ : Num) (F__ : Fns N__) (H__ : HypFns N__) (t_i : T N__) (t_j : T N__) : exc (nanv (T N__ * (T N__ * T N__))) :=
  let '(mn_m, va_m) := (mutation_edge_moments N__ F__ H__ t_i t_j) in
  if (negb (valid_moments N__ F__ H__ mn_m va_m)) then
    Ok Nan
  else
  match (approximate_gamma_mom N__ F__ H__ mn_m va_m) with
  | Err e__ => Err e__
  | Ok proj_m =>
      Ok (Val ((f_lit N__ F__ (1)%Z (1)%Z 0x1.0000000000000p+0%float), proj_m))
  end.

(** tsdate/approx.py:945-969  [mutation_unphased_projection]   uses: H exp isfinite lit *)
Definition mutation_unphased_projection (N__ : Num) (F__ : Fns N__) (H__ : HypFns N__) (pars_i : (T N__ * T N__)) (pars_j : (T N__ * T N__)) (pars_ij : (T N__ * T N__)) : exc (nanv (T N__ * (T N__ * T N__))) :=
  let '(a_i, b_i) := pars_i in
  let '(a_j, b_j) := pars_j in
  let '(y_ij, mu_ij) := pars_ij in
  let a_i := (Num.add N__ a_i (Num.ofZ N__ (1)%Z)) in
  let a_j := (Num.add N__ a_j (Num.ofZ N__ (1)%Z)) in
  match (mutation_unphased_moments N__ F__ H__ a_i b_i a_j b_j y_ij mu_ij) with
  | Err e__ => Err e__
  | Ok (Val (pr_m, mn_m, va_m)) =>
      if (orb (negb (valid_moments N__ F__ H__ mn_m va_m)) (negb (andb (Num.leb N__ (Num.ofZ N__ (0)%Z) pr_m) (Num.leb N__ pr_m (Num.ofZ N__ (1)%Z))))) then
        Ok Nan
      else
      match (approximate_gamma_mom N__ F__ H__ mn_m va_m) with
      | Err e__ => Err e__
      | Ok proj_m =>
          Ok (Val (pr_m, proj_m))
      end
  | Ok Nan =>
      Ok Nan
  end.

(** tsdate/approx.py:973-993  [mutation_twin_projection]   uses: isfinite lit *)
Definition mutation_twin_projection (N__ : Num) (F__ : Fns N__) (H__ : HypFns N__) (pars_i : (T N__ * T N__)) (pars_ij : (T N__ * T N__)) : exc (nanv (T N__ * (T N__ * T N__))) :=
  let '(a_i, b_i) := pars_i in
  let '(y_ij, mu_ij) := pars_ij in
  let a_i := (Num.add N__ a_i (Num.ofZ N__ (1)%Z)) in
  let '(pr_m, mn_m, va_m) := (mutation_twin_moments N__ F__ H__ a_i b_i y_ij mu_ij) in
  if (orb (negb (valid_moments N__ F__ H__ mn_m va_m)) (negb (andb (Num.leb N__ (Num.ofZ N__ (0)%Z) pr_m) (Num.leb N__ pr_m (Num.ofZ N__ (1)%Z))))) then
    Ok Nan
  else
  match (approximate_gamma_mom N__ F__ H__ mn_m va_m) with
  | Err e__ => Err e__
  | Ok proj_m =>
      Ok (Val (pr_m, proj_m))
  end.

(** tsdate/approx.py:997-1018  [mutation_sideways_projection]   uses: H exp isfinite lit *)
Definition mutation_sideways_projection (N__ : Num) (F__ : Fns N__) (H__ : HypFns N__) (t_i : T N__) (pars_j : (T N__ * T N__)) (pars_ij : (T N__ * T N__)) : exc (nanv (T N__ * (T N__ * T N__))) :=
  let '(a_j, b_j) := pars_j in
  let '(y_ij, mu_ij) := pars_ij in
  let a_j := (Num.add N__ a_j (Num.ofZ N__ (1)%Z)) in
  match (mutation_sideways_moments N__ F__ H__ t_i a_j b_j y_ij mu_ij) with
  | Err e__ => Err e__
  | Ok (Val (pr_m, mn_m, va_m)) =>
      if (orb (negb (valid_moments N__ F__ H__ mn_m va_m)) (negb (andb (Num.leb N__ (Num.ofZ N__ (0)%Z) pr_m) (Num.leb N__ pr_m (Num.ofZ N__ (1)%Z))))) then
        Ok Nan
      else
      match (approximate_gamma_mom N__ F__ H__ mn_m va_m) with
      | Err e__ => Err e__
      | Ok proj_m =>
          Ok (Val (pr_m, proj_m))
      end
  | Ok Nan =>
      Ok Nan
  end.

(** tsdate/approx.py:1022-1037  [mutation_block_projection]   uses: isfinite lit *)
Definition mutation_block_projection (N__ : Num) (F__ : Fns N__) (H__ : HypFns N__) (t_i : T N__) (t_j : T N__) : exc (nanv (T N__ * (T N__ * T N__))) :=
  match (mutation_block_moments N__ F__ H__ t_i t_j) with
  | Err e__ => Err e__
  | Ok (pr_m, mn_m, va_m) =>
      if (orb (negb (valid_moments N__ F__ H__ mn_m va_m)) (negb (andb (Num.leb N__ (Num.ofZ N__ (0)%Z) pr_m) (Num.leb N__ pr_m (Num.ofZ N__ (1)%Z))))) then
        Ok Nan
      else
      match (approximate_gamma_mom N__ F__ H__ mn_m va_m) with
      | Err e__ => Err e__
      | Ok proj_m =>
          Ok (Val (pr_m, proj_m))
      end
  end.

