(** * Model of the interval logic of [tsdate.util.preprocess_ts]  (util.py:121-178, C28).

    Only the part that tsdate owns is modelled: the argument checks and the computation of
    the genomic intervals handed to tskit's [delete_intervals] (which removes [[l, r)]);
    [delete_intervals], [simplify], [sort] and [split_disjoint_nodes] are external here.
    Coordinates are elements of the numeric instance ([R] for the theorems, binary64 for the
    correspondence; positions need not be integers).  No proofs in this file. *)
From Coq Require Import List Bool ZArith.
From TsdateV Require Import lib.Num.
Import ListNotations.

Section Preprocess.
  Variable N : Num.
  Notation T := (T N).

  Definition interval : Type := (T * T)%type.

  (** util.py:151-166 : the flanks before the first and after the last site *)
  Definition left_flank (sites : list T) : list interval :=
    match sites with
    | [] => []
    | s0 :: _ =>
        let first_site := sub N s0 (one N) in
        if ltb N (zero N) first_site then [(zero N, first_site)] else []
    end.

  Definition right_flank (L : T) (sites : list T) : list interval :=
    match sites with
    | [] => []
    | s0 :: _ =>
        let last_site := add N (last sites s0) (one N) in
        if ltb N last_site L then [(last_site, L)] else []
    end.

  (** util.py:167-177 : gaps between consecutive sites of at least [minimum_gap] *)
  Fixpoint gaps (minimum_gap : T) (sites : list T) : list interval :=
    match sites with
    | a :: ((b :: _) as rest) =>
        (if leb N minimum_gap (sub N b a) then
           let gap_start := add N a (one N) in
           let gap_end := sub N b (one N) in
           if ltb N gap_start gap_end then [(gap_start, gap_end)] else []
         else [])
        ++ gaps minimum_gap rest
    | _ => []
    end.

  (** util.py:178 : [sorted(delete_intervals, key=lambda x: x[0])] -- a stable sort *)
  Fixpoint insert (x : interval) (l : list interval) : list interval :=
    match l with
    | [] => [x]
    | y :: r => if leb N (fst x) (fst y) then x :: l else y :: insert x r
    end.
  Fixpoint sort_by_left (l : list interval) : list interval :=
    match l with
    | [] => []
    | x :: r => insert x (sort_by_left r)
    end.

  Definition unsorted_intervals (erase_flanks : bool) (minimum_gap L : T) (sites : list T) : list interval :=
    (if erase_flanks then left_flank sites ++ right_flank L sites else []) ++ gaps minimum_gap sites.

  Definition computed_intervals (erase_flanks : bool) (minimum_gap L : T) (sites : list T) : list interval :=
    sort_by_left (unsorted_intervals erase_flanks minimum_gap L sites).

  (** ** the argument handling, util.py:123-150.
      [None] = ValueError.  The result is the list handed to [delete_intervals] (and written
      to the provenance record). *)
  Definition default_minimum_gap : T := ofZ N 1000000%Z.

  Definition preprocess_intervals
             (remove_telomeres erase_flanks : option bool) (minimum_gap : option T)
             (delete_intervals : option (list interval)) (L : T) (sites : list T)
    : option (list interval) :=
    (* 127-131 *)
    match (match remove_telomeres, erase_flanks with
           | Some _, Some _ => None                       (* both given: ValueError *)
           | Some r, None => Some (Some r)
           | None, e => Some e
           end) with
    | None => None
    | Some erase =>
        (* 133-138 *)
        match delete_intervals with
        | Some ivs =>
            match minimum_gap, erase with
            | None, None => Some ivs                      (* passed on verbatim *)
            | _, _ => None                                (* ValueError *)
            end
        | None =>
            (* 143-149 *)
            match sites with
            | [] => None                                  (* ValueError: no sites present *)
            | _ => Some (computed_intervals
                           (match erase with Some e => e | None => true end)
                           (match minimum_gap with Some g => g | None => default_minimum_gap end)
                           L sites)
            end
        end
    end.
End Preprocess.
