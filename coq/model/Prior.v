(** * Model of the conditional coalescent prior of [tsdate/prior.py] (property C14).

    Modelled functions (source lines of /repo/tsdate/prior.py):
    - [lognorm_approx] (54-61), [gamma_approx] (64-69);
    - [_marginalize_over_ancestors] (72-93);
    - [conditional_coalescent_variance] (96-120);
    - [ConditionalCoalescentTimes.tau_expect] (336-341), [tau_var_mrca] (343-347);
    - the rows [priors[tips]], tips >= 2, filled by [ConditionalCoalescentTimes.add]
      (239-254) on the exact path ([tau_var_exact], 367-368).

    No proofs in this file.

    The code keeps [Pr(a | k, n)] in log space ([np.log], [np.exp]).  The model keeps
    the structure of the two loops and is written against a small "log domain"
    interface [LogDom]; it is instantiated
    - with real logarithms ([RLogDom]: [ln], [exp], [+], [-]) -- the faithful reading
      of the code, used in the theorems;
    - with the linear representation ([LinDom]: a "log" is the number itself, [+] is
      [*], [-] is [/], [exp] is the identity) -- executable over [Q] (exact) and over
      binary64 [PrimFloat].
    The theorems show that over [R] both instances compute the same closed form. *)
From Coq Require Import List ZArith Bool Reals Rpower.
From TsdateV Require Import lib.Num.
Import ListNotations.

Record LogDom (N : Num) := mkLogDom {
  L     : Type;
  lzero : L;                 (* the literal [0.0] that starts [pr_a_ln] *)
  lnZ   : Z -> L;            (* [np.log(<integer expression>)] *)
  ladd  : L -> L -> L;       (* [+] between logs *)
  lsub  : L -> L -> L;       (* [-] between logs *)
  lex   : L -> T N           (* [np.exp] *)
}.
Arguments L {N}. Arguments lzero {N}. Arguments lnZ {N}. Arguments ladd {N}.
Arguments lsub {N}. Arguments lex {N}.

Definition LinDom (N : Num) : LogDom N :=
  @mkLogDom N (T N) (one N) (ofZ N) (mul N) (div N) (fun x => x).

Definition RLogDom : LogDom RNum :=
  @mkLogDom RNum R 0%R (fun z => ln (IZR z)) Rplus Rminus exp.

Definition last_opt {A} (l : list A) : option A :=
  match rev l with [] => None | x :: _ => Some x end.

Fixpoint map2 {A B C} (f : A -> B -> C) (l1 : list A) (l2 : list B) : list C :=
  match l1, l2 with
  | x :: r1, y :: r2 => f x y :: map2 f r1 r2
  | _, _ => []
  end.

Section Marginalize.
  Variable N : Num.
  Variable D : LogDom N.
  Notation T := (T N).
  Notation Zn := Z.of_nat.

  (** inner loop, for one [k]:
      <<
      for a in range(2, n - k + 2):
          out[k] += np.exp(pr_a_ln[a]) * val[a]
          if k > 2:
              pr_a_ln[a] += const - np.log(n - a - k + 2)
      >>
      [pr] and [val] are the suffixes [pr_a_ln[a:]], [val[a:]] (one column of [val]; the
      columns of [val] do not interact); [cnt] iterations remain.  [None] = IndexError. *)
  Fixpoint marg_inner (n k : nat) (const : L D) (cnt a : nat) (pr : list (L D))
           (val : list T) (acc : T) : option (T * list (L D)) :=
    match cnt with
    | O => Some (acc, pr)
    | S c =>
        match pr, val with
        | p :: pr', v :: val' =>
            let acc' := add N acc (mul N (lex D p) v) in
            let p' := if (2 <? k)%nat
                      then ladd D p (lsub D const (lnZ D (Zn n - Zn a - Zn k + 2)))
                      else p in
            match marg_inner n k const c (S a) pr' val' acc' with
            | Some (r, prs) => Some (r, p' :: prs)
            | None => None
            end
        | _, _ => None
        end
    end.

  (** outer loop [for k in range(n - 1, 1, -1)]; [ks] = remaining values of [k];
      [pr] = [pr_a_ln[2:]]; [val2] = [val[2:]]; [outs] = the rows [out[k]] computed so
      far, most recent (smallest [k]) first.
      <<
      const = np.log(n - k) + np.log(k - 2) - np.log(k + 1)
      ... inner loop ...
      if k > 2:
          pr_a_ln.append(pr_a_ln[-1] + np.log(n - k + 2) - np.log(k + 1) - const)
      >> *)
  Fixpoint marg_outer (n : nat) (val2 : list T) (ks : list nat) (pr : list (L D))
           (outs : list T) : option (list T) :=
    match ks with
    | [] => Some outs
    | k :: ks' =>
        let const := lsub D (ladd D (lnZ D (Zn n - Zn k)) (lnZ D (Zn k - 2)))
                            (lnZ D (Zn k + 1)) in
        match marg_inner n k const (n - k) 2 pr val2 (zero N) with
        | None => None
        | Some (r, pr') =>
            if (2 <? k)%nat then
              match last_opt pr' with
              | None => None
              | Some pl =>
                  let pnew := lsub D (lsub D (ladd D pl (lnZ D (Zn n - Zn k + 2)))
                                             (lnZ D (Zn k + 1))) const in
                  marg_outer n val2 ks' (pr' ++ [pnew]) (r :: outs)
              end
            else marg_outer n val2 ks' pr' (r :: outs)
        end
    end.

  (** [_marginalize_over_ancestors] on one column [val] of length [n];
      result has [n + 1] entries ([out[0] = out[1] = 0], [out[n] = val[1]]). *)
  Definition marginalize (val : list T) : option (list T) :=
    let n := length val in
    match val with
    | _ :: v1 :: val2 =>
        match marg_outer n val2 (rev (seq 2 (n - 2))) [lzero D] [] with
        | Some outs => Some (zero N :: zero N :: outs ++ [v1])
        | None => None
        end
    | _ => None
    end.

  (** [2 / (i * (i - 1)) if i > 1 else 0.0] *)
  Definition coal_rate (i : nat) : T :=
    if (1 <? i)%nat then div N (ofZ N 2) (ofZ N (Zn i * (Zn i - 1))) else zero N.

  (** [for i in range(size - 2, 0, -1): x[i] += x[i + 1]] on [x[1:]] *)
  Fixpoint suffix_sums (l : list T) : list T :=
    match l with
    | [] => []
    | x :: r => match suffix_sums r with
                | [] => [x]
                | (s :: _) as sr => add N x s :: sr
                end
    end.

  Definition keep_head_suffix (l : list T) : list T :=
    match l with [] => [] | x0 :: r => x0 :: suffix_sums r end.

  Definition coal_rates (n : nat) : list T := map coal_rate (seq 1 n).
  (** [mean] and [variance] after the accumulation loop, indexed by [a] = 0 .. n-1 *)
  Definition hypo_mean (n : nat) : list T := keep_head_suffix (coal_rates n).
  Definition hypo_var (n : nat) : list T :=
    keep_head_suffix (map (fun c => mul N c c) (coal_rates n)).
  (** second column of [np.stack((mean, variance + mean**2), 1)] *)
  Definition hypo_m2 (n : nat) : list T :=
    map2 (fun v m => add N v (mul N m m)) (hypo_var n) (hypo_mean n).

  (** [conditional_coalescent_variance(num_tips)], indexed by [k] = 0 .. n *)
  Definition ccv (n : nat) : option (list T) :=
    match marginalize (hypo_mean n), marginalize (hypo_m2 n) with
    | Some e1, Some e2 => Some (map2 (fun b a => sub N b (mul N a a)) e2 e1)
    | _, _ => None
    end.

  Definition ccv_at (n k : nat) : option T :=
    match ccv n with Some l => nth_error l k | None => None end.

  (** [tau_expect(i, n)] *)
  Definition tau_expect (i n : nat) : T :=
    if Nat.eqb i n then mul N (ofZ N 2) (sub N (one N) (div N (one N) (ofZ N (Zn n))))
    else div N (ofZ N (Zn i - 1)) (ofZ N (Zn n)).

  Definition absT (x : T) : T := if ltb N x (zero N) then neg N x else x.

  (** [tau_var_mrca(n)]: [abs(4 * sum(1 / (value**2 * (value - 1)**2)))], value = 2..n
      (integer products, then one division; summed left to right here, numpy sums
      pairwise -- the float correspondence of this function uses a tolerance) *)
  Definition tau_var_mrca (n : nat) : T :=
    absT (mul N (ofZ N 4)
            (fold_left (fun s v => add N s (div N (one N)
                           (ofZ N ((Zn v * Zn v) * ((Zn v - 1) * (Zn v - 1))))))
                       (seq 2 (n - 1)) (zero N))).

  (** [gamma_approx(mean, variance)] = (alpha, beta) *)
  Definition gamma_approx (mean var : T) : T * T :=
    (div N (mul N mean mean) var, div N mean var).

  (** [lognorm_approx(mean, var)] = (alpha, beta); [ln] is the natural logarithm *)
  Definition lognorm_approx (ln : T -> T) (mean var : T) : T * T :=
    let beta := ln (add N (div N var (mul N mean mean)) (one N)) in
    let alpha := sub N (ln mean) (mul N (div N (one N) (ofZ N 2)) beta) in
    (alpha, beta).

  (** the row [priors[tips]] = (alpha, beta, mean, var) for 2 <= tips <= total_tips,
      exact path; [approx] is [gamma_approx] or [lognorm_approx ln] *)
  Definition cct_row (approx : T -> T -> T * T) (n k : nat) : option (T * T * T * T) :=
    match ccv_at n k with
    | Some var => let e := tau_expect k n in
                  let '(alpha, beta) := approx e var in
                  Some (alpha, beta, e, var)
    | None => None
    end.
End Marginalize.
