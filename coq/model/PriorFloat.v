(** * binary64 helpers for the correspondence runs of the prior family (C14, C16).
    [fln] is a plain double-precision natural logarithm (argument reduction with
    [frshiftexp], then the atanh series), accurate to a few ulp for positive finite
    normal arguments.  It is used ONLY as the [ln] argument of [lognorm_approx] when the
    model is evaluated on [FNum] and compared with the implementation under a tolerance;
    no theorem mentions it.  No proofs in this file. *)
From Coq Require Import ZArith PrimFloat Uint63.
From TsdateV Require Import lib.Num.

Definition fZ (z : Z) : float := ofZ FNum z.

Definition fln (x : float) : float :=
  let '(m0, e) := frshiftexp x in
  let ez0 := (Uint63.to_Z e - 2101)%Z in
  let '(m, ez) := if PrimFloat.ltb m0 0x1.6a09e667f3bcdp-1%float
                  then (PrimFloat.mul m0 2%float, (ez0 - 1)%Z) else (m0, ez0) in
  let z := PrimFloat.div (PrimFloat.sub m 1%float) (PrimFloat.add m 1%float) in
  let z2 := PrimFloat.mul z z in
  let term k acc := PrimFloat.add (PrimFloat.div 1%float (fZ k)) (PrimFloat.mul z2 acc) in
  let s := term 1%Z (term 3%Z (term 5%Z (term 7%Z (term 9%Z (term 11%Z (term 13%Z (term 15%Z
           (term 17%Z (term 19%Z (term 21%Z (term 23%Z (term 25%Z 0%float)))))))))))) in
  PrimFloat.add (PrimFloat.mul (PrimFloat.mul 2%float z) s)
                (PrimFloat.mul (fZ ez) 0x1.62e42fefa39efp-1%float).
