(** * Model of the discretised prior grid of [tsdate/prior.py] (property C16).

    Modelled (source lines of /repo/tsdate/prior.py unless stated):
    - [create_timepoints] (974-1046);
    - the per-node row of [fill_priors] (1088-1097) followed by
      [NodeTimeValues.standardize] (node_time_class.py 139-152, linear space);
    - the order / membership of [nonfixed_nodes] in [fill_priors] (1076-1085);
    - the timepoint handling of [MixturePrior.make_discretised_prior] (1161-1184).

    The distribution functions of scipy are parameters: [cdf i t] / [ppf i p] stand for
    the cdf / percent-point function of the prior row of a node with [i] descendant
    tips ([prior_params[i, param_cols]]).  The time-scale changes of
    [demography.PopulationSizeHistory] (property C17, not modelled here) are parameters
    too.  No proofs in this file. *)
From Coq Require Import List ZArith Bool.
From TsdateV Require Import lib.Num.
Import ListNotations.

Section Grid.
  Variable N : Num.
  Notation T := (T N).
  Notation Zn := Z.of_nat.

  Definition absN (x : T) : T := if ltb N x (zero N) then neg N x else x.

  (** Python's [min(xs)] on a non-empty sequence: keep the first minimum *)
  Definition minl (x0 : T) (xs : list T) : T :=
    fold_left (fun m x => if ltb N x m then x else m) xs x0.
  (** [np.max] *)
  Definition maxl (x0 : T) (xs : list T) : T :=
    fold_left (fun m x => if ltb N m x then x else m) xs x0.

  (** insertion sort (any sort gives the same sorted sequence) *)
  Fixpoint insert (x : T) (l : list T) : list T :=
    match l with
    | [] => [x]
    | y :: r => if leb N x y then x :: l else y :: insert x r
    end.
  Fixpoint sort (l : list T) : list T :=
    match l with [] => [] | x :: r => insert x (sort r) end.

  (** [np.linspace(0, 1, n_points + 1)[1:-1]]: [j * (1 / n_points)], j = 1 .. n_points-1 *)
  Definition percentiles (npts : nat) : list T :=
    map (fun j => mul N (ofZ N (Zn j)) (div N (one N) (ofZ N (Zn npts)))) (seq 1 (npts - 1)).

  Section Timepoints.
    Variable cdf ppf : nat -> T -> T.

    (** [min(abs(val - proj))]; [None] if [proj] is empty (Python: ValueError) *)
    Definition min_abs_diff (val : T) (proj : list T) : option T :=
      match map (fun c => absN (sub N val c)) proj with
      | [] => None
      | d :: ds => Some (minl d ds)
      end.

    (** one iteration of the loop over [i]:
        <<
        proj = cdf(t_set, *prior_params[i, param_cols])
        tmp = np.asarray([min(abs(val - proj)) for val in percentiles])
        wd = np.where(tmp > max_sep)
        if len(wd[0]) > 0:
            t_set = np.concatenate([t_set, ppf(percentiles[wd], *prior_params[i, param_cols])])
        >> *)
    Definition tp_step (max_sep : T) (pcs : list T) (tset : option (list T)) (i : nat)
      : option (list T) :=
      match tset with
      | None => None
      | Some ts =>
          let proj := map (cdf i) ts in
          match proj with
          | [] => None
          | _ =>
              let wd := filter (fun p => match min_abs_diff p proj with
                                         | Some d => ltb N max_sep d
                                         | None => false end) pcs in
              Some (ts ++ map (ppf i) wd)
          end
      end.

    (** [create_timepoints(base_priors, n_points)] where the prior table has rows
        0 .. [max_n] ([max_tips = max_n + 1]); [None]: the code raises
        (n_points = 1: ZeroDivisionError; n_points <= 1 gives an empty percentile set) *)
    Definition create_timepoints (max_n npts : nat) : option (list T) :=
      if (npts <? 2)%nat then None
      else
        let pcs := percentiles npts in
        let max_sep := div N (one N) (ofZ N (Zn npts - 1)) in
        let t0 := map (ppf 2) pcs in
        match fold_left (tp_step max_sep pcs) (seq 3 (max_n + 1 - 3)) (Some t0) with
        | None => None
        | Some ts => Some (zero N :: sort ts)
        end.
  End Timepoints.

  (** [np.diff] *)
  Fixpoint diff (l : list T) : list T :=
    match l with
    | x :: ((y :: _) as r) => sub N y x :: diff r
    | _ => []
    end.

  (** the row of one non-sample node: [cs] = [cdf_func(timepoints, main, scale=scale)]
      <<
      prior_node = np.divide(prior_node, np.max(prior_node))
      prior_times[node] = np.concatenate([np.array([0]), np.diff(prior_node)])
      ...  standardize():  rowmax = grid_data[:, 1:].max(axis=1); grid_data / rowmax
      >>
      [None] when [np.max] is taken over an empty sequence (fewer than 2 timepoints) *)
  Definition prior_row (cs : list T) : option (list T) :=
    match cs with
    | [] => None
    | c0 :: cr =>
        let mx := maxl c0 cr in
        let pn := map (fun c => div N c mx) cs in
        let r := zero N :: diff pn in
        match diff pn with
        | [] => None
        | d0 :: dr => let rm := maxl d0 dr in Some (map (fun x => div N x rm) r)
        end
    end.
End Grid.

(** ** which nodes get a row: [datable_nodes[np.argsort(nodes_time[datable_nodes])]] *)
Section Nonfixed.
  Variable N : Num.
  (** stable insertion by node time; numpy's default argsort is not stable: only the
      multiset of ids and the non-decreasing times are compared with the code *)
  Fixpoint insert_by (time : nat -> T N) (u : nat) (l : list nat) : list nat :=
    match l with
    | [] => [u]
    | v :: r => if ltb N (time u) (time v) then u :: l else v :: insert_by time u r
    end.
  Definition nonfixed_nodes (num_nodes : nat) (is_sample : nat -> bool) (time : nat -> T N)
    : list nat :=
    fold_right (insert_by time) [] (filter (fun u => negb (is_sample u)) (seq 0 num_nodes)).
End Nonfixed.

(** ** the timepoints argument of [make_discretised_prior] *)
Section Request.
  Variable N : Num.
  Notation T := (T N).
  Variable cdf ppf : nat -> T -> T.
  Variable to_coalescent to_natural : T -> T.   (* PopulationSizeHistory, elementwise *)

  Inductive request := ReqCount (k : nat) | ReqGrid (g : list T).

  Fixpoint has_dup (l : list T) : bool :=      (* on a sorted list *)
    match l with
    | x :: ((y :: _) as r) => eqb N x y || has_dup r
    | _ => false
    end.

  (** coalescent-scale timepoints handed to [fill_priors]; [None] = ValueError *)
  Definition request_timepoints (max_n : nat) (rq : request) : option (list T) :=
    match rq with
    | ReqCount k => if (k <? 2)%nat then None else create_timepoints N cdf ppf max_n (k + 1)
    | ReqGrid g =>
        let s := sort N g in
        if (length s <? 2)%nat then None
        else if existsb (fun x => ltb N x (zero N)) s then None
        else if has_dup s then None
        else Some (map to_coalescent s)
    end.

  (** [prior.timepoints] as stored by [fill_priors] *)
  Definition stored_timepoints (max_n : nat) (rq : request) : option (list T) :=
    match request_timepoints max_n rq with
    | Some tp => Some (map to_natural tp)
    | None => None
    end.
End Request.
