(** * Model of [tsdate/demography.py], class [PopulationSizeHistory] (C17):
    [_change_time_measure], the constructor, [to_natural_timescale],
    [to_coalescent_timescale], [as_dict], [gamma_to_natural].

    Polymorphic in [Num] (theorems over [RNum], examples over [QNum], correspondence with
    the numpy code over [FNum]: same operation order, numpy's [cumsum] accumulates left to
    right).  The special functions of [gamma_to_natural] (regularised incomplete gamma,
    Gamma, power, the normalising constant) are function arguments.
    [np.isfinite] in the constructor is not modelled ([Num] has no infinity): the
    correspondence uses finite inputs; rejection of inf/nan is checked by the oracle only.
    No proofs in this file. *)
From Coq Require Import List Arith Bool.
From TsdateV Require Import lib.Num model.Rescale.
Import ListNotations.

Section Demography.
  Variable N : Num.
  Notation T := (T N).
  Notation nthT := (nthT N).

  (** [np.cumsum(breakpoints[1:] * (1.0 / time_measure[:-1] - 1.0 / time_measure[1:]))]
      (demography.py:61-63); numpy copies the first term and then accumulates left to right *)
  Definition step_incs (brk tm : list T) : list T :=
    map (fun k => mul N (nthT brk (S k))
                    (sub N (div N (one N) (nthT tm k)) (div N (one N) (nthT tm (S k)))))
        (seq 0 (length brk - 1)).

  Definition cumsum1 (l : list T) : list T :=
    match l with [] => [] | x :: r => x :: cumsum_from N x r end.

  Definition steps (brk tm : list T) : list T := zero N :: cumsum1 (step_incs brk tm).

  (** the five assertions of demography.py:52-56 *)
  Definition ctm_ok (ts brk tm : list T) : bool :=
    strict_inc N brk && negb (length brk =? 0) && eqb N (nthT brk 0) (zero N)
    && forallb (fun x => leb N (zero N) x) ts
    && forallb (fun m => ltb N (zero N) m) tm
    && (length brk =? length tm).

  (** [time_ago * 1.0 / time_measure[index] + step[index]], index = searchsorted(.., right) - 1 *)
  Definition ctm_at (brk tm st : list T) (x : T) : T :=
    let i := widx N brk x in
    add N (div N (mul N x (one N)) (nthT tm i)) (nthT st i).

  (** [_change_time_measure]: (new_time_ago, new_breakpoints, new_time_measure) *)
  Definition change_time_measure (ts brk tm : list T) : option (list T * list T * list T) :=
    if ctm_ok ts brk tm then
      let st := steps brk tm in
      Some (map (ctm_at brk tm st) ts,
            map (fun k => add N (div N (mul N (nthT brk k) (one N)) (nthT tm k)) (nthT st k))
                (seq 0 (length brk)),
            map (fun m => div N (one N) m) tm)
    else None.

  (** the object: time_breaks (with the leading 0), population_size (already doubled),
      coalescent_breaks, coalescent_rate *)
  Record history := mkHist { h_tb : list T; h_ps : list T; h_cb : list T; h_cr : list T }.

  (** [__init__] (demography.py:71-122); [None] = ValueError *)
  Definition mk_history (pop brks : list T) : option history :=
    if forallb (fun x => ltb N (zero N) x) pop
       && (length brks =? length pop - 1) && negb (length pop =? 0)
       && forallb (fun x => ltb N (zero N) x) brks
       && strict_inc N brks
    then
      let tb := zero N :: brks in
      let ps := map (fun x => mul N (two N) x) pop in
      match change_time_measure tb tb ps with
      | Some (_, cb, cr) => Some (mkHist tb ps cb cr)
      | None => None
      end
    else None.

  Definition to_coalescent (h : history) (ts : list T) : option (list T) :=
    match change_time_measure ts (h_tb h) (h_ps h) with
    | Some (r, _, _) => Some r
    | None => None
    end.

  Definition to_natural (h : history) (cs : list T) : option (list T) :=
    match change_time_measure cs (h_cb h) (h_cr h) with
    | Some (r, _, _) => Some r
    | None => None
    end.

  (** [as_dict]: (population_size / 2, time_breaks[1:]) *)
  Definition as_dict (h : history) : list T * list T :=
    (map (fun x => div N x (two N)) (h_ps h), tl (h_tb h)).

  (** [gamma_to_natural] (demography.py:169-213).
      [ginc a x] = scipy.special.gammainc(a, x) (regularised lower incomplete gamma; the code
      evaluates it at [rate * inf] for the last epoch: that value is the constant 1 here),
      [gam] = scipy.special.gamma, [powr r x] = r ** x,
      [cnorm shape rate] = exp(shape * log(rate) - loggamma(shape)), [sqs x] = x ** 2 (scalar). *)
  Section Gamma.
    Variable ginc : T -> T -> T.
    Variable gam : T -> T.
    Variable powr : T -> T -> T.
    Variable cnorm : T -> T -> T.
    (** [mn ** 2] on a numpy float64 SCALAR goes through libm's pow, which is not always
        the correctly rounded product [mn * mn] (array ** 2 is: numpy squares elementwise) *)
    Variable sqs : T -> T.

    (** [np.sum] of a contiguous float64 vector of at most 128 terms (numpy's pairwise
        summation): fewer than 8 terms left to right; otherwise 8 running sums over blocks
        of 8, combined as ((r0+r1)+(r2+r3))+((r4+r5)+(r6+r7)), then the remaining terms *)
    Definition sum1 (l : list T) : T :=
      match l with [] => zero N | x :: r => fold_left (add N) r x end.

    Fixpoint blocks8 (fuel : nat) (r l : list T) : list T * list T :=
      match fuel with
      | O => (r, l)
      | S f => if 8 <=? length l
               then blocks8 f (map (fun ab : T * T => add N (fst ab) (snd ab)) (combine r (firstn 8 l))) (skipn 8 l)
               else (r, l)
      end.

    Definition np_sum (l : list T) : T :=
      if length l <? 8 then sum1 l
      else match blocks8 (length l) (firstn 8 l) (skipn 8 l) with
           | ([r0; r1; r2; r3; r4; r5; r6; r7], rest) =>
               fold_left (add N) rest
                 (add N (add N (add N r0 r1) (add N r2 r3)) (add N (add N r4 r5) (add N r6 r7)))
           | _ => zero N
           end.

    Definition map2 (f : T -> T -> T) (a b : list T) : list T :=
      map (fun ab : T * T => f (fst ab) (snd ab)) (combine a b).

    (** [C * gamma(shape + j) / rate ** (shape + j) * np.diff(gammainc(shape + j, rate * cdf_breaks))] *)
    Definition cdf_part (h : history) (shape rate sj : T) : list T :=
      let c := div N (mul N (cnorm shape rate) (gam sj)) (powr rate sj) in
      let cdfs := map (fun b => ginc sj (mul N rate b)) (h_cb h) ++ [one N] in
      map (fun d => mul N c d) (diff N cdfs).

    Definition gamma_to_natural (h : history) (shape rate : T) : option (T * T) :=
      if ltb N (zero N) shape && ltb N (zero N) rate then
        let s0 := add N shape (zero N) in
        let s1 := add N shape (one N) in
        let s2 := add N shape (two N) in
        let cdf_0 := cdf_part h shape rate s0 in
        let cdf_1 := cdf_part h shape rate s1 in
        let cdf_2 := cdf_part h shape rate s2 in
        let mn_coef_0 := map2 (sub N) (h_tb h) (map2 (mul N) (h_ps h) (h_cb h)) in
        let va_coef_0 := map (fun x => mul N x x) mn_coef_0 in
        let mn_coef_1 := h_ps h in
        let va_coef_1 := map (fun x => mul N x (two N)) (map2 (mul N) mn_coef_0 mn_coef_1) in
        let va_coef_2 := map (fun x => mul N x x) mn_coef_1 in
        let mn := np_sum (map2 (add N) (map2 (mul N) mn_coef_1 cdf_1) (map2 (mul N) mn_coef_0 cdf_0)) in
        let va0 := np_sum (map2 (add N) (map2 (add N) (map2 (mul N) va_coef_2 cdf_2)
                                                    (map2 (mul N) va_coef_1 cdf_1))
                                      (map2 (mul N) va_coef_0 cdf_0)) in
        let va := sub N va0 (sqs mn) in                       (* va -= mn**2 *)
        Some (div N (sqs mn) va, div N mn va)
      else None.
  End Gamma.
End Demography.
