(** * Model of the changepoint helpers of [tsdate/rescaling.py]
    ([_fixed_changepoints], lines 52-66, and [_poisson_changepoints], lines 69-120).

    Numeric code is polymorphic in [Num]; indices are [nat]/[Z].  No proofs in this file. *)
From Coq Require Import List Arith ZArith Bool PrimFloat.
From TsdateV Require Import lib.Num.
Import ListNotations.

(** ** numpy vocabulary *)
Section Arr.
  Variable N : Num.
  Notation T := (T N).

  (** [np.cumsum]: sequential left-to-right additions; the first entry is the first
      element itself *)
  Fixpoint cumsum_from (acc : T) (l : list T) : list T :=
    match l with
    | [] => []
    | x :: r => let a := add N acc x in a :: cumsum_from a r
    end.
  Definition cumsum (l : list T) : list T :=
    match l with [] => [] | x :: r => x :: cumsum_from x r end.

  (** [np.append(0.0, np.cumsum(l))] *)
  Definition cum0 (l : list T) : list T := zero N :: cumsum l.

  (** [np.linspace(0, 1, epochs + 1)]: numpy and numba both compute
      [step = (stop - start) / (num - 1)], [y[k] = k * step + start], and then force
      [y[-1] = stop]. *)
  Definition linspace01 (epochs : nat) : list T :=
    let step := div N (sub N (one N) (zero N)) (ofZ N (Z.of_nat epochs)) in
    map (fun k => if Nat.eqb k epochs then one N
                  else add N (mul N (ofZ N (Z.of_nat k)) step) (zero N))
        (seq 0 (S epochs)).

  (** [np.searchsorted(a, v, "right")] on a non-decreasing [a]: the number of leading
      elements [x] with [not (v < x)].  (numpy/numba use a bisection; on a sorted array the
      documented result [a[i-1] <= v < a[i]] is this count.  The model is only compared
      with the code on non-negative counts, where [a] is sorted.) *)
  Fixpoint ss_right (a : list T) (v : T) : nat :=
    match a with
    | [] => 0
    | x :: r => if ltb N v x then 0 else S (ss_right r v)
    end.
End Arr.

Fixpoint upd_last {A} (f : A -> A) (l : list A) : list A :=
  match l with
  | [] => []
  | [x] => [f x]
  | x :: r => x :: upd_last f r
  end.

Definition upd_first {A} (f : A -> A) (l : list A) : list A :=
  match l with [] => [] | x :: r => f x :: r end.

(** ** [_fixed_changepoints(counts, epochs)]
    <<
    assert epochs > 0
    Y = np.append(0.0, np.cumsum(counts))
    Z = Y / Y[-1]
    z = np.linspace(0, 1, epochs + 1)
    e = np.searchsorted(Z, z, "right") - 1
    if e[0] > 0: e[0] = 0
    if e[-1] < counts.size: e[-1] = counts.size
    >>
    [None] models the failing assertion. *)
Section Fixed.
  Variable N : Num.
  Notation T := (T N).

  Definition mass_fractions (counts : list T) : list T :=
    let Y := cum0 N counts in
    let tot := last Y (zero N) in
    map (fun y => div N y tot) Y.

  Definition fixed_changepoints (counts : list T) (epochs : nat) : option (list Z) :=
    if Nat.eqb epochs 0 then None
    else
      let Zs := mass_fractions counts in
      let e := map (fun v => (Z.of_nat (ss_right N Zs v) - 1)%Z) (linspace01 N epochs) in
      let n := Z.of_nat (length counts) in
      let e1 := upd_first (fun x => if (0 <? x)%Z then 0%Z else x) e in
      let e2 := upd_last (fun x => if (x <? n)%Z then n else x) e1 in
      Some e2.
End Fixed.

(** ** Extended values: what a double can be in [_poisson_changepoints].
    [Inf] is [+inf] (an infeasible segment, or "no segmentation found yet"), [NaN] arises
    from [0 * log(0)].  [eadd] / [elt] follow IEEE-754 ([-inf] never occurs for positive
    offsets). *)
Inductive ext (A : Type) : Type :=
| Fin (x : A)
| Inf
| NaN.
Arguments Fin {A} x.
Arguments Inf {A}.
Arguments NaN {A}.

Section Ext.
  Variable N : Num.
  Notation T := (T N).

  Definition eadd (a b : ext T) : ext T :=
    match a, b with
    | NaN, _ => NaN
    | _, NaN => NaN
    | Inf, _ => Inf
    | _, Inf => Inf
    | Fin x, Fin y => Fin (add N x y)
    end.

  (** [a < b] *)
  Definition elt (a b : ext T) : bool :=
    match a, b with
    | Fin x, Fin y => ltb N x y
    | Fin _, Inf => true
    | _, _ => false
    end.
End Ext.

(** ** The PELT recursion of [_poisson_changepoints] over an abstract segment cost [f]
    <<
    F[0] = -penalty
    C = {0: []}
    for j in 1..dim:
        argmin, minval = 0, inf
        for i in C:                              # insertion order
            cost[i] = F[i] + f(i, j) + penalty
            if cost[i] < minval: minval = cost[i]; argmin = i
        F[j] = minval
        if prune:
            for i in set(C):
                if cost[i] > F[j] + penalty: C.pop(i)
        C[j] = np.append(C[argmin], argmin)
    breaks = np.append(C[dim], dim)
    >>
    [F] is the list [F[0..j]]; the dictionary [C] is an association list in insertion
    order; a failing dictionary lookup ([KeyError]) is [None]. *)
Section Pelt.
  Variable N : Num.
  Notation T := (T N).
  Variable f : nat -> nat -> ext T.
  Variable pen : T.
  Variable prune : bool.

  Definition cands : Type := list (nat * list nat).

  Fixpoint lookup (i : nat) (C : cands) : option (list nat) :=
    match C with
    | [] => None
    | (k, B) :: r => if Nat.eqb k i then Some B else lookup i r
    end.

  Definition cost_of (F : list (ext T)) (j i : nat) : ext T :=
    eadd N (eadd N (nth i F NaN) (f i j)) (Fin pen).

  (** the minimisation loop: strict [<], so the first smallest candidate wins *)
  Fixpoint argmin (cs : list (nat * ext T)) (best : nat * ext T) : nat * ext T :=
    match cs with
    | [] => best
    | (i, c) :: r => argmin r (if elt N c (snd best) then (i, c) else best)
    end.

  Definition pelt_step (st : list (ext T) * cands) (j : nat) : option (list (ext T) * cands) :=
    let '(F, C) := st in
    let costs := map (fun iB : nat * list nat => (fst iB, cost_of F j (fst iB))) C in
    let '(am, minval) := argmin costs (0, Inf) in
    let bound := eadd N minval (Fin pen) in
    let C' := if prune
              then filter (fun iB : nat * list nat => negb (elt N bound (cost_of F j (fst iB)))) C
              else C in
    match lookup am C' with
    | None => None
    | Some B => Some (F ++ [minval], C' ++ [(j, B ++ [am])])
    end.

  Fixpoint pelt_loop (js : list nat) (st : list (ext T) * cands) : option (list (ext T) * cands) :=
    match js with
    | [] => Some st
    | j :: r => match pelt_step st j with None => None | Some st' => pelt_loop r st' end
    end.

  Definition pelt_init : list (ext T) * cands := ([Fin (neg N pen)], [(0, [])]).

  Definition pelt (dim : nat) : option (list nat) :=
    match pelt_loop (seq 1 dim) pelt_init with
    | None => None
    | Some (_, C) => match lookup dim C with None => None | Some B => Some (B ++ [dim]) end
    end.
End Pelt.

(** ** [_poisson_changepoints(counts, offset, penalty, min_counts, min_offset)]
    <<
    assert counts.size == offset.size; assert min_counts >= 0
    assert min_offset >= 0;            assert penalty >= 0
    N = np.append(0, np.cumsum(offset));  Y = np.append(0, np.cumsum(counts))
    def f(i, j):
        n = N[j] - N[i];  y = Y[j] - Y[i]
        s = n < min_offset or y < min_counts
        return inf if s else -2 * y * (log(y) - log(n) - 1)
    prune  iff  min_counts <= 0 and min_offset <= 0
    >>
    [logf] is the natural logarithm (an explicit argument: [ln] over [R], a recorded table
    of libm values for the double run).  For [y = 0] the compiled code evaluates
    [log(0) = -inf] and [(-2*0) * (-inf) = nan]; that case is made explicit as [NaN] so
    that the [R] instance cannot silently use Coq's convention [ln 0 = 0].  Offsets are
    assumed positive ([n > 0] for [i < j]). *)
Section Poisson.
  Variable N : Num.
  Notation T := (T N).
  Variable logf : T -> T.

  Definition poisson_cost (Ns Ys : list T) (minc mino : T) (i j : nat) : ext T :=
    let n := sub N (nth j Ns (zero N)) (nth i Ns (zero N)) in
    let y := sub N (nth j Ys (zero N)) (nth i Ys (zero N)) in
    if ltb N n mino || ltb N y minc then Inf
    else if eqb N y (zero N) then NaN
    else Fin (mul N (mul N (ofZ N (-2)) y)
                    (sub N (sub N (logf y) (logf n)) (one N))).

  Definition poisson_changepoints (counts offset : list T) (pen minc mino : T)
    : option (list nat) :=
    if negb (Nat.eqb (length counts) (length offset)) then None
    else if negb (leb N (zero N) minc) then None
    else if negb (leb N (zero N) mino) then None
    else if negb (leb N (zero N) pen) then None
    else
      let Ns := cum0 N offset in
      let Ys := cum0 N counts in
      let prune := leb N minc (zero N) && leb N mino (zero N) in
      pelt N (poisson_cost Ns Ys minc mino) pen prune (length counts).
End Poisson.

(** the logarithm as a finite table of recorded values (double run only) *)
Fixpoint tab_log (tab : list (float * float)) (x : float) : float :=
  match tab with
  | [] => nan
  | (k, v) :: r => if PrimFloat.eqb k x then v else tab_log r x
  end.
