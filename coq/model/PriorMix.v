(** * Model of the mixture prior of [tsdate/prior.py] (property C15).

    Modelled (source lines of /repo/tsdate/prior.py):
    - [ConditionalCoalescentTimes.mixture_expect_and_var] (370-405, span weights);
    - the selection logic of [get_mixture_prior_params] (441-466; the [seen_mixtures]
      cache memoises a pure function of its key and is not represented);
    - the REFERENCE semantics of the span tables of [SpansBySamples]: the direct
      per-tree tally [spans(u)[T][k] = total span of the local trees in which node u
      has k of T samples below it], and [node_spans].
    The incremental computation [SpansBySamples.first_pass] (595-821) is NOT modelled;
    it is compared with this reference by an exact differential check.
    No proofs in this file. *)
From Coq Require Import List ZArith Bool.
From TsdateV Require Import lib.Num.
Import ListNotations.

Section Mixture.
  Variable N : Num.
  Notation T := (T N).

  (** one mixture component: (weight = span, mean, variance of the coalescent prior row) *)
  Definition comp : Type := (T * T * T)%type.
  Definition cw (c : comp) : T := fst (fst c).
  Definition cmu (c : comp) : T := snd (fst c).
  Definition cvar (c : comp) : T := snd c.

  (** [np.sum(f(array))] (left to right) *)
  Definition sumf (f : comp -> T) (g : list comp) : T :=
    fold_left (fun s c => add N s (f c)) g (zero N).

  (** the loop over [mixture.items()]: one group of components per total tip count
      <<
      expectation += np.sum(mean_time * w)
      first += np.sum(var_time * w)
      secnd += np.sum(mean_time**2 * w)
      weight_sum += np.sum(w)
      >>
      then [mean = expectation / weight_sum], [var = (first + secnd) / weight_sum - mean**2] *)
  Definition acc_over (f : comp -> T) (groups : list (list comp)) : T :=
    fold_left (fun s g => add N s (sumf f g)) groups (zero N).

  Definition mixture_expect_and_var (groups : list (list comp)) : T * T :=
    let expectation := acc_over (fun c => mul N (cmu c) (cw c)) groups in
    let first := acc_over (fun c => mul N (cvar c) (cw c)) groups in
    let secnd := acc_over (fun c => mul N (mul N (cmu c) (cmu c)) (cw c)) groups in
    let weight_sum := acc_over cw groups in
    let mean := div N expectation weight_sum in
    (mean, sub N (div N (add N first secnd) weight_sum) (mul N mean mean)).

  (** a row of the coalescent table: (alpha, beta, mean, var) *)
  Definition row : Type := (T * T * T * T)%type.
  Definition r_alpha (r : row) : T := fst (fst (fst r)).
  Definition r_beta (r : row) : T := snd (fst (fst r)).
  Definition r_mean (r : row) : T := snd (fst r).
  Definition r_var (r : row) : T := snd r.

  (** [spans_by_samples.get_spans(node)]: for each total tip count, the array of
      (descendant_tips, span) *)
  Definition mixture : Type := list (nat * list (nat * T)).

  Fixpoint comps_of (table : nat -> nat -> option row) (tot : nat) (arr : list (nat * T))
    : option (list comp) :=
    match arr with
    | [] => Some []
    | (k, s) :: r =>
        match table tot k, comps_of table tot r with
        | Some rw, Some cs => Some ((s, r_mean rw, r_var rw) :: cs)
        | _, _ => None
        end
    end.

  Fixpoint groups_of (table : nat -> nat -> option row) (m : mixture) : option (list (list comp)) :=
    match m with
    | [] => Some []
    | (tot, arr) :: r =>
        match comps_of table tot arr, groups_of table r with
        | Some g, Some gs => Some (g :: gs)
        | _, _ => None
        end
    end.

  (** one iteration of the loop of [get_mixture_prior_params]: a node with a single
      (T, k) gets the table's parameters, every other node the moment-matched fit of its
      mixture.  [None] = KeyError / IndexError (no table row). *)
  Definition node_params (approx : T -> T -> T * T) (table : nat -> nat -> option row)
             (m : mixture) : option (T * T) :=
    match m with
    | [(tot, [(k, _)])] =>
        match table tot k with
        | Some rw => Some (r_alpha rw, r_beta rw)
        | None => None
        end
    | _ =>
        match groups_of table m with
        | Some gs => let '(mean, var) := mixture_expect_and_var gs in Some (approx mean var)
        | None => None
        end
    end.
End Mixture.

(** ** reference semantics of the span tables *)
Section SpansRef.
  Variable N : Num.
  Notation T := (T N).

  (** what is read off one local tree: its span, the number of samples in the tree
      (samples that are not isolated), and for every node present in the tree the number
      of samples below it *)
  Record tview := mkTV { tv_span : T; tv_total : nat; tv_below : nat -> option nat }.

  Definition key_eqb (a b : nat * nat) : bool :=
    Nat.eqb (fst a) (fst b) && Nat.eqb (snd a) (snd b).

  Fixpoint add_span (key : nat * nat) (s : T) (tab : list (nat * nat * T)) : list (nat * nat * T) :=
    match tab with
    | [] => [(key, s)]
    | (k', s') :: r => if key_eqb key k' then (k', add N s' s) :: r else (k', s') :: add_span key s r
    end.

  (** the direct per-tree tally for node [u]: ((T, k), total span) *)
  Definition spans_ref (trees : list tview) (u : nat) : list (nat * nat * T) :=
    fold_left (fun tab tv => match tv_below tv u with
                             | Some k => add_span (tv_total tv, k) (tv_span tv) tab
                             | None => tab
                             end) trees [].

  (** [node_spans[u]]: total span of the trees that contain [u] *)
  Definition node_span (trees : list tview) (u : nat) : T :=
    fold_left (fun s tv => match tv_below tv u with
                           | Some _ => add N s (tv_span tv)
                           | None => s
                           end) trees (zero N).

  Definition total (tab : list (nat * nat * T)) : T :=
    fold_left (fun s e => add N s (snd e)) tab (zero N).
End SpansRef.
