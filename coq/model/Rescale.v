(** * Model of the time-rescaling kernels of tsdate (C25, C37).

    [tsdate/rescaling.py]: [mutational_area], [mutational_timescale],
    [piecewise_scale_point_estimate], [piecewise_scale_posterior], the time part of
    [rescale_tree_sequence]; [tsdate/variational.py]: the loop and the breakpoint
    recovery of [ExpectationPropagation.rescale].

    Everything is polymorphic in [Num]: theorems use [RNum], examples [QNum], the
    correspondence with the code [FNum] (binary64, same operation order as the code).

    NOT modelled here (inputs of the models instead):
    - [_fixed_changepoints] (property C26, model/Changepoint.v): the changepoints it
      returns enter as the argument [cps];
    - [hypergeo._gammainc_inv] and [approx.approximate_gamma_iqr]: function arguments
      [ginv], [fit] (abstract in theorems, a table of recorded calls in the
      correspondence run);
    - [count_mutations] (property C24): the per-edge [(mutations, span)] rows enter as
      the argument [liks].
    No proofs in this file. *)
From Coq Require Import List Arith Bool.
From TsdateV Require Import lib.Num.
Import ListNotations.

Definition fupd {A} (f : nat -> A) (i : nat) (v : A) : nat -> A :=
  fun j => if Nat.eqb j i then v else f j.

Definition tabulate {A} (n : nat) (f : nat -> A) : list A := map f (seq 0 n).

(** [np.unique] on the integer changepoints: sorted, distinct *)
Fixpoint nat_uinsert (x : nat) (l : list nat) : list nat :=
  match l with
  | [] => [x]
  | y :: r => if x <? y then x :: l else if y <? x then y :: nat_uinsert x r else l
  end.
Definition nat_usort (l : list nat) : list nat := fold_right nat_uinsert [] l.

(** all-or-nothing sequencing of a list of optional results *)
Fixpoint collect {A} (l : list (option A)) : option (list A) :=
  match l with
  | [] => Some []
  | None :: _ => None
  | Some x :: r => match collect r with None => None | Some r' => Some (x :: r') end
  end.

Section Rescale.
  Variable N : Num.
  Notation T := (T N).

  Definition nthT (l : list T) (i : nat) : T := nth i l (zero N).
  Definition two : T := add N (one N) (one N).

  (** ** numpy vocabulary, with the summation order of the code *)

  (** [np.cumsum] (numpy and numba both accumulate left to right) *)
  Fixpoint cumsum_from (acc : T) (l : list T) : list T :=
    match l with
    | [] => []
    | x :: r => let a := add N acc x in a :: cumsum_from a r
    end.
  Definition cumsum (l : list T) : list T := cumsum_from (zero N) l.

  (** [np.sum(v[i:j])] as numba compiles it: [c = 0; for x in v[i:j]: c += x] *)
  Definition sum_slice (l : list T) (i j : nat) : T :=
    fold_left (add N) (firstn (j - i) (skipn i l)) (zero N).

  (** [np.diff] *)
  Definition diff (l : list T) : list T :=
    map (fun ab : T * T => sub N (snd ab) (fst ab)) (combine l (tl l)).

  (** sorted distinct values of a vector: what the loop over [np.argsort(nodes_time)]
      at rescaling.py:270-278 extracts (only [>] between neighbours in sorted order is
      used, so the result does not depend on how argsort orders ties) *)
  Fixpoint uinsert (x : T) (l : list T) : list T :=
    match l with
    | [] => [x]
    | y :: r => if ltb N x y then x :: l else if ltb N y x then y :: uinsert x r else l
    end.
  Definition usort (l : list T) : list T := fold_right uinsert [] l.

  (** [nodes_index]: number of distinct time values strictly below [x] *)
  Definition rank (s : list T) (x : T) : nat := length (filter (fun b => ltb N b x) s).

  (** ** [mutational_area] (rescaling.py:246-301)
      [edges]: (parent, child); [liks]: (mutation count, mutational span) per edge. *)
  Definition dstate : Type := ((nat -> T) * (nat -> T))%type.   (* epoch_counts[:,0], [:,1] *)

  Definition area_edge (t : nat -> T) (idx : nat -> nat) (ne : nat)
      (D : dstate) (e : (nat * nat) * (T * T)) : dstate :=
    let '((p, c), (y, sp)) := e in
    let len := sub N (t p) (t c) in                       (* edges_length *)
    if ltb N (zero N) len then                            (* edges_subset *)
      let v := div N y len in                             (* edges_counts[e, 0] /= edges_length[e] *)
      let a := idx c in
      let b := idx p in
      let D1 := if a <? ne
                then (fupd (fst D) a (add N (fst D a) v), fupd (snd D) a (add N (snd D a) sp))
                else D in
      if b <? ne
      then (fupd (fst D1) b (sub N (fst D1 b) v), fupd (snd D1) b (sub N (snd D1 b) sp))
      else D1
    else D.

  Definition dstate0 : dstate := (fun _ => zero N, fun _ => zero N).

  (** [s] is [usort times], computed once *)
  Definition epoch_breaks_of (s : list T) : list T := zero N :: tl s.
  Definition node_index_of (s : list T) (times : list T) (i : nat) : nat := rank s (nthT times i).

  Definition area_diffs_of (s : list T) (times : list T) (liks : list (T * T))
      (edges : list (nat * nat)) : dstate :=
    fold_left (area_edge (nthT times) (node_index_of s times) (length s - 1))
              (combine edges liks) dstate0.

  (** returns (counts, offset, duration, nodes_index) *)
  Definition mutational_area (times : list T) (liks : list (T * T)) (edges : list (nat * nat))
    : list T * list T * list T * list nat :=
    let s := usort times in
    let ne := length s - 1 in                                  (* num_epochs *)
    let D := area_diffs_of s times liks edges in
    (cumsum (tabulate ne (fst D)), cumsum (tabulate ne (snd D)),
     diff (epoch_breaks_of s), tabulate (length times) (node_index_of s times)).

  (** ** [mutational_timescale] (rescaling.py:393-452), given the changepoints [cps]
      returned by [_fixed_changepoints (offset * duration) max_intervals].
      [None]: the assertion "Zero edge span in interval". *)
  Fixpoint ts_adjust (counts offset duration : list T) (cp : list nat) : option (list T) :=
    match cp with
    | i :: ((j :: _) as r) =>
        let n := sum_slice offset i j in
        let y := sum_slice counts i j in
        let z := sum_slice duration i j in
        if ltb N (zero N) n then
          match ts_adjust counts offset duration r with
          | Some l => Some (div N (mul N z y) n :: l)
          | None => None
          end
        else None
    | _ => Some []
    end.

  (** returns (origin, adjust) *)
  Definition mutational_timescale (times : list T) (liks : list (T * T)) (edges : list (nat * nat))
      (cps : list nat) : option (list T * list T) :=
    let '(counts, offset, duration, _) := mutational_area times liks edges in
    let eb := zero N :: cumsum duration in               (* np.append(0.0, np.cumsum(duration)) *)
    let cp := nat_usort cps in                           (* np.unique(changepoints) *)
    match ts_adjust counts offset duration cp with
    | None => None
    | Some adj => Some (map (nthT eb) cp, cumsum (zero N :: adj))
    end.

  (** ** the piecewise-linear map (rescaling.py:525-530 and 492-500) *)

  (** [np.searchsorted(breaks, x, "right")] on an increasing vector: the number of
      leading breaks [<= x] *)
  Fixpoint ssr (bs : list T) (x : T) : nat :=
    match bs with
    | [] => O
    | b :: r => if leb N b x then S (ssr r x) else O
    end.

  (** [searchsorted(..) - 1] used as an index: [-1] wraps to the last element *)
  Definition widx (bs : list T) (x : T) : nat :=
    match ssr bs x with O => length bs - 1 | S k => k end.

  (** [np.all(np.diff(b) > 0)] *)
  Definition strict_inc (l : list T) : bool := forallb (fun d => ltb N (zero N) d) (diff l).

  (** [np.append(np.diff(rescaled) / np.diff(original), 0)] *)
  Definition scalings (ob rb : list T) : list T :=
    map (fun dd : T * T => div N (fst dd) (snd dd)) (combine (diff rb) (diff ob)) ++ [zero N].

  Definition pw (ob rb : list T) (x : T) : T :=
    let i := widx ob x in
    add N (nthT rb i) (mul N (nthT (scalings ob rb) i) (sub N x (nthT ob i))).

  Definition breaks_ok (ob rb : list T) : bool :=
    strict_inc rb && strict_inc ob && (length ob =? length rb) && negb (length ob =? 0).

  (** ** [piecewise_scale_point_estimate] (rescaling.py:519-532); [None]: an assertion
      ("Use fewer rescaling intervals") or a shape error *)
  Definition piecewise_scale_point_estimate (xs : list T) (fixed : list bool) (ob rb : list T)
    : option (list T) :=
    if breaks_ok ob rb && (length xs =? length fixed) then
      Some (map (fun xf : T * bool => if snd xf then fst xf else pw ob rb (fst xf)) (combine xs fixed))
    else None.

  (** ** [piecewise_scale_posterior] (rescaling.py:456-515).
      [ginv a q]  = [hypergeo._gammainc_inv(a, q)];
      [fit q1 q2 x1 x2 max_shape] = [approx.approximate_gamma_iqr(..)], [None] when it raises.
      Result rows: [None] for a fixed row (the code writes [nan, nan]). *)
  Section Posterior.
    Variable ginv : T -> T -> T.
    Variable fit : T -> T -> T -> T -> T -> option (T * T).

    Definition quantiles (ql qu : T) (pf : (T * T) * bool) : T * T * T :=   (* lower, upper, midpt *)
      let '((a, b), f) := pf in
      if f then (zero N, zero N, zero N)
      else (div N (ginv (add N a (one N)) ql) b,
            div N (ginv (add N a (one N)) qu) b,
            div N (add N a (one N)) b).

    Definition piecewise_scale_posterior (posts : list (T * T)) (fixed : list bool)
        (ob rb : list T) (qw max_shape : T) : option (list (option (T * T))) :=
      if negb (ltb N qw (one N) && ltb N (zero N) qw) then None else
      if negb (length fixed =? length posts) then None else
      let ql := div N qw two in
      let qu := sub N (one N) (div N qw two) in
      let pf := combine posts fixed in
      if negb (forallb (fun x : (T * T) * bool =>
                 snd x || (ltb N (neg N (one N)) (fst (fst x)) && ltb N (zero N) (snd (fst x)))) pf)
      then None else
      let q := map (quantiles ql qu) pf in
      if negb (breaks_ok ob rb) then None else
      (* assert i.min() >= 0 for the three rescaled vectors *)
      if existsb (fun lum : T * T * T =>
                    let '(lo, up, mid) := lum in
                    (ssr ob mid =? 0) || (ssr ob lo =? 0) || (ssr ob up =? 0)) q then None else
      collect (map (fun x : (T * T * T) * bool =>
                 let '((lo, up, mid), f) := x in
                 if f then Some None
                 else match fit ql qu (pw ob rb lo) (pw ob rb up) max_shape with
                      | None => None
                      | Some ab => Some (Some (fst ab, div N (add N (fst ab) (one N)) (pw ob rb mid)))
                      end)
              (combine q fixed)).
  End Posterior.

  (** ** the iteration shared by [ExpectationPropagation.rescale] (variational.py:785-800)
      and [rescale_tree_sequence] (rescaling.py:573-585); [cpss]: the changepoints of
      each iteration.  Returns the rescaled times and the breaks of the last iteration. *)
  Fixpoint rescale_loop (liks : list (T * T)) (edges : list (nat * nat)) (fixed : list bool)
      (cpss : list (list nat)) (x : list T) (last : option (list T * list T))
    : option (list T * option (list T * list T)) :=
    match cpss with
    | [] => Some (x, last)
    | cps :: r =>
        match mutational_timescale x liks edges cps with
        | None => None
        | Some (ob, rb) =>
            match piecewise_scale_point_estimate x fixed ob rb with
            | None => None
            | Some x' => rescale_loop liks edges fixed r x' (Some (ob, rb))
            end
        end
    end.

  (** [np.unique(v, return_index=True)] on pairs (key, payload): sorted distinct keys,
      each with the payload of its FIRST occurrence *)
  Fixpoint pinsert (p : T * T) (l : list (T * T)) : list (T * T) :=
    match l with
    | [] => [p]
    | q :: r => if ltb N (fst p) (fst q) then p :: l
                else if ltb N (fst q) (fst p) then q :: pinsert p r else l
    end.
  Definition uniq_first (ps : list (T * T)) : list (T * T) :=
    fold_left (fun l p => pinsert p l) ps [].

  Definition free_pairs (resc orig : list T) (fixed : list bool) : list (T * T) :=
    map fst (filter (fun x : (T * T) * bool => negb (snd x)) (combine (combine resc orig) fixed)).

  (** the breakpoint recovery of variational.py:802-808, then the breakpoints handed to
      [piecewise_scale_posterior] by [ExpectationPropagation.rescale] (variational.py:785-808):
      (original_breaks, rescaled_breaks, rescaled_nodes_time).
      Zero iterations: the code has no breaks ([None]). *)
  Definition recover_breaks (means : list T) (fixed : list bool) (x' rb : list T) : option (list T) :=
    let u := uniq_first (free_pairs x' means fixed) in
    piecewise_scale_point_estimate rb (map (fun _ => false) rb)
      (zero N :: map fst u) (zero N :: map snd u).

  Definition ep_rescale_breaks (means : list T) (fixed : list bool) (liks : list (T * T))
      (edges : list (nat * nat)) (cpss : list (list nat)) : option (list T * list T * list T) :=
    match rescale_loop liks edges fixed cpss means None with
    | Some (x', Some (_, rb)) =>
        match recover_breaks means fixed x' rb with
        | None => None
        | Some ob' => Some (ob', rb, x')
        end
    | _ => None
    end.

  (** ** [rescale_tree_sequence] (rescaling.py:559-592), the time columns only.
      [muts]: per mutation (edge from [count_mutations] or [None] = tskit.NULL, node). *)
  Definition mutation_time (edges : list (nat * nat)) (t : list T) (m : option nat * nat) : T :=
    match fst m with
    | Some e => let pc := nth e edges (O, O) in
                div N (add N (nthT t (fst pc)) (nthT t (snd pc))) two
    | None => nthT t (snd m)
    end.

  Definition rescale_ts_times (times : list T) (fixed : list bool) (liks : list (T * T))
      (edges : list (nat * nat)) (cpss : list (list nat)) (muts : list (option nat * nat))
    : option (list T * list T) :=
    match rescale_loop liks edges fixed cpss times None with
    | None => None
    | Some (t', _) => Some (t', map (mutation_time edges t') muts)
    end.
End Rescale.
