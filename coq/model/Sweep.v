(** * The three-pointer edge-diff sweep shared by the kernels of this family, and the
    model of [rescaling._count_mutations] / [util.mutation_span_array].

    All four kernels (util._contains_unary_nodes, rescaling._count_mutations,
    phasing._block_singletons, util._relabel_mutations_node) have the shape
    <<
    left = 0.0; a, b = 0, 0
    while COND:
        while b < num_edges and position_remove[b] == left:   # edges out
            ...; b += 1
        while a < num_edges and position_insert[a] == left:   # edges in
            ...; a += 1
        right = sequence_length
        if b < num_edges: right = min(right, position_remove[b])
        if a < num_edges: right = min(right, position_insert[a])
        left = right                                          # (STAR)
        ... work that may use the new [right] ...
    >>
    [loop] is a fuelled transliteration: the unprocessed suffixes of the insertion and
    removal orders play the role of [a] and [b]; the kernel supplies the body of the two
    inner loops ([rmv], [ins]; both see the value of [left] at the start of the iteration),
    the work after (STAR) ([after left right]), an early-exit test ([stop]: a [return] or a
    failed [assert] recorded in the state) and COND.  Running out of fuel is [None].
    No proofs in this file. *)
From Coq Require Import List ZArith Bool Arith.
From TsdateV Require Import lib.Tables.
Import ListNotations.
Open Scope Z_scope.

Section Loop.
  Variable St : Type.
  Variables keyI keyR : nat -> Z.          (* position_insert / position_remove by edge id *)
  Variable L : Z.                          (* sequence_length *)
  Variable rmv : Z -> nat -> St -> St.     (* left, edge id *)
  Variable ins : Z -> nat -> St -> St.
  Variable after : Z -> Z -> St -> St.     (* left, right *)
  Variable stop : St -> bool.
  Variable cond : Z -> list nat -> list nat -> bool.   (* left, remaining insertions, remaining removals *)

  Fixpoint pop (key : nat -> Z) (f : Z -> nat -> St -> St) (left : Z) (q : list nat) (s : St)
    : list nat * St :=
    match q with
    | e :: r => if key e =? left then pop key f left r (f left e s) else (q, s)
    | [] => ([], s)
    end.

  Definition next_pos (insq remq : list nat) : Z :=
    let r := L in
    let r := match remq with b :: _ => Z.min r (keyR b) | [] => r end in
    match insq with a :: _ => Z.min r (keyI a) | [] => r end.

  Fixpoint loop (fuel : nat) (left : Z) (insq remq : list nat) (s : St) : option St :=
    match fuel with
    | O => None
    | S f =>
        if cond left insq remq then
          let '(remq', s1) := pop keyR rmv left remq s in
          let '(insq', s2) := pop keyI ins left insq s1 in
          let right := next_pos insq' remq' in
          let s3 := after left right s2 in
          if stop s3 then Some s3 else loop f right insq' remq' s3
        else Some s
    end.

  (** [while a < num_edges or b < num_edges] *)
  Definition cond_std (_ : Z) (insq remq : list nat) : bool :=
    match insq, remq with [], [] => false | _, _ => true end.
End Loop.

Definition sweep_fuel (insq remq : list nat) : nat := (2 + length insq + length remq)%nat.

(** ** rescaling._count_mutations (rescaling.py "_count_mutations")

    Integer coordinates make every value of the float arrays an integer, so [Z] is exact.
    [-1] is tskit.NULL in [nodes_edge] / [nodes_parent] / [mutations_edge]. *)

(** stable insertion sort of mutation ids by position ([np.argsort(mutations_position)]; the
    kernel's results do not depend on the order of ties) *)
Fixpoint insert_by (key : nat -> Z) (m : nat) (l : list nat) : list nat :=
  match l with
  | [] => [m]
  | k :: r => if key m <? key k then m :: l else k :: insert_by key m r
  end.
Definition argsort (key : nat -> Z) (n : nat) : list nat :=
  fold_right (insert_by key) [] (seq 0 n).

Record cm_state := mkCM {
  cm_samples : nat -> Z;      (* nodes_samples *)
  cm_edge    : nat -> Z;      (* nodes_edge *)
  cm_parent  : nat -> Z;      (* nodes_parent *)
  cm_medge   : nat -> Z;      (* mutations_edge *)
  cm_emuts   : nat -> Z;      (* edges_mutations *)
  cm_espan   : nat -> Z;      (* edges_span *)
  cm_mq      : list nat       (* indexes_mutation[d:] *)
}.

Section CountMutations.
  Variable es : list edge.
  Variable L : Z.
  Variable size_biased : bool.
  Variable mpos : nat -> Z.          (* mutations_position *)
  Variable mnode : nat -> nat.       (* mutations_node *)
  Variable num_nodes : nat.

  (** [while p != NULL: edges_span[e] (+/-)= nodes_samples[c] * remainder;
                        nodes_samples[p] (+/-)= nodes_samples[c]; e, p = nodes_edge[p], nodes_parent[p]]
      ([c] is NOT updated inside the loop); [fuel] = number of nodes bounds the path length *)
  Fixpoint walk_up (fuel : nat) (sgn : Z) (rem : Z) (c : nat) (e p : Z)
           (s : cm_state) : cm_state :=
    match fuel with
    | O => s
    | S f =>
        if p =? -1 then s
        else
          let en := Z.to_nat e in
          let pn := Z.to_nat p in
          let span' := upd (cm_espan s) en (cm_espan s en + sgn * (cm_samples s c * rem)) in
          let samp' := upd (cm_samples s) pn (cm_samples s pn + sgn * cm_samples s c) in
          let s' := mkCM samp' (cm_edge s) (cm_parent s) (cm_medge s) (cm_emuts s) span' (cm_mq s) in
          walk_up f sgn rem c (cm_edge s pn) (cm_parent s pn) s'
    end.

  Definition cm_rmv (left : Z) (e : nat) (s : cm_state) : cm_state :=
    let rem := L - left in
    let p := eparent (edge_at es e) in
    let c := echild (edge_at es e) in
    let s1 := mkCM (cm_samples s) (upd (cm_edge s) c (-1)) (upd (cm_parent s) c (-1))
                   (cm_medge s) (cm_emuts s) (cm_espan s) (cm_mq s) in
    if size_biased then walk_up (S num_nodes) (-1) rem c (Z.of_nat e) (Z.of_nat p) s1
    else mkCM (cm_samples s1) (cm_edge s1) (cm_parent s1) (cm_medge s1) (cm_emuts s1)
              (upd (cm_espan s1) e (cm_espan s1 e - rem)) (cm_mq s1).

  Definition cm_ins (left : Z) (e : nat) (s : cm_state) : cm_state :=
    let rem := L - left in
    let p := eparent (edge_at es e) in
    let c := echild (edge_at es e) in
    let s1 := mkCM (cm_samples s) (upd (cm_edge s) c (Z.of_nat e)) (upd (cm_parent s) c (Z.of_nat p))
                   (cm_medge s) (cm_emuts s) (cm_espan s) (cm_mq s) in
    if size_biased then walk_up (S num_nodes) 1 rem c (Z.of_nat e) (Z.of_nat p) s1
    else mkCM (cm_samples s1) (cm_edge s1) (cm_parent s1) (cm_medge s1) (cm_emuts s1)
              (upd (cm_espan s1) e (cm_espan s1 e + rem)) (cm_mq s1).

  (** [while d < num_mutations and position_mutation[d] < right] *)
  Fixpoint cm_muts (right : Z) (q : list nat) (s : cm_state) : cm_state :=
    match q with
    | m :: r =>
        if mpos m <? right then
          let c := mnode m in
          let e := cm_edge s c in
          let s' := if e =? -1 then s
                    else mkCM (cm_samples s) (cm_edge s) (cm_parent s) (upd (cm_medge s) m e)
                              (upd (cm_emuts s) (Z.to_nat e)
                                   (cm_emuts s (Z.to_nat e) + (if size_biased then cm_samples s c else 1)))
                              (cm_espan s) (cm_mq s) in
          cm_muts right r s'
        else mkCM (cm_samples s) (cm_edge s) (cm_parent s) (cm_medge s) (cm_emuts s) (cm_espan s) q
    | [] => mkCM (cm_samples s) (cm_edge s) (cm_parent s) (cm_medge s) (cm_emuts s) (cm_espan s) []
    end.

  Definition cm_after (_ right : Z) (s : cm_state) : cm_state := cm_muts right (cm_mq s) s.

  Definition cm_init (is_sample : nat -> bool) (num_mutations : nat) : cm_state :=
    mkCM (fun u => if is_sample u then 1 else 0) (fun _ => -1) (fun _ => -1) (fun _ => -1)
         (fun _ => 0) (fun _ => 0) (argsort mpos num_mutations).

  Definition count_mutations (is_sample : nat -> bool) (num_mutations : nat)
             (insq remq : list nat) : option cm_state :=
    loop cm_state (fun i => eleft (edge_at es i)) (fun i => eright (edge_at es i)) L
         cm_rmv cm_ins cm_after (fun _ => false) (cond_std)
         (sweep_fuel insq remq) 0 insq remq (cm_init is_sample num_mutations).
End CountMutations.

(** list front end for the harness: (edges_mutations, edges_span, mutations_edge) *)
Definition count_mutations_list (es : list edge) (L : Z) (size_biased : bool)
           (muts : list (Z * nat)) (is_sample : list bool) (insq remq : list nat)
  : option (list Z * list Z * list Z) :=
  let mpos := fun m => fst (nth m muts (0, O)) in
  let mnode := fun m => snd (nth m muts (0, O)) in
  match count_mutations es L size_biased mpos mnode (length is_sample)
                        (of_list false is_sample) (length muts) insq remq with
  | None => None
  | Some s => Some (to_list (length es) (cm_emuts s), to_list (length es) (cm_espan s),
                    to_list (length muts) (cm_medge s))
  end.

(** ** util.mutation_span_array (util.py): tskit supplies [mut.edge]; counts and spans are
    tallied per edge.  [medge] is the mutation -> edge map as given by tskit (-1 = NULL). *)
Definition mutation_span_array (es : list edge) (medge : list Z) : list Z * list Z :=
  (map (fun e => Z.of_nat (length (filter (fun x => x =? Z.of_nat e) medge))) (edge_ids es),
   map (fun e => eright e - eleft e) es).

(** ** Reference semantics of the tallies, straight from the definitions (no sweep) *)
Definition ref_mutation_edge (es : list edge) (m : Z * nat) : Z :=
  match edge_above es (fst m) (snd m) with Some e => Z.of_nat e | None => -1 end.

Definition ref_edge_count (es : list edge) (muts : list (Z * nat)) (e : nat) : Z :=
  Z.of_nat (length (filter (fun m => ref_mutation_edge es m =? Z.of_nat e) muts)).

(** frequency-weighted: each mutation weighs [samples_below pos node]; each unit of span of
    edge [e] weighs [samples_below x (child e)] (sum over integer positions) *)
Definition ref_edge_count_sb (es : list edge) (nn : nat) (is_sample : nat -> bool)
           (muts : list (Z * nat)) (e : nat) : Z :=
  fold_right Z.add 0
    (map (fun m => if ref_mutation_edge es m =? Z.of_nat e
                   then samples_below (S nn) es is_sample (fst m) (snd m) else 0) muts).

Definition zrange (a b : Z) : list Z := map (fun k => a + Z.of_nat k) (seq 0 (Z.to_nat (b - a))).

Definition ref_edge_span_sb (es : list edge) (nn : nat) (is_sample : nat -> bool) (e : nat) : Z :=
  fold_right Z.add 0
    (map (fun x => samples_below (S nn) es is_sample x (echild (edge_at es e)))
         (zrange (eleft (edge_at es e)) (eright (edge_at es e)))).
