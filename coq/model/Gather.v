(** * C09 models.
    (1) The mutation-likelihood cache of discrete.Likelihoods.precalculate_mutation_likelihoods:
        a dict initialised with the keys, then [cache[key] = value] for every result in the
        order the worker pool delivers them (imap_unordered = any permutation).
    (2) node_time_class.NodeTimeValues.force_probability_space on one grid entry: values
        are extended non-negative reals, LIN stores v, LOG stores log v with log 0 = -inf. *)
From Coq Require Import List Bool ZArith.
From TsdateV Require Import lib.Num.
Import ListNotations.

Section Cache.
  Variables K V : Type.
  Variable keqb : K -> K -> bool.
  Definition cache := K -> option (option V).          (* absent | present-unfilled | filled *)
  Definition assign (m : cache) (kv : K * V) : cache :=
    fun k => if keqb k (fst kv) then Some (Some (snd kv)) else m k.
  Definition init_cache (keys : list K) : cache :=
    fun k => if existsb (keqb k) keys then Some None else None.
  Definition gather (keys : list K) (results : list (K * V)) : cache :=
    fold_left assign results (init_cache keys).
End Cache.

(** one stored probability: linear value, or logarithm with -inf *)
Inductive logval (T : Type) := NegInf | Fin (x : T).
Arguments NegInf {T}. Arguments Fin {T}.
Inductive stored (T : Type) := Lin (v : T) | Log (w : logval T).
Arguments Lin {T}. Arguments Log {T}.
Inductive space := LIN | LOG.

Section Space.
  Variable N : Num.
  Notation T := (T N).
  Variables exp ln : T -> T.
  Definition to_log (v : T) : logval T := if eqb N v (zero N) then NegInf else Fin (ln v).
  Definition to_lin (w : logval T) : T := match w with NegInf => zero N | Fin x => exp x end.
  Definition force (s : space) (d : stored T) : stored T :=
    match s, d with
    | LIN, Lin v => Lin v
    | LIN, Log w => Lin (to_lin w)
    | LOG, Log w => Log w
    | LOG, Lin v => Log (to_log v)
    end.
  (** the probability a stored entry denotes *)
  Definition denote (d : stored T) : T := match d with Lin v => v | Log w => to_lin w end.
End Space.

(** which conversion force_probability_space applies, as a function of (current, target) *)
Inductive op := OpExp | OpLog.
Definition conv (cur target : space) : option op :=
  match cur, target with LIN, LOG => Some OpLog | LOG, LIN => Some OpExp | _, _ => None end.
(** the conversions applied by a sequence of calls starting in space [cur] *)
Fixpoint conv_trace (cur : space) (ss : list space) : list op :=
  match ss with
  | [] => []
  | s :: r => match conv cur s with Some o => o :: conv_trace s r | None => conv_trace s r end
  end.
Definition space_of {T} (d : stored T) : space := match d with Lin _ => LIN | Log _ => LOG end.

(** cache model on concrete keys (mutation count, span) and value identifiers *)
Definition zkeqb (a b : Z * Z) : bool := Z.eqb (fst a) (fst b) && Z.eqb (snd a) (snd b).
Definition gather_lookup (keys : list (Z * Z)) (results : list ((Z * Z) * nat)) (queries : list (Z * Z))
  : list (option (option nat)) :=
  map (gather (Z * Z) nat zkeqb keys results) queries.
