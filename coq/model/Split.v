(** * Model of [util._split_disjoint_nodes], [util._relabel_mutations_node] and the index
    arithmetic of [util.split_disjoint_nodes] / [_reorder_nodes] (util.py).
    [-1] is tskit.NULL; [None] in [sg_right] is the [-inf] of [nodes_right].
    No proofs in this file. *)
From Coq Require Import List ZArith Bool Arith.
From TsdateV Require Import lib.Tables model.Sweep.
Import ListNotations.
Open Scope Z_scope.

(** ** _split_disjoint_nodes *)
Record seg_state := mkSeg {
  sg_seg   : nat -> Z;            (* nodes_segments *)
  sg_right : nat -> option Z;     (* nodes_right *)
  sg_par   : nat -> Z;            (* edges_segments[0, e] *)
  sg_chi   : nat -> Z             (* edges_segments[1, e] *)
}.

Section Split.
  Variable es : list edge.
  Variable excluded : nat -> bool.       (* node_excluded *)
  Variable num_nodes : nat.

  (** <<
      if node_excluded[n]: continue
      nodes_segments[n] += edges_left[e] > nodes_right[n]
      edges_segments[i, e] = nodes_segments[n]
      nodes_right[n] = max(nodes_right[n], edges_right[e])
      >>  returns the label written to [edges_segments[i, e]] ([-1] when skipped) *)
  Definition visit (l r : Z) (n : nat) (s : seg_state) : Z * seg_state :=
    if excluded n then (-1, s)
    else
      let inc := match sg_right s n with None => 1 | Some x => if x <? l then 1 else 0 end in
      let k := sg_seg s n + inc in
      let r' := match sg_right s n with None => r | Some x => Z.max x r end in
      (k, mkSeg (upd (sg_seg s) n k) (upd (sg_right s) n (Some r')) (sg_par s) (sg_chi s)).

  Definition seg_edge (s : seg_state) (e : nat) : seg_state :=
    let ed := edge_at es e in
    let '(kp, s1) := visit (eleft ed) (eright ed) (eparent ed) s in
    let s1' := mkSeg (sg_seg s1) (sg_right s1) (upd (sg_par s1) e kp) (sg_chi s1) in
    let '(kc, s2) := visit (eleft ed) (eright ed) (echild ed) s1' in
    mkSeg (sg_seg s2) (sg_right s2) (sg_par s2) (upd (sg_chi s2) e kc).

  Definition seg_init : seg_state := mkSeg (fun _ => -1) (fun _ => None) (fun _ => -1) (fun _ => -1).

  (** [edges_order = np.argsort(edges_left)] (the result does not depend on the order of ties) *)
  Definition edges_order : list nat := argsort (fun e => eleft (edge_at es e)) (length es).

  Definition seg_pass : seg_state := fold_left seg_edge edges_order seg_init.

  (** <<
      for i, s in enumerate(nodes_segments):
          for j in range(s):
              if j == 0: nodes_map[i] = num_nodes
              split_nodes.append(i); num_nodes += 1
      >>  returns (nodes_map, split_nodes) *)
  Fixpoint mk_map (nodes : list nat) (cur : Z) (seg : nat -> Z) : list Z * list nat :=
    match nodes with
    | [] => ([], [])
    | i :: r =>
        let s := seg i in
        let k := Z.to_nat s in
        let '(m, sp) := mk_map r (cur + Z.of_nat k) seg in
        ((if 0 <? s then cur else -1) :: m, repeat i k ++ sp)
    end.

  (** relabelling: [if edges_segments[i, e] > 0: edges_segments[i, e] += nodes_map[n] - 1
                    else: edges_segments[i, e] = n] *)
  Definition relabel (nodes_map : list Z) (k : Z) (n : nat) : Z :=
    if 0 <? k then k + nth n nodes_map (-1) - 1 else Z.of_nat n.

  (** (new edges_parent, new edges_child, nodes_order, split_nodes) *)
  Definition split_disjoint : list Z * list Z * list nat * list nat :=
    let s := seg_pass in
    let '(nmap, split) := mk_map (seq 0 num_nodes) (Z.of_nat num_nodes) (sg_seg s) in
    (map (fun e => relabel nmap (sg_par s e) (eparent (edge_at es e))) (edge_ids es),
     map (fun e => relabel nmap (sg_chi s e) (echild (edge_at es e))) (edge_ids es),
     seq 0 num_nodes ++ split, split).
End Split.

(** ** _relabel_mutations_node: a sweep with [while left < sequence_length], where
    [sequence_length = remove_position[-1]]; removals do nothing; an insertion records the new
    ids of the edge's child and parent under their original ids. *)
Record rl_state := mkRL {
  rl_map : nat -> Z;      (* nodes_map: original id -> id of the piece seen last *)
  rl_out : nat -> Z;      (* output *)
  rl_mq  : list nat       (* mutations not yet visited (sorted input order) *)
}.

Section Relabel.
  Variable es : list edge.                 (* left / right of the ORIGINAL edges *)
  Variable new_parent new_child : nat -> nat.
  Variable order : nat -> nat.             (* nodes_order *)
  Variable mpos : nat -> Z.                (* mutations_position (sorted by tskit) *)
  Variable mnode : nat -> nat.             (* mutations_node (original ids) *)

  Definition rl_rmv (_ : Z) (_ : nat) (s : rl_state) : rl_state := s.

  (** [nodes_map[nodes_order[c]] = c; nodes_map[nodes_order[p]] = p] *)
  Definition rl_ins (_ : Z) (e : nat) (s : rl_state) : rl_state :=
    let c := new_child e in
    let p := new_parent e in
    mkRL (upd (upd (rl_map s) (order c) (Z.of_nat c)) (order p) (Z.of_nat p)) (rl_out s) (rl_mq s).

  (** [while m < num_mutations and mutations_position[m] < right: output[m] = nodes_map[...]] *)
  Fixpoint rl_muts (right : Z) (q : list nat) (s : rl_state) : rl_state :=
    match q with
    | m :: r =>
        if mpos m <? right
        then rl_muts right r (mkRL (rl_map s) (upd (rl_out s) m (rl_map s (mnode m))) (rl_mq s))
        else mkRL (rl_map s) (rl_out s) q
    | [] => mkRL (rl_map s) (rl_out s) []
    end.

  Definition rl_after (_ right : Z) (s : rl_state) : rl_state := rl_muts right (rl_mq s) s.

  (** [while m < num_mutations: output[m] = nodes_map[mutations_node[m]]] (beyond the last edge) *)
  Definition rl_finish (s : rl_state) : rl_state :=
    fold_left (fun s m => mkRL (rl_map s) (upd (rl_out s) m (rl_map s (mnode m))) (rl_mq s)) (rl_mq s) s.

  Definition cond_lt (seqlen : Z) (left : Z) (_ _ : list nat) : bool := left <? seqlen.

  (** [sequence_length = remove_position[-1] if num_edges > 0 else 0.0] (since repair 3af34f9; the
      empty case used to be an IndexError).  [None]: out of fuel (never on valid tables). *)
  Definition relabel_seqlen (remq : list nat) : Z :=
    match rev remq with
    | [] => 0
    | last :: _ => eright (edge_at es last)
    end.

  Definition relabel_mutations (num_mutations : nat) (insq remq : list nat) : option (list Z) :=
    let seqlen := relabel_seqlen remq in
    match loop rl_state (fun i => eleft (edge_at es i)) (fun i => eright (edge_at es i)) seqlen
               rl_rmv rl_ins rl_after (fun _ => false) (cond_lt seqlen)
               (sweep_fuel insq remq) 0 insq remq
               (mkRL (fun u => Z.of_nat u) (fun _ => -1) (seq 0 num_mutations)) with
    | None => None
    | Some s => Some (to_list num_mutations (rl_out (rl_finish s)))
    end.
End Relabel.

(** ** split_disjoint_nodes, up to [tables.sort()]: new edge columns, the node-table row each
    new node copies ([nodes_order]; [_reorder_nodes] takes flags / time / population /
    individual from that row), the set of rows that get NODE_SPLIT_BY_PREPROCESS (the
    ORIGINAL rows listed in split_nodes, hence also all their copies), and the new mutation
    nodes. *)
Definition split_disjoint_nodes (es : list edge) (is_sample : list bool) (muts : list (Z * nat))
           (insq remq : list nat)
  : option (list Z * list Z * list nat * list nat * list Z) :=
  let nn := length is_sample in
  let '(np, nc, order, split) := split_disjoint es (of_list false is_sample) nn in
  let mpos := fun m => fst (nth m muts (0, O)) in
  let mnode := fun m => snd (nth m muts (0, O)) in
  match relabel_mutations es (fun e => Z.to_nat (nth e np 0)) (fun e => Z.to_nat (nth e nc 0))
                          (fun c => nth c order O) mpos mnode (length muts) insq remq with
  | None => None
  | Some out => Some (np, nc, order, split, out)
  end.

(** ** Reference semantics for the oracle-side statements (executable, per integer position) *)

(** presence of node [u] at [x]: it is the parent or the child of an edge covering [x] *)
Definition present (es : list edge) (x : Z) (u : nat) : bool :=
  existsb (fun e => covers e x && (Nat.eqb (eparent e) u || Nat.eqb (echild e) u)) es.
