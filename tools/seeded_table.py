#!/venv/bin/python
"""Rewrite the table of seeded changes in DESIGN.md (between the SEEDED-TABLE markers) from seeded/*/meta.json."""
import glob, json, os, re
HERE = os.path.abspath(os.path.join(os.path.dirname(__file__), ".."))
rows = []
for m in sorted(glob.glob(os.path.join(HERE, "seeded", "*", "meta.json"))):
    d = json.load(open(m))
    name = os.path.basename(os.path.dirname(m))
    rows.append("| `seeded/%s` | %s | %s | %s | %s |" % (
        name, d["property"], d["breaks"].replace("|", "/"), d["needs_to_manifest"].replace("|", "/"),
        "; ".join(d["caught_by"]) if d.get("caught_by") else "NOT caught: " + d.get("missed_note", "")))
table = ("| change | property | what it breaks | what it needs to manifest | caught by |\n|---|---|---|---|---|\n"
         + "\n".join(rows))
p = os.path.join(HERE, "DESIGN.md")
s = open(p).read()
block = "<!-- SEEDED-TABLE-BEGIN -->\n" + table + "\n<!-- SEEDED-TABLE-END -->"
if "<!-- SEEDED-TABLE-BEGIN -->" in s:
    s = re.sub(r"<!-- SEEDED-TABLE-BEGIN -->.*?<!-- SEEDED-TABLE-END -->", lambda _m: block, s, flags=re.S)
else:
    s += ("\n\n## 13. Seeded changes and which checks catch them\n\n"
          "Each change below was written by a fresh sub-agent that saw only the property text and its own scratch "
          "worktree (nothing from /verif), keeps the unedited test suite passing (470 passed), and comes with a "
          "demonstration that fails with the change and passes without it; each was re-confirmed with "
          "`tools/verify_seed.sh` (demo with/without, full suite) and then run against the checks with "
          "`VERIF_REPO=<worktree> ./check <ID>`. Where a check missed a change it was strengthened and the note says "
          "how. Patch, demonstration and meta.json are under `seeded/<name>/`.\n\n" + block + "\n")
open(p, "w").write(s)
print("%d seeded changes" % len(rows))
