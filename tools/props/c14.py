"""C14 -- conditional coalescent prior moments are exact."""
import math
from fractions import Fraction as F

from props import _prior as K

ENV_BY_TIER = {"quick": {"NUMBA_DISABLE_JIT": "1"}, "thorough": {}}

RULE = ("total sample counts n: every n in 2..24 (quick) / 2..60 (thorough) plus seeded random n up to 400 "
        "(always one n >= 300), plus, oracle-only against the closed-form reference for ~18 values of k, one random n in "
        "1100..1700 (quick) / n = 1500, 1023, 1024, 1025, 2048, 4097, 9999 and random n up to 6000 (thorough): the range "
        "where products of n ratios and binomial-sized quantities leave the double range; for each n <= 400 every k in 2..n, both "
        "prior distributions (lognorm, gamma); a case is one (n, distribution) table; non-trivial when n >= 3 "
        "(the recursion over ancestors is exercised); plus approximate tables (approx_prior_size 10, 100, 1000 in a private "
        "XDG_CACHE_HOME): rows from the cold (in-memory) and warm (cached) lookup table compared bit for bit; and 6 / 40 "
        "sequences of 6-9 add(n, approximate in {None, True, False}) calls on ONE object owning a table (n on both sides of "
        "10000), every added table compared bit for bit with a fresh object's (exact path whenever it must be); and 25 / 200 "
        "'tables stay exact under use' cases: MixturePrior on a small msprime tree sequence (some with missing samples => "
        "several totals stored, some renumbered; lognorm/gamma; approximate off / size 20 / 100), all stored tables snapshotted, "
        "then 4-8 random consumer calls on the same objects (create_timepoints, make_discretised_prior with int and array "
        "timepoints, get_mixture_prior_params, add of the same / another n, mixture_expect_and_var, reads, make_parameter_grid, "
        "clear + precalculate cache; one consumer repeated): after EVERY call every table must be bit-identical to its snapshot, "
        "and at the end pass the exact-rational / moment-matching oracle")
ASSUME = ["the Python exact-rational reference (closed-form level weights) is tied to the Coq model by an exact "
          "comparison with the model evaluated on Q inside Coq for small n on every run, and to the Kingman jump "
          "chain by C14_kingman_bounded (n <= 24) and by a Python re-enumeration (n <= 9) on every run",
          "binary64 run of the model uses the linear representation of the level probabilities (the code uses "
          "logs); C14_marginalize_linear_agrees proves both equal over R; compared under a measured tolerance",
          "approximate (interpolated) priors for n >= 10000 are outside the statement"]

# measured on the unchanged tree: implementation vs exact rationals <= 5.0e-14 (n <= 400),
# model(binary64, linear) vs exact <= 2e-14; tolerances leave a factor >= 200
TOL_VAR = 1e-11        # relative, variance vs exact / vs model
TOL_MEAN = 4e-16       # relative, stored mean vs exact (one correctly rounded division / 3 roundings for k = n)
TOL_PAR = 1e-12        # alpha / beta vs model (np.float64 ** 2 is not always x*x; ln differs by ulps)
TOL_MOM = 1e-10        # moment matching of (alpha, beta) recomputed in 50-digit arithmetic


def pick_ns(ctx):
    rng = ctx.rng
    small = list(range(2, ctx.n(25, 61)))
    big = sorted({rng.randint(ctx.n(25, 61), 400) for _ in range(ctx.n(5, 40))} | {rng.randint(300, 400)})
    return small, big


def oracle_n(ctx, n, var, rows):
    """the property on the implementation, for one n: var / rows from the code"""
    import mpmath
    means, exact = K.ref_moments(n)
    if var is not None and len(var) != n + 1:
        ctx.oracle_fail("variance-shape", "conditional_coalescent_variance(%d) has %d entries" % (n, len(var)), {"n": n, "distr": None})
        return False
    for k in range(2, n + 1):
        if var is not None:
            e = K.relerr(var[k], exact[k])
            if not e <= TOL_VAR:
                ctx.oracle_fail("variance", "conditional_coalescent_variance(%d)[%d] = %r, exact Kingman value %s (rel err %.3g)"
                                % (n, k, var[k], float(exact[k]), e), {"n": n, "k": k, "distr": None})
                return False
    for distr, rr in (rows or {}).items():
        if len(rr) != n + 1:
            ctx.oracle_fail("rows-shape", "prior table for n=%d has %d rows" % (n, len(rr)), {"n": n, "distr": distr})
            return False
        with mpmath.workdps(50):
            for k in range(2, n + 1):
                alpha, beta, mean, v = rr[k]
                em = K.relerr(mean, means[k])
                ev = K.relerr(v, exact[k])
                if not (em <= TOL_MEAN and ev <= TOL_VAR):
                    ctx.oracle_fail("row-moments", "%s prior row n=%d k=%d stores mean=%r var=%r, exact %s / %s"
                                    % (distr, n, k, mean, v, float(means[k]), float(exact[k])), {"n": n, "k": k, "distr": distr})
                    return False
                # (alpha, beta) must be the moment-matched parameters of the stored mean / variance
                if not (math.isfinite(alpha) and math.isfinite(beta)):
                    ctx.oracle_fail("row-params", "%s prior row n=%d k=%d has alpha=%r beta=%r" % (distr, n, k, alpha, beta),
                                    {"n": n, "k": k, "distr": distr})
                    return False
                a, b = mpmath.mpf(alpha), mpmath.mpf(beta)
                if distr == "gamma":
                    pm, pv = a / b, a / (b * b)
                else:
                    pm = mpmath.exp(a + b / 2)
                    pv = (mpmath.exp(b) - 1) * mpmath.exp(2 * a + b)
                dm = abs(pm - mpmath.mpf(mean)) / mpmath.mpf(mean)
                dv = abs(pv - mpmath.mpf(v)) / mpmath.mpf(v)
                if not (dm <= TOL_MOM and dv <= TOL_MOM):
                    ctx.oracle_fail("moment-match", "%s parameters (%r, %r) for n=%d k=%d have mean %s var %s, not the stored %r / %r"
                                    % (distr, alpha, beta, n, k, mpmath.nstr(pm, 17), mpmath.nstr(pv, 17), mean, v),
                                    {"n": n, "k": k, "distr": distr})
                    return False
    return True


def tol_var(n):
    """measured on the unchanged tree: <= 5e-14 (n <= 400), 6.4e-13 (n = 1700); grows roughly like n^2"""
    return TOL_VAR * max(1.0, (n / 1000.0) ** 2)


def big_ks(rng, n):
    ks = {2, 3, 4, 5, 10, 30, 100, n // 4, n // 2, n - 2, n - 1, n}
    ks |= {rng.randint(2, n) for _ in range(4)} | {rng.randint(2, 60) for _ in range(2)}
    return sorted(k for k in ks if 2 <= k <= n)


def oracle_big(ctx, n, distrs):
    """large n (where products of n ratios / binomial-sized quantities leave the double range): the
    implementation against the closed-form reference (exact integer weights, 80-digit sums) for a
    handful of k: variance, stored mean, and the moment-matched parameters.  Oracle only."""
    import mpmath
    ks = big_ks(ctx.rng, n)
    try:
        var = K.impl_ccv(n)
        rows = {d: K.impl_rows(n, d) for d in distrs}
    except Exception as e:
        ctx.oracle_fail("exception", "building the prior for n=%d raised %s: %s" % (n, type(e).__name__, str(e)[:200]),
                        {"n": n, "distr": None})
        return False
    ref = K.ref_moments_big(n, ks)
    tol = tol_var(n)
    if len(var) != n + 1:
        ctx.oracle_fail("variance-shape", "conditional_coalescent_variance(%d) has %d entries" % (n, len(var)), {"n": n, "distr": None})
        return False
    with mpmath.workdps(50):
        for k in ks:
            rm, rv = ref[k]
            x = var[k]
            e = float(abs(mpmath.mpf(x) - rv) / rv) if math.isfinite(x) else float("inf")
            if not e <= tol:
                ctx.oracle_fail("variance", "conditional_coalescent_variance(%d)[%d] = %r, exact Kingman value %s (rel err %.3g)"
                                % (n, k, x, mpmath.nstr(rv, 17), e), {"n": n, "k": k, "distr": None})
                return False
            for d in distrs:
                rr = rows[d]
                if len(rr) != n + 1:
                    ctx.oracle_fail("rows-shape", "prior table for n=%d has %d rows" % (n, len(rr)), {"n": n, "distr": d})
                    return False
                alpha, beta, mean, v = rr[k]
                if not all(math.isfinite(z) for z in (alpha, beta, mean, v)):
                    ctx.oracle_fail("row-params", "%s prior row n=%d k=%d is %r" % (d, n, k, rr[k]), {"n": n, "k": k, "distr": d})
                    return False
                em = float(abs(mpmath.mpf(mean) - rm) / rm)
                ev = float(abs(mpmath.mpf(v) - rv) / rv)
                if not (em <= TOL_MEAN and ev <= tol):
                    ctx.oracle_fail("row-moments", "%s prior row n=%d k=%d stores mean=%r var=%r, exact %s / %s"
                                    % (d, n, k, mean, v, mpmath.nstr(rm, 17), mpmath.nstr(rv, 17)), {"n": n, "k": k, "distr": d})
                    return False
                a, b = mpmath.mpf(alpha), mpmath.mpf(beta)
                if d == "gamma":
                    pm, pv = a / b, a / (b * b)
                else:
                    pm = mpmath.exp(a + b / 2)
                    pv = (mpmath.exp(b) - 1) * mpmath.exp(2 * a + b)
                # the parameters must reproduce the EXACT moments, not only the stored ones
                if not (abs(pm - rm) / rm <= TOL_MOM and abs(pv - rv) / rv <= max(TOL_MOM, 10 * tol)):
                    ctx.oracle_fail("moment-match", "%s parameters (%r, %r) for n=%d k=%d have mean %s var %s, exact %s / %s"
                                    % (d, alpha, beta, n, k, mpmath.nstr(pm, 17), mpmath.nstr(pv, 17),
                                       mpmath.nstr(rm, 17), mpmath.nstr(rv, 17)), {"n": n, "k": k, "distr": d})
                    return False
    ctx.case({"n": n, "distr": "/".join(distrs), "ks": ks, "var[2]": var[2], "oracle-only": True},
             nontrivial=True, kind="n>1000")
    return True


def pick_big(ctx):
    rng = ctx.rng
    if ctx.tier == "quick":
        return [(rng.randint(1100, 1700), [rng.choice(["lognorm", "gamma"])])]
    both = ["lognorm", "gamma"]
    return [(n, both) for n in [1500, rng.randint(1100, 1700), rng.randint(1100, 1700), 1023, 1024, 1025, 2048,
                                rng.randint(2000, 6000), 4097, 9999]]


def approx_cold_warm(ctx, sizes):
    """approximate priors: the lookup table for `size` tips, computed in memory on the first (cold) call and read
    back from the cache file afterwards (warm), must give bit-identical rows; the table itself must hold the exact
    variances of size+1 tips; the MRCA row of an approximate table is exact.  Private XDG_CACHE_HOME."""
    import os
    import shutil
    import logging
    import numpy as np
    import tsdate.prior as P
    logging.getLogger().setLevel(logging.ERROR)
    d = os.path.join(ctx.work, "xdg_c14")
    old = os.environ.get("XDG_CACHE_HOME")
    try:
        for size in sizes:
            shutil.rmtree(d, ignore_errors=True)
            os.makedirs(d)
            os.environ["XDG_CACHE_HOME"] = d
            distr = ctx.rng.choice(["lognorm", "gamma"])
            n = ctx.rng.choice([2, 3, 5, 8, 20, 57, size, size + 1, 3 * size])
            rp = {"n": n, "distr": distr, "approx_prior_size": size}
            try:
                with np.errstate(all="ignore"):
                    cold = P.ConditionalCoalescentTimes(size, distr)
                    cold.add(n, approximate=True)
                    warm = P.ConditionalCoalescentTimes(size, distr)
                    warm.add(n, approximate=True)
                    again = P.ConditionalCoalescentTimes(size, distr)
                    again.add(n, approximate=True)
            except Exception as e:
                ctx.oracle_fail("exception", "approximate prior size=%d n=%d raised %s: %s" % (size, n, type(e).__name__, str(e)[:200]), rp)
                continue
            ctx.case({"approx_prior_size": size, "n": n, "distr": distr, "row[n]": [float(x) for x in cold[n][n]]},
                     nontrivial=True, kind="approximate/cold-vs-warm")
            if not (np.array_equal(cold.approx_priors, warm.approx_priors) and np.array_equal(cold[n], warm[n], equal_nan=True)
                    and np.array_equal(warm[n], again[n], equal_nan=True)):
                bad = int(np.sum(cold.approx_priors != warm.approx_priors)) if cold.approx_priors.shape == warm.approx_priors.shape else -1
                ctx.oracle_fail("approx-cold-warm", "approx_prior_size=%d, n=%d (%s): rows from the freshly computed lookup table differ from "
                                "rows from the cached table (%d table entries differ)" % (size, n, distr, bad), rp)
                continue
            exact = K.impl_ccv(size + 1)
            tab = cold.approx_priors
            if not (tab.shape == (size, 2) and all(tab[i, 1] == exact[i + 1] for i in range(1, size))
                    and all(tab[i, 0] == (i + 1) / size for i in range(1, size))):
                ctx.oracle_fail("approx-table", "lookup table for %d tips is not (k/size, conditional_coalescent_variance(size+1)[k])" % size, rp)
                continue
            if n >= 2:
                mrca_v = cold[n][n][3]
                if not K.close(mrca_v, K.impl_tau_var_mrca(n), 0.0):
                    ctx.oracle_fail("approx-mrca", "approximate table n=%d: MRCA variance %r is not tau_var_mrca(n)" % (n, mrca_v), rp)
    finally:
        if old is None:
            os.environ.pop("XDG_CACHE_HOME", None)
        else:
            os.environ["XDG_CACHE_HOME"] = old


def add_sequences(ctx, nseq):
    """several add() calls on ONE ConditionalCoalescentTimes object that owns a lookup table (private
    XDG_CACHE_HOME): random interleavings of add(n, approximate) with approximate in {None, True, False} and n on
    both sides of DEFAULT_APPROX_PRIOR_SIZE.  After every call the row table just added must be bit-identical to
    the one a FRESH object gives for the same (n, mode): exact whenever approximate is False, or None with
    n < 10000 -- whatever was added before (no state may leak from one call to the next)."""
    import os
    import shutil
    import logging
    import numpy as np
    import tsdate.prior as P
    logging.getLogger().setLevel(logging.ERROR)
    rng = ctx.rng
    d = os.path.join(ctx.work, "xdg_c14_seq")
    old = os.environ.get("XDG_CACHE_HOME")
    big = P.DEFAULT_APPROX_PRIOR_SIZE
    exact_cache = {}
    try:
        shutil.rmtree(d, ignore_errors=True)
        os.makedirs(d)
        os.environ["XDG_CACHE_HOME"] = d
        for _ in range(nseq):
            size = rng.choice([20, 50, 200, 500])
            distr = rng.choice(["lognorm", "gamma"])
            ns = rng.sample(range(2, 130), rng.randint(4, 7))
            seq = [(n, rng.choice([None, None, True, False])) for n in ns]
            pos = rng.randrange(len(seq))
            if rng.random() < 0.5:
                seq.insert(pos, (big + rng.randint(0, 3), None))         # switches approximation on by default
            else:
                seq.insert(pos, (rng.randint(2, 300), True))
            seq.append((rng.randint(2, 130) + 130, None))              # a default call after approximation was used
            rp = {"approx_prior_size": size, "distr": distr, "sequence": [[n, a] for n, a in seq], "n": seq[-1][0]}
            try:
                with np.errstate(all="ignore"):
                    obj = P.ConditionalCoalescentTimes(size, distr)
                    for i, (n, appr) in enumerate(seq):
                        if n in obj.prior_store:
                            continue
                        obj.add(n, appr) if appr is not None else obj.add(n)
                        use_approx = appr is True or (appr is None and n >= big)
                        key = (n, use_approx, size if use_approx else None, distr)
                        if key not in exact_cache:
                            fresh = P.ConditionalCoalescentTimes(size if use_approx else None, distr)
                            fresh.add(n, approximate=use_approx)
                            exact_cache[key] = (distr, fresh[n])
                        want = exact_cache[key][1]
                        got = obj[n]
                        if not (got.shape == want.shape and np.array_equal(got[2:], want[2:], equal_nan=True)):
                            k = 2 + int(np.argmax(np.any(got[2:] != want[2:], axis=1))) if got.shape == want.shape else -1
                            ctx.oracle_fail("add-sequence", "after the calls %r on one object (%s, table of %d tips) the rows for n=%d "
                                            "(%s path expected) differ from a fresh object's: k=%d got %r want %r"
                                            % ([[m, a] for m, a in seq[:i + 1]], distr, size, n, "approximate" if use_approx else "EXACT",
                                               k, got[k].tolist() if k >= 0 else None, want[k].tolist() if k >= 0 else None),
                                            dict(rp, sequence=[[m, a] for m, a in seq[:i + 1]], n=n))
                            raise StopIteration
            except StopIteration:
                pass
            except Exception as e:
                ctx.oracle_fail("exception", "add sequence %r raised %s: %s" % (rp["sequence"], type(e).__name__, str(e)[:200]), rp)
            ctx.case({"approx_prior_size": size, "distr": distr, "add-sequence": rp["sequence"]}, nontrivial=True, kind="add-sequence")
    finally:
        if old is None:
            os.environ.pop("XDG_CACHE_HOME", None)
        else:
            os.environ["XDG_CACHE_HOME"] = old


# ------------------------------------------------------------------ tables stay exact under use
USE_CALLS = ("create_timepoints", "grid_int", "grid_array", "mixture_params", "add_same", "add_other",
             "mixture_moments", "read", "parameter_grid", "recache")


def make_use_case(rng):
    from vlib import gen
    n = rng.choice([2, 3, 4, 5, 6, 8])
    ts = gen.sim_ts(rng, n=n, historical=False)
    if rng.random() < 0.35 and ts.sequence_length >= 5:
        from props import c15
        L = int(ts.sequence_length)
        a = rng.randint(0, L - 2)
        ts = c15.isolate(ts, [(rng.randrange(n), a, rng.randint(a + 1, L))])      # several totals T stored at once
    if rng.random() < 0.3:
        ts = gen.permute_nodes(rng, ts)
    distr = rng.choice(["lognorm", "lognorm", "gamma"])
    approx = rng.choice([None, None, 20, 100])
    calls = []
    for _ in range(rng.randint(3, 6)):
        c = rng.choice(USE_CALLS)
        if c == "create_timepoints":
            calls.append([c, rng.choice([3, 5, 11, 21])])
        elif c == "grid_int":
            calls.append([c, rng.choice([2, 3, 10, 20])])
        elif c == "grid_array":
            calls.append([c, sorted({0.0} | {round(rng.random() * 10 ** rng.randint(0, 3), 3) + 0.001 for _ in range(rng.randint(2, 6))})])
        elif c == "add_other":
            calls.append([c, rng.choice([2, 3, 7, 12, 30, n + 1, n + 5])])
        else:
            calls.append([c, None])
    if not any(c[0] in ("create_timepoints", "grid_int") for c in calls):
        calls.insert(rng.randrange(len(calls) + 1), ["grid_int", rng.choice([2, 5, 20])])
    # every consumer is called a SECOND time on the same object at the end
    calls.append(list(rng.choice([c for c in calls if c[0] in ("create_timepoints", "grid_int", "grid_array", "mixture_params")]
                                 or [["grid_int", 5]])))
    return {"ts": gen.ts_tables_dict(ts), "distr": distr, "approx": approx, "calls": calls,
            "pop": rng.choice([1.0, 0.5, 100.0])}, ts


def run_use_case(ctx, case, ts=None):
    """build the tables, snapshot them, run the consumer calls; returns True iff every stored table stayed
    bit-identical after every call and still passes the exact-rational / moment-matching oracle"""
    import os
    import shutil
    import logging
    import numpy as np
    import mpmath
    import tsdate.prior as P
    from vlib import gen
    logging.getLogger().setLevel(logging.ERROR)
    if ts is None:
        ts = gen.ts_from_dict(case["ts"])
    distr, approx = case["distr"], case["approx"]
    d = os.path.join(ctx.work, "xdg_c14_use")
    old = os.environ.get("XDG_CACHE_HOME")
    shutil.rmtree(d, ignore_errors=True)
    os.makedirs(d)
    os.environ["XDG_CACHE_HOME"] = d
    done = []
    try:
        with np.errstate(all="ignore"):
            kw = {"prior_distribution": distr}
            if approx:
                kw.update(approximate_priors=True, approx_prior_size=approx)
            mp = P.MixturePrior(ts, **kw)
            base = mp.base_priors
            snap = {n: np.array(t, copy=True) for n, t in base.prior_store.items()}
            snap_params = np.array(mp.prior_params, copy=True)
            snap_lookup = None if base.approx_priors is None else np.array(base.approx_priors, copy=True)

            def unchanged():
                for n, t0 in snap.items():
                    t1 = base.prior_store.get(n)
                    if t1 is None or t1.shape != t0.shape or not np.array_equal(t0, t1, equal_nan=True):
                        if t1 is None or t1.shape != t0.shape:
                            return "the table for n=%d disappeared or changed shape" % n, int(n)
                        k, col = [int(x[0]) for x in np.where(~((t0 == t1) | (np.isnan(t0) & np.isnan(t1))))]
                        return ("prior_store[%d][%d] column %s was %r, is now %r" % (
                            n, k, P.PriorParams._fields[col], float(t0[k, col]), float(t1[k, col]))), int(n)
                if not np.array_equal(snap_params, mp.prior_params, equal_nan=True):
                    return "MixturePrior.prior_params changed", int(max(snap))
                if snap_lookup is not None and not np.array_equal(snap_lookup, base.approx_priors):
                    return "the in-memory lookup table approx_priors changed", int(max(snap))
                return None

            for name, arg in case["calls"]:
                done.append([name, arg])
                if name == "create_timepoints":
                    P.create_timepoints(base, arg)
                elif name == "grid_int":
                    mp.make_discretised_prior(case["pop"], arg)
                elif name == "grid_array":
                    mp.make_discretised_prior(case["pop"], np.array(arg, dtype=float))
                elif name == "mixture_params":
                    contmpr, _map = __import__("tsdate").util.reduce_to_contemporaneous(ts)
                    base.get_mixture_prior_params(P.SpansBySamples(contmpr))
                elif name == "add_same":
                    base.add(max(snap), bool(approx))
                elif name == "add_other":
                    if arg not in base.prior_store:
                        base.add(arg, bool(approx))
                        fresh = P.ConditionalCoalescentTimes(approx, distr)
                        fresh.add(arg, bool(approx))
                        if not np.array_equal(base[arg], fresh[arg], equal_nan=True):
                            ctx.oracle_fail("table-after-use", "after %r the table added for n=%d differs from a fresh object's" % (done, arg),
                                            dict(case, calls=done, n=arg))
                            return False
                        snap[arg] = np.array(base[arg], copy=True)
                elif name == "mixture_moments":
                    n0 = max(snap)
                    if n0 >= 2:
                        mix = {n0: np.array([(2, 3.0), (n0, 5.0)], dtype=[("descendant_tips", np.uint64), ("span", np.float64)])}
                        base.mixture_expect_and_var(mix)
                        base.mixture_expect_and_var(mix, weight_by_log_span=True)
                elif name == "read":
                    base.prior_with_max_total_tips()
                    str(base)
                    _ = base[max(snap)]
                elif name == "parameter_grid":
                    if distr == "gamma":
                        mp.make_parameter_grid(case["pop"])
                elif name == "recache":
                    if approx:
                        base.clear_precalculated_priors()
                        base.precalculate_priors_for_approximation(approx)
                bad = unchanged()
                if bad is not None:
                    ctx.oracle_fail("table-mutated", "%s prior tables (n_samples=%d%s): after the calls %r on the object: %s -- stored tables must stay "
                                    "the exact moments and their moment-matched parameters whatever consumes them"
                                    % (distr, ts.num_samples, ", approximate" if approx else "", done, bad[0]),
                                    dict(case, calls=done, n=bad[1]))
                    return False
        # (b) the tables, after use, against the exact references
        for n, t in base.prior_store.items():
            n = int(n)          # totals coming from np.unique are numpy integers
            rows = [[float(x) for x in r] for r in t]
            if not approx:
                if not oracle_n(ctx, n, None, {distr: rows}):
                    return False
            else:
                with mpmath.workdps(50):
                    for k in range(2, n + 1):
                        al, be, mean, v = (mpmath.mpf(x) for x in rows[k])
                        if distr == "gamma":
                            pm, pv = al / be, al / (be * be)
                        else:
                            pm, pv = mpmath.exp(al + be / 2), (mpmath.exp(be) - 1) * mpmath.exp(2 * al + be)
                        if not (abs(pm - mean) / mean <= TOL_MOM and abs(pv - v) / v <= TOL_MOM):
                            ctx.oracle_fail("moment-match", "after %r: %s parameters of n=%d k=%d no longer match the stored mean/var"
                                            % (done, distr, n, k), dict(case, calls=done, n=n))
                            return False
        return True
    except Exception as e:
        ctx.oracle_fail("exception", "tables-under-use %r raised %s: %s" % (done, type(e).__name__, str(e)[:200]), dict(case, calls=done, n=0))
        return False
    finally:
        if old is None:
            os.environ.pop("XDG_CACHE_HOME", None)
        else:
            os.environ["XDG_CACHE_HOME"] = old


def tables_under_use(ctx, ncases):
    for _ in range(ncases):
        case, ts = make_use_case(ctx.rng)
        ok = run_use_case(ctx, case, ts)
        ctx.case({"tables-under-use": case["calls"], "distr": case["distr"], "approx": case["approx"],
                  "samples": ts.num_samples, "trees": ts.num_trees}, nontrivial=True,
                 kind="tables-under-use/" + case["distr"] + ("/approx" if case["approx"] else ""))
        if not ok:
            return


def kingman_reference_check(ctx, nmax):
    """Python re-enumeration of the Kingman chain against the closed-form reference (exact)
    and against the implementation"""
    for n in range(2, nmax + 1):
        km = K.kingman_py(n)
        means, exact = K.ref_moments(n)
        for k in range(2, n + 1):
            if km[k] != (means[k], exact[k]):
                ctx.tie_fail("correspondence", "python-reference-vs-kingman",
                             "closed-form reference differs from the enumerated chain at n=%d k=%d" % (n, k))
                return
        try:
            var = K.impl_ccv(n)
        except Exception:
            continue   # reported by run()
        for k in range(2, n + 1):
            if not K.relerr(var[k], km[k][1]) <= TOL_VAR:
                ctx.oracle_fail("variance-kingman", "conditional_coalescent_variance(%d)[%d] = %r but the enumerated Kingman chain gives %s"
                                % (n, k, var[k], float(km[k][1])), {"n": n, "k": k, "distr": None})
                return


def run(ctx, model_ok=True):
    small, big = pick_ns(ctx)
    ns = small + big
    impl_var = {}
    impl_rows = {}
    for n in list(ns):
        try:
            impl_var[n] = K.impl_ccv(n)
            impl_rows[n] = {d: K.impl_rows(n, d) for d in ("lognorm", "gamma")}
            K.impl_tau_var_mrca(n)
        except Exception as e:  # a valid n must not raise
            ctx.oracle_fail("exception", "building the prior for n=%d raised %s: %s" % (n, type(e).__name__, str(e)[:200]),
                            {"n": n, "distr": None})
            ns.remove(n)
    # ---- oracle on the implementation (exact rational reference)
    for n in ns:
        ok = oracle_n(ctx, n, impl_var[n], impl_rows[n])
        for d in ("lognorm", "gamma"):
            r = impl_rows[n][d]
            ctx.case({"n": n, "distr": d, "rows[2]": r[2] if len(r) > 2 else None, "rows[n]": r[-1]},
                     nontrivial=n >= 3, kind="n<=24" if n <= 24 else ("n<=100" if n <= 100 else "n<=400"))
        if not ok:
            break
    kingman_reference_check(ctx, ctx.n(9, 11))
    approx_cold_warm(ctx, [10, 100, 1000])
    add_sequences(ctx, ctx.n(6, 40))
    tables_under_use(ctx, ctx.n(25, 200))
    if not ctx.oracle_fails:
        for n, distrs in pick_big(ctx):
            if not oracle_big(ctx, n, distrs):
                break
    # tau_var_mrca (used for the MRCA on the approximate path) = the exact k = n variance
    for n in ns:
        _m, exact = K.ref_moments(n) if n <= 60 else (None, None)
        t = K.impl_tau_var_mrca(n)
        if exact is not None and not K.relerr(t, exact[n]) <= 1e-13:
            ctx.oracle_fail("tau_var_mrca", "tau_var_mrca(%d) = %r, exact %s" % (n, t, float(exact[n])), {"n": n, "distr": None})
        if not K.close(t, impl_var[n][n], 1e-11):
            ctx.oracle_fail("tau_var_mrca", "tau_var_mrca(%d) = %r differs from the exact-path variance %r" % (n, t, impl_var[n][n]),
                            {"n": n, "distr": None})
    if not model_ok:
        return
    # ---- correspondence with the Coq model on binary64
    row_inputs = []
    index = []
    for n in ns:
        for d in ("lognorm", "gamma"):
            for k in range(2, n + 1):
                row = impl_rows[n][d][k] if k < len(impl_rows[n][d]) else [float("nan")] * 4
                row_inputs.append((row[2], row[3]))
                index.append((n, d, k))
    ccvs, taus, mrca, gam, logn = K.model_c14(ctx, ns, row_inputs)
    for i, n in enumerate(ns):
        mv = ccvs[i]
        iv = impl_var[n]
        ok = mv is not None and len(mv) == len(iv) and iv[0] == mv[0] and iv[1] == mv[1] and \
            all(K.close(a, b, TOL_VAR) for a, b in zip(iv[2:], mv[2:]))
        ctx.corr("conditional_coalescent_variance", ok, "n=%d impl=%r model=%r" % (n, iv[:6], (mv or [])[:6]),
                 replay={"n": n, "distr": None})
        for d in ("lognorm", "gamma"):
            rows = impl_rows[n][d]
            okm = len(rows) == n + 1 and all(rows[k][2] == taus[i][k - 2] for k in range(2, n + 1))
            ctx.corr("tau_expect/" + d, okm, "n=%d stored means differ from the model's tau_expect (bit-exact expected)" % n,
                     replay={"n": n, "distr": d})
            okv = len(rows) == n + 1 and all(rows[k][3] == iv[k] for k in range(2, n + 1))
            ctx.corr("row-var/" + d, okv, "n=%d stored variances are not conditional_coalescent_variance(n)[k]" % n,
                     replay={"n": n, "distr": d})
        ctx.corr("tau_var_mrca", K.close(K.impl_tau_var_mrca(n), mrca[i], 1e-13),
                 "n=%d impl=%r model=%r" % (n, K.impl_tau_var_mrca(n), mrca[i]), replay={"n": n, "distr": None})
    bad = {}
    for (n, d, k), g, l in zip(index, gam, logn):
        row = impl_rows[n][d][k] if k < len(impl_rows[n][d]) else None
        m = g if d == "gamma" else l
        ok = row is not None and K.close(row[0], m[0], TOL_PAR, 1e-13) and K.close(row[1], m[1], TOL_PAR, 1e-13)
        if not ok and (n, d) not in bad:
            bad[(n, d)] = "n=%d k=%d %s impl (alpha,beta)=%r model=%r" % (n, k, d, row and row[:2], m)
    for n in ns:
        for d in ("lognorm", "gamma"):
            ctx.corr("approx-params/" + d, (n, d) not in bad, bad.get((n, d), ""), replay={"n": n, "distr": d})
    # ---- the Python exact reference against the model on Q inside Coq (exact equality)
    qs = list(range(2, ctx.n(13, 19))) + sorted({ctx.rng.randint(ctx.n(13, 19), ctx.n(22, 30)) for _ in range(2)})
    qccv, qtau = K.model_c14_exact(ctx, qs)
    for i, n in enumerate(qs):
        means, exact = K.ref_moments(n)
        ok = qccv[i] is not None and qccv[i] == exact and qtau[i] == means[2:]
        ctx.corr("exact-reference-vs-model-on-Q", ok, "n=%d" % n, replay={"n": n, "distr": None})


def search(ctx):
    """extended oracle-only search when a tie broke"""
    for n in (1500, ctx.rng.randint(1100, 1700)):
        if not oracle_big(ctx, n, ["lognorm", "gamma"]):
            return
    for n in list(range(2, 80)) + [ctx.rng.randint(80, 400) for _ in range(6)]:
        try:
            rows = {d: K.impl_rows(n, d) for d in ("lognorm", "gamma")}
            var = K.impl_ccv(n)
        except Exception as e:
            ctx.oracle_fail("exception", "building the prior for n=%d raised %s: %s" % (n, type(e).__name__, str(e)[:200]),
                            {"n": n, "distr": None})
            return
        if not oracle_n(ctx, n, var, rows):
            return


def replay_sequence(ctx, case):
    import os
    import shutil
    import numpy as np
    import tsdate.prior as P
    d = os.path.join(ctx.work, "xdg_c14_replay")
    shutil.rmtree(d, ignore_errors=True)
    os.makedirs(d)
    old = os.environ.get("XDG_CACHE_HOME")
    os.environ["XDG_CACHE_HOME"] = d
    try:
        size, distr = case["approx_prior_size"], case["distr"]
        with np.errstate(all="ignore"):
            obj = P.ConditionalCoalescentTimes(size, distr)
            for n, appr in case["sequence"]:
                obj.add(n, appr) if appr is not None else obj.add(n)
            n, appr = case["sequence"][-1]
            use = appr is True or (appr is None and n >= P.DEFAULT_APPROX_PRIOR_SIZE)
            fresh = P.ConditionalCoalescentTimes(size if use else None, distr)
            fresh.add(n, approximate=use)
        return bool(np.array_equal(obj[n][2:], fresh[n][2:], equal_nan=True))
    except Exception:
        return False
    finally:
        if old is None:
            os.environ.pop("XDG_CACHE_HOME", None)
        else:
            os.environ["XDG_CACHE_HOME"] = old


def replay(ctx, data):
    case = data.get("case") or {}
    before = len(ctx.oracle_fails)
    if case.get("sequence"):
        return replay_sequence(ctx, case)
    if case.get("calls"):
        return bool(run_use_case(ctx, case)) and len(ctx.oracle_fails) == before
    n = int(case["n"])
    ds = [case["distr"]] if case.get("distr") else ["lognorm", "gamma"]
    if n > 450:
        oracle_big(ctx, n, ds)
        return len(ctx.oracle_fails) == before
    try:
        oracle_n(ctx, n, K.impl_ccv(n), {d: K.impl_rows(n, d) for d in ds})
    except Exception:
        return False
    return len(ctx.oracle_fails) == before
