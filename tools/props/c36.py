"""C36 -- the precomputed prior cache is crash-safe and exact.

The theorems (coq/props/C36.v) are about the protocol model coq/model/Cache.v.  The model is
tied to tsdate/prior.py + tsdate/cache.py by fault enumeration against the real code, always
in a private cache directory (XDG_CACHE_HOME redirected below ctx.work; the path returned by
get_precalc_cache is checked to lie inside it before anything is written):

  A. kill:      a child process runs ConditionalCoalescentTimes(n) with RLIMIT_FSIZE = k, so
                the kernel delivers SIGXFSZ (default action: kill) when the cache write passes
                byte k -- for EVERY byte offset k of the file; no Python-level cleanup runs.
  B. exception: the same limit with SIGXFSZ ignored: the write fails with OSError(EFBIG) at
                byte k, the code's own except-handler runs -- for every k.
  C. leftover:  the cached name holds the first k bytes of the serialisation (every k), or a
                structurally damaged table (row dropped / duplicated / swapped, nan, inf,
                table of another n, empty, garbage).
  D. schedules: several runs of ConditionalCoalescentTimes(n) as threads, released one
                file-system operation at a time (isfile, open+read, mkstemp, each row write,
                close, os.replace) by a scheduler that also kills them, raises
                KeyboardInterrupt in them and deletes the cache file; all 924 interleavings
                of two writers for n = 2, random schedules otherwise.
  E. round trip: a complete file is loaded (not rewritten) and equals the computed table.

After every scenario (in D: after every single operation) the property is checked directly:
the cached name is absent or byte-identical to a complete serialisation, and every run that
returned holds exactly the freshly computed table.  The same action traces are executed by
the Coq model (crun, vm_compute) and its observation (final file, temp files, program
counters) must equal what is on disk.
"""
import errno
import itertools
import logging
import os
import shutil
import signal
import subprocess
import sys
import tempfile
import threading
import queue

from vlib.coqfmt import cnat, clist, copt

ENV_BY_TIER = {"quick": {"NUMBA_DISABLE_JIT": "1"}, "thorough": {}}
LEVEL = "proof"

RULE = ("fault enumeration: kill (SIGXFSZ via RLIMIT_FSIZE in a child process) and I/O error (EFBIG) at every byte "
        "offset of the cache write, leftover file truncated at every byte offset or structurally damaged, "
        "thread schedules of 2-4 runs stepped one file-system operation at a time with kills / KeyboardInterrupts / "
        "cache clearing (all 924 interleavings of two writers for n=2, random schedules for n in 2..12), round trip "
        "for many n; a case is non-trivial when it contains a fault, a leftover file or at least two processes; "
        "distinct by content hash")
ASSUME = [
    "os.replace is atomic and a file opened for reading is an immutable snapshot (POSIX rename semantics)",
    "tempfile.mkstemp names are unique (O_EXCL)",
    "every run of ConditionalCoalescentTimes(n) of one tsdate version computes the same table (checked per scenario "
    "against a run in an empty cache directory)",
    "validation rejects what it is shown to reject: truncations at every byte offset and the listed structural "
    "damages are enumerated; a same-shape file whose variance column was altered by something outside this protocol "
    "would be accepted (not part of the property)",
    "durability (fsync / power loss reordering of data and rename) is not modelled",
]

_REAL = {"fdopen": os.fdopen, "replace": os.replace, "isfile": os.path.isfile, "mkstemp": tempfile.mkstemp,
         "open": open, "remove": os.remove}


# ----------------------------------------------------------------------------- sandbox
class Sandbox:
    """a private cache root; refuses to run if the code would write anywhere else"""

    def __init__(self, ctx):
        self.root = os.path.join(ctx.work, "cache_%d" % os.getpid())
        shutil.rmtree(self.root, ignore_errors=True)
        os.makedirs(self.root)
        self.k = 0
        self.old = os.environ.get("XDG_CACHE_HOME")

    def fresh_dir(self):
        self.k += 1
        d = os.path.join(self.root, "d%d" % self.k)
        os.makedirs(d)
        os.environ["XDG_CACHE_HOME"] = d
        return d

    def final(self, n):
        from tsdate.prior import ConditionalCoalescentTimes as CCT
        p = str(CCT.get_precalc_cache(n))
        if not os.path.abspath(p).startswith(os.path.abspath(self.root) + os.sep):
            raise RuntimeError("cache path %s is outside the sandbox %s: refusing to run" % (p, self.root))
        return p

    def drop(self, d):
        shutil.rmtree(d, ignore_errors=True)

    def close(self):
        shutil.rmtree(self.root, ignore_errors=True)
        if self.old is None:
            os.environ.pop("XDG_CACHE_HOME", None)
        else:
            os.environ["XDG_CACHE_HOME"] = self.old


def build(n):
    from tsdate.prior import ConditionalCoalescentTimes as CCT
    return CCT(n).approx_priors


_REF = {}


def reference(sb, n):
    """(fresh table, serialisation) from a run in an empty cache directory"""
    if n not in _REF:
        d = sb.fresh_dir()
        fin = sb.final(n)
        tab = build(n).copy()
        with open(fin, "rb") as f:
            ser = f.read()
        sb.drop(d)
        _REF[n] = (tab, ser)
    return _REF[n]


def same_table(a, b):
    import numpy as np
    return a is not None and getattr(a, "shape", None) == b.shape and bool(np.array_equal(a, b))


def dir_state(sb, n, ser):
    """(final, temps): final = None | (size, complete); temps = sorted sizes of other files"""
    fin = sb.final(n)
    d = os.path.dirname(fin)
    final = None
    temps = []
    for fn in sorted(os.listdir(d)):
        p = os.path.join(d, fn)
        with open(p, "rb") as f:
            data = f.read()
        if p == fin:
            final = (len(data), data == ser)
        else:
            temps.append(len(data))
    return final, sorted(temps)


def final_ok(final):
    return final is None or final[1]


# ----------------------------------------------------------------------------- Coq side
def act(a):
    if a[0] == "spawn":
        return "Spawn"
    if a[0] == "step":
        return "Step %d %d" % (a[1], a[2])
    if a[0] == "kill":
        return "Kill %d" % a[1]
    if a[0] == "raise":
        return "Raise %d" % a[1]
    return "Clear"


def actN(a):
    code = {"spawn": 0, "step": 1, "kill": 2, "raise": 3}.get(a[0], 4)
    p = a[1] if len(a) > 1 else 0
    k = a[2] if len(a) > 2 else 0
    return "(%d, %d, %d)%%uint63" % (code, p, k)


def unint(x):
    """a primitive-int literal as printed by Coq (the shared parser keeps it as a symbol)"""
    if isinstance(x, tuple) and x and x[0] == "sym":
        return int(x[1].split("%")[0])
    return int(x)


def cN(x):
    return "%d%%uint63" % x


def model_obs(ctx, jobs):
    """jobs: list of (len, g0, trace) -> list of model observations (final, temps, pcs) or None"""
    out = []
    B = 300
    # one coqc run (start-up dominates), one Eval per <= 300 traces
    body = "From Coq Require Import Uint63.\n"
    for k in range(0, len(jobs), B):
        terms = ["crunI %s %s %s" % (cN(L), copt(g0, cN), clist([actN(a) for a in tr]))
                 for (L, g0, tr) in jobs[k:k + B]]
        body += "Definition cases%d := %s.\nEval vm_compute in cases%d.\n" % (k, clist(terms), k)
    res = ctx.coq_eval(body, requires=("model.Cache",), tag="cache") if jobs else []
    for block in res:
        for r in block:
            if r is None:
                out.append(None)
                continue
            fin, temps, pcs = r[1]
            fin = None if fin is None else (unint(fin[1][0]), bool(fin[1][1]))
            temps = [None if t is None else unint(t[1]) for t in temps]
            out.append((fin, temps, [unint(x) for x in pcs]))
    return out


def writer_trace(p, L, final_exists, valid):
    """model actions of one uninterrupted run of process p"""
    tr = [("spawn",), ("step", p, 0)]
    if final_exists:
        tr.append(("step", p, 0))          # open + read + validate
        if valid:
            return tr
    tr += [("step", p, 0)]                 # mkstemp
    if L > 0:
        tr.append(("step", p, L))          # all bytes
    tr += [("step", p, 0), ("step", p, 0)]  # close, replace
    return tr


# ----------------------------------------------------------------------------- A / B: faults at byte k
HELPER = r"""
import os, sys, signal, resource, logging
logging.disable(logging.CRITICAL)
from tsdate.prior import ConditionalCoalescentTimes as CCT
for line in sys.stdin:
    d, n, k = line.split()
    n = int(n); k = int(k)
    os.environ["XDG_CACHE_HOME"] = d
    pid = os.fork()
    if pid == 0:
        try:
            signal.signal(signal.SIGXFSZ, signal.SIG_DFL)      # CPython ignores it by default
            resource.setrlimit(resource.RLIMIT_CORE, (0, 0))
            resource.setrlimit(resource.RLIMIT_FSIZE, (k, resource.getrlimit(resource.RLIMIT_FSIZE)[1]))
            CCT(n)
        except BaseException:
            os._exit(3)
        os._exit(0)
    _, st = os.waitpid(pid, 0)
    if os.WIFSIGNALED(st):
        print("signal", os.WTERMSIG(st), flush=True)
    else:
        print("exit", os.WEXITSTATUS(st), flush=True)
"""


class Killer:
    """long-lived helper process (pure-Python tsdate) whose forked children are killed by the kernel"""

    def __init__(self, ctx):
        env = dict(os.environ)
        env["NUMBA_DISABLE_JIT"] = "1"
        self.p = subprocess.Popen([sys.executable, "-c", HELPER], stdin=subprocess.PIPE, stdout=subprocess.PIPE,
                                  stderr=subprocess.DEVNULL, text=True, env=env)

    def crash(self, d, n, k):
        self.p.stdin.write("%s %d %d\n" % (d, n, k))
        self.p.stdin.flush()
        return self.p.stdout.readline().split()

    def close(self):
        try:
            self.p.stdin.close()
            self.p.wait(timeout=20)
        except Exception:  # noqa: BLE001
            self.p.kill()


def offsets(ctx, L, quick_cap):
    ks = list(range(L))
    if ctx.tier == "quick" and L > quick_cap:
        keep = set(range(0, 60)) | set(range(L - 60, L)) | set(ctx.rng.sample(ks, quick_cap - 120))
        ks = sorted(keep)
    return ks


def after_fault(ctx, sb, n, tab, ser, what, k, expect_temp, jobs):
    """state right after the fault, then a new run; oracle on both; queue the model jobs"""
    L = len(ser)
    rp = {"n": n, "fault": what, "byte_offset": k, "file_size": L}
    final, temps = dir_state(sb, n, ser)
    if not final_ok(final):
        ctx.oracle_fail("crash:partial-file-under-cached-name",
                        "%s at byte %d left %d of %d bytes under the cached name" % (what, k, final[0], L), rp)
    trace = [("spawn",), ("step", 0, 0), ("step", 0, 0)] + ([("step", 0, k)] if k > 0 else [])
    trace.append(("kill", 0) if expect_temp else ("raise", 0))
    jobs.append((L, None, trace, (final, [t for t in temps]), dict(rp, stage="after fault")))
    got = build(n)
    if not same_table(got, tab):
        ctx.oracle_fail("crash:wrong-table", "run after %s at byte %d did not get the fresh table" % (what, k), rp)
    final2, temps2 = dir_state(sb, n, ser)
    if final2 is None or not final2[1]:
        ctx.oracle_fail("crash:no-complete-file-after-rerun",
                        "after %s at byte %d and a complete new run the cached name holds %r" % (what, k, final2), rp)
    trace2 = trace + writer_trace(1, L, False, False)
    jobs.append((L, None, trace2, (final2, temps2), dict(rp, stage="after new run")))
    ctx.case(dict(rp, final_after_fault=final, temps_after_fault=temps), nontrivial=True, kind="%s/n=%d" % (what, n))


def scen_kill(ctx, sb, jobs):
    killer = Killer(ctx)
    try:
        for n in ctx.n([10], [10, 20, 30]):
            tab, ser = reference(sb, n)
            # a fork of the interpreter costs ~0.3 s here: every offset only for n=10 in the thorough tier,
            # otherwise the offsets around the row boundaries, both ends and a random sample
            L = len(ser)
            if ctx.tier == "thorough" and n == 10:
                ks = list(range(L))
            else:
                row = ser.index(b"\n") + 1
                ks = {0, 1, 2, row - 1, row, row + 1, 2 * row - 1, 2 * row, L - row - 1, L - row, L - row + 1,
                      L - 2, L - 1}
                ks |= set(ctx.rng.sample(range(L), ctx.n(20, 60)))
                ks = sorted(k for k in ks if 0 <= k < L)
            for k in ks:
                d = sb.fresh_dir()
                sb.final(n)
                st = killer.crash(d, n, k)
                if st[:2] != ["signal", str(int(signal.SIGXFSZ))]:
                    ctx.tie_fail("correspondence", "fault-injection",
                                 "child with RLIMIT_FSIZE=%d ended with %r instead of SIGXFSZ: the write path is "
                                 "not what the harness expects" % (k, st))
                after_fault(ctx, sb, n, tab, ser, "kill", k, True, jobs)
                sb.drop(d)
    finally:
        killer.close()


def scen_eio(ctx, sb, jobs):
    import resource
    old_handler = signal.signal(signal.SIGXFSZ, signal.SIG_IGN)
    soft, hard = resource.getrlimit(resource.RLIMIT_FSIZE)
    try:
        for n in ctx.n([12], [12, 25]):
            tab, ser = reference(sb, n)
            for k in offsets(ctx, len(ser), 260):
                d = sb.fresh_dir()
                sb.final(n)
                raised = None
                resource.setrlimit(resource.RLIMIT_FSIZE, (k, hard))
                try:
                    build(n)
                except OSError as e:
                    raised = e.errno
                finally:
                    resource.setrlimit(resource.RLIMIT_FSIZE, (soft, hard))
                if raised != errno.EFBIG:
                    ctx.tie_fail("correspondence", "fault-injection",
                                 "write limited to %d bytes raised errno %r instead of EFBIG" % (k, raised))
                after_fault(ctx, sb, n, tab, ser, "io-error", k, False, jobs)
                sb.drop(d)
    finally:
        resource.setrlimit(resource.RLIMIT_FSIZE, (soft, hard))
        signal.signal(signal.SIGXFSZ, old_handler)


# ----------------------------------------------------------------------------- C: leftover files
def damaged(n, ser, tab, other):
    """structurally damaged tables that must never be used"""
    import numpy as np
    lines = ser.split(b"\n")[:-1]
    out = {}
    if len(lines) >= 2:
        out["row-dropped"] = b"\n".join(lines[:1] + lines[2:]) + b"\n"
        out["row-duplicated"] = b"\n".join(lines[:2] + lines[1:]) + b"\n"
        out["last-row-dropped"] = b"\n".join(lines[:-1]) + b"\n"
    if len(lines) >= 3:
        sw = list(lines)
        sw[1], sw[2] = sw[2], sw[1]
        out["rows-swapped"] = b"\n".join(sw) + b"\n"
    for name, bad in (("nan", np.nan), ("inf", np.inf)):
        t = tab.copy()
        t[-1, 1] = bad
        import io
        s = io.BytesIO()
        np.savetxt(s, t)
        out[name] = s.getvalue()
    out["other-n"] = other
    out["empty"] = b""
    out["garbage"] = b"not a table\n" * 3
    out["one-column"] = b"\n".join(ln.split()[0] for ln in lines) + b"\n"
    out["no-final-newline"] = ser[:-1]
    return out


def scen_leftover(ctx, sb, jobs):
    for n in ctx.n([10], [10, 20, 30]):
        tab, ser = reference(sb, n)
        L = len(ser)
        _t2, other = reference(sb, n + 1)
        variants = [("truncated", k, ser[:k]) for k in offsets(ctx, L, 260)]
        variants += [(name, None, data) for name, data in damaged(n, ser, tab, other).items()]
        for name, k, data in variants:
            d = sb.fresh_dir()
            fin = sb.final(n)
            with open(fin, "wb") as f:
                f.write(data)
            rp = {"n": n, "leftover": name, "bytes_kept": k, "file_size": L}
            got = build(n)
            if not same_table(got, tab):
                ctx.oracle_fail("leftover:wrong-table",
                                "a %s cache file%s was used: approx_priors differs from the fresh table" % (
                                    name, "" if k is None else " (first %d of %d bytes)" % (k, L)), rp)
            final, temps = dir_state(sb, n, ser)
            if final is None or not final[1]:
                ctx.oracle_fail("leftover:not-repaired", "after the run the cached name holds %r" % (final,), rp)
            if k is not None:
                jobs.append((L, k, writer_trace(0, L, True, False), (final, temps), rp))
            ctx.case(rp, nontrivial=True, kind="leftover-%s/n=%d" % (name if k is None else "truncated", n))
            sb.drop(d)


# ----------------------------------------------------------------------------- E: round trip
def scen_roundtrip(ctx, sb, jobs):
    ns = list(range(1, ctx.n(41, 81))) + ctx.n([64, 100], [128, 200, 333, 500])
    for n in ns:
        d = sb.fresh_dir()
        fin = sb.final(n)
        a = build(n).copy()
        with open(fin, "rb") as f:
            ser = f.read()
        ino = os.stat(fin).st_ino
        b = build(n)
        rp = {"n": n, "file_size": len(ser)}
        if not same_table(b, a):
            ctx.oracle_fail("roundtrip:differs", "the table read back from a complete cache file differs from the "
                            "computed one (n=%d)" % n, rp)
        if os.stat(fin).st_ino != ino:
            ctx.tie_fail("correspondence", "roundtrip-reload",
                         "a complete cache file for n=%d was not loaded but rewritten: validate(ser) = Some fresh "
                         "does not hold for the code" % n, rp)
        jobs.append((len(ser), len(ser), writer_trace(0, len(ser), True, True), ((len(ser), True), []), rp))
        ctx.case(rp, nontrivial=n >= 2, kind="roundtrip")
        sb.drop(d)


# ----------------------------------------------------------------------------- D: schedules
class Interrupt(KeyboardInterrupt):
    pass


class Proc(threading.Thread):
    def __init__(self, world, pid):
        super().__init__(daemon=True)
        self.world, self.pid = world, pid
        self.go = threading.Event()
        self.at = None            # (label, nbytes) while parked
        self.mode = None          # None | "raise"
        self.dying = False
        self.status = "running"   # running | done | dead | error
        self.result = None
        self.tmp = None
        self.error = None

    def gate(self, label, nbytes=0):
        if self.dying:
            return
        self.at = (label, nbytes)
        self.world.msgs.put((self.pid, "parked"))
        self.go.wait()
        self.go.clear()
        self.at = None
        if self.mode == "raise":
            self.dying = True
            raise Interrupt()

    def run(self):
        self.world.local.proc = self
        try:
            self.result = build(self.world.n)
            self.status = "done"
        except Interrupt:
            self.status = "dead"
        except BaseException as e:  # noqa: BLE001
            self.status = "error"
            self.error = repr(e)
        self.world.msgs.put((self.pid, "finished"))


class GateFile:
    """what os.fdopen returns to a scheduled run: unbuffered, one gate per write and at close"""

    def __init__(self, fd, proc):
        self.raw = _REAL["fdopen"](fd, "wb", buffering=0)
        self.proc = proc
        self.closed = False

    def write(self, s):
        b = s.encode("latin1") if isinstance(s, str) else bytes(s)
        if b:
            self.proc.gate("write", len(b))
            self.raw.write(b)
        return len(s)

    def flush(self):
        pass

    def close(self):
        if not self.closed:
            if not self.proc.dying:
                self.proc.gate("close")
            self.closed = True
            self.raw.close()

    def __enter__(self):
        return self

    def __exit__(self, *a):
        self.close()
        return False


class World:
    """one cache directory, several scheduled runs of ConditionalCoalescentTimes(n)"""
    CODE = {"isfile": 0, "open": 1, "mkstemp": 2, "write": 3, "close": 3, "replace": 4}

    def __init__(self, ctx, sb, n, tab, ser):
        self.ctx, self.sb, self.n, self.tab, self.ser = ctx, sb, n, tab, ser
        self.dir = sb.fresh_dir()
        self.fin = sb.final(n)
        self.msgs = queue.Queue()
        self.local = threading.local()
        self.procs = []
        self.trace = []
        self.killed = set()
        self.leftover = None      # (size, False): the rejected content the scenario started with

    # -- hooks (installed process-wide while the world is active; inert for other threads)
    def cur(self):
        return getattr(self.local, "proc", None)

    def install(self):
        import tsdate.prior as P
        w = self

        def isfile(p):
            pr = w.cur()
            if pr is not None and os.fspath(p) == w.fin:
                pr.gate("isfile")
            return _REAL["isfile"](p)

        def open_(file, *a, **k):
            pr = w.cur()
            if pr is not None and isinstance(file, (str, os.PathLike)) and os.fspath(file) == w.fin:
                pr.gate("open")
                with _REAL["open"](file, *a, **k) as f:      # snapshot at open time
                    data = f.read()
                import io
                return io.StringIO(data) if isinstance(data, str) else io.BytesIO(data)
            return _REAL["open"](file, *a, **k)

        def mkstemp(*a, **k):
            pr = w.cur()
            if pr is not None:
                pr.gate("mkstemp")
            fd, name = _REAL["mkstemp"](*a, **k)
            if pr is not None:
                pr.tmp = name
            return fd, name

        def fdopen(fd, *a, **k):
            pr = w.cur()
            if pr is not None:
                return GateFile(fd, pr)
            return _REAL["fdopen"](fd, *a, **k)

        def replace(src, dst, **k):
            pr = w.cur()
            if pr is not None and os.fspath(dst) == w.fin:
                pr.gate("replace")
            return _REAL["replace"](src, dst, **k)

        os.path.isfile, os.fdopen, os.replace, tempfile.mkstemp = isfile, fdopen, replace, mkstemp
        P.open = open_

    def uninstall(self):
        import tsdate.prior as P
        os.path.isfile, os.fdopen, os.replace, tempfile.mkstemp = (
            _REAL["isfile"], _REAL["fdopen"], _REAL["replace"], _REAL["mkstemp"])
        if "open" in P.__dict__:
            del P.open

    def wait(self, pid):
        who, what = self.msgs.get(timeout=120)
        assert who == pid, (who, pid, what)

    # -- actions
    def spawn(self):
        p = Proc(self, len(self.procs))
        self.procs.append(p)
        self.trace.append(("spawn",))
        p.start()
        self.wait(p.pid)

    def enabled(self, pid):
        p = self.procs[pid]
        return p.status == "running" and pid not in self.killed and p.at is not None

    def step(self, pid):
        p = self.procs[pid]
        self.trace.append(("step", pid, p.at[1]))
        p.go.set()
        self.wait(pid)

    def kill(self, pid):
        self.trace.append(("kill", pid))
        self.killed.add(pid)

    def interrupt(self, pid):
        p = self.procs[pid]
        self.trace.append(("raise", pid))
        p.mode = "raise"
        p.go.set()
        self.wait(pid)

    def clear(self):
        self.trace.append(("clear",))
        try:
            _REAL["remove"](self.fin)
        except OSError:
            pass

    # -- observation in the model's vocabulary
    def observe(self):
        final = None
        if _REAL["isfile"](self.fin):
            with _REAL["open"](self.fin, "rb") as f:
                data = f.read()
            final = (len(data), data == self.ser)
        temps, pcs = [], []
        for p in self.procs:
            if p.tmp is not None and _REAL["isfile"](p.tmp):
                temps.append(os.path.getsize(p.tmp))
            else:
                temps.append(None)
            if p.pid in self.killed:
                pcs.append(99)
            elif p.status == "done":
                pcs.append(5 if same_table(p.result, self.tab) else 6)
            elif p.status == "dead":
                pcs.append(99)
            elif p.status == "error":
                pcs.append(98)
            else:
                pcs.append(self.CODE[p.at[0]])
        return final, temps, pcs

    def oracle(self, rp):
        """the property, after every operation"""
        final, temps, pcs = self.observe()
        if not final_ok(final) and final != self.leftover:
            self.ctx.oracle_fail("schedule:partial-file-under-cached-name",
                                 "the cached name holds %d bytes that are not a complete serialisation" % final[0],
                                 dict(rp, trace=[list(a) for a in self.trace]))
            return False
        if 6 in pcs:
            self.ctx.oracle_fail("schedule:wrong-table", "process %d returned a table that is not the fresh one"
                                 % pcs.index(6), dict(rp, trace=[list(a) for a in self.trace]))
            return False
        if 98 in pcs:
            i = pcs.index(98)
            self.ctx.oracle_fail("schedule:exception", "process %d failed with %s" % (i, self.procs[i].error),
                                 dict(rp, trace=[list(a) for a in self.trace]))
            return False
        return True

    def finish(self):
        """release everything that is still parked (after the last observation)"""
        for p in self.procs:
            if p.status == "running" and p.at is not None:
                p.mode = "raise"
                p.go.set()
                try:
                    self.wait(p.pid)
                except Exception:  # noqa: BLE001
                    pass
        self.sb.drop(self.dir)


def run_schedule(ctx, sb, n, plan, jobs, kind, g0=None):
    """plan: list of ("spawn",) | ("step", p) | ("kill", p) | ("raise", p) | ("clear",); entries
    that are not enabled are skipped.  g0: bytes of a leftover file or None."""
    tab, ser = reference(sb, n)
    w = World(ctx, sb, n, tab, ser)
    if g0 is not None:
        with open(w.fin, "wb") as f:
            f.write(ser[:g0])
        w.leftover = (g0, g0 == len(ser))
    rp = {"n": n, "file_size": len(ser), "leftover_bytes": g0, "kind": kind}
    w.install()
    ok = True
    try:
        for a in plan:
            if a[0] == "spawn":
                w.spawn()
            elif a[0] == "clear":
                w.clear()
            elif a[1] < len(w.procs) and w.enabled(a[1]):
                getattr(w, {"step": "step", "kill": "kill", "raise": "interrupt"}[a[0]])(a[1])
            else:
                continue
            if ok:
                ok = w.oracle(rp)
        obs = w.observe()
        jobs.append((len(ser), g0, list(w.trace), obs, dict(rp, trace=[list(a) for a in w.trace])))
        nproc = len(w.procs)
        faults = sum(1 for a in w.trace if a[0] in ("kill", "raise", "clear"))
        ctx.case(dict(rp, trace=[act(a) for a in w.trace], observed=obs),
                 nontrivial=(nproc >= 2 or faults > 0 or g0 is not None),
                 kind="%s/procs=%d/faults=%d" % (kind, nproc, min(faults, 3)))
    finally:
        w.finish()
        w.uninstall()


def scen_schedules(ctx, sb, jobs):
    rng = ctx.rng
    # all interleavings of two writers, n = 2 (6 operations each)
    for pos in itertools.combinations(range(12), 6):
        order = [0 if i in pos else 1 for i in range(12)]
        plan = [("spawn",), ("spawn",)] + [("step", p) for p in order] + [("step", 0)] * 6 + [("step", 1)] * 6
        run_schedule(ctx, sb, 2, plan, jobs, "two-writers-exhaustive")
    # the second process starts at every point of the first one's run, a reader at the end
    for n in (2, 3):
        for start in range(0, 5 + n):
            plan = [("spawn",)] + [("step", 0)] * start + [("spawn",)]
            plan += [("step", rng.choice([0, 1])) for _ in range(30)] + [("step", 0)] * 12 + [("step", 1)] * 12
            plan += [("spawn",)] + [("step", 2)] * 12
            run_schedule(ctx, sb, n, plan, jobs, "late-start")
    # random schedules with faults
    for _ in range(ctx.n(300, 3000)):
        n = rng.choice([2, 2, 3, 3, 5, 8, 12])
        nproc = rng.choice([1, 2, 2, 3, 3, 4])
        g0 = None
        if rng.random() < 0.25:
            L = len(reference(sb, n)[1])
            g0 = rng.choice([0, 1, L // 2, L - 1, L, rng.randrange(L + 1)])
        plan = [("spawn",)]
        spawned = 1
        pfault = rng.choice([0.0, 0.03, 0.1])
        for _ in range(rng.randint(5, 60)):
            r = rng.random()
            if spawned < nproc and r < 0.15:
                plan.append(("spawn",))
                spawned += 1
            elif r < 0.15 + pfault:
                plan.append((rng.choice(["kill", "raise"]), rng.randrange(spawned)))
            elif r < 0.15 + pfault + 0.02:
                plan.append(("clear",))
            else:
                plan.append(("step", rng.randrange(spawned)))
        while spawned < nproc:
            plan.append(("spawn",))
            spawned += 1
        # let the survivors finish, then one more run
        for p in range(spawned):
            plan += [("step", p)] * (8 + n)
        plan += [("spawn",)] + [("step", spawned)] * (8 + n)
        run_schedule(ctx, sb, n, plan, jobs, "random", g0=g0)


# ----------------------------------------------------------------------------- driver entry points
def compare_with_model(ctx, jobs):
    res = model_obs(ctx, [(L, g0, tr) for (L, g0, tr, _obs, _rp) in jobs])
    for (L, g0, tr, obs, rp), m in zip(jobs, res):
        if len(obs) == 2:       # only the directory was observed: (final, sorted temp sizes)
            mm = None if m is None else (m[0], sorted(t for t in m[1] if t is not None))
            oo = (obs[0], sorted(obs[1]))
        else:
            mm, oo = m, (obs[0], list(obs[1]), list(obs[2]))
        ctx.corr("cache-protocol", mm == oo, "on disk %r, model %r" % (oo, mm),
                 replay=dict(rp, model_trace=[act(a) for a in tr], observed=repr(oo), model=repr(mm)))


def run(ctx, model_ok=True):
    logging.disable(logging.CRITICAL)
    sb = Sandbox(ctx)
    jobs = []
    try:
        # (one interleaving first, so that the evidence samples show more than one family)
        run_schedule(ctx, sb, 2, [("spawn",), ("spawn",)] + [("step", 0), ("step", 1)] * 4 + [("kill", 0)]
                     + [("step", 1)] * 6 + [("spawn",)] + [("step", 2)] * 4, jobs, "showcase")
        scen_kill(ctx, sb, jobs)
        scen_eio(ctx, sb, jobs)
        scen_leftover(ctx, sb, jobs)
        scen_roundtrip(ctx, sb, jobs)
        scen_schedules(ctx, sb, jobs)
    finally:
        sb.close()
        logging.disable(logging.NOTSET)
    ctx.notes["model_jobs"] = len(jobs)
    if model_ok:
        compare_with_model(ctx, jobs)


def search(ctx):
    """a tie broke without a failing input: kills and I/O errors at every byte offset for tiny n,
    every leftover prefix for a few more n, and a second batch of schedules"""
    logging.disable(logging.CRITICAL)
    sb = Sandbox(ctx)
    jobs = []
    try:
        killer = Killer(ctx)
        try:
            for n in (2,):
                tab, ser = reference(sb, n)
                for k in range(len(ser)):
                    d = sb.fresh_dir()
                    sb.final(n)
                    killer.crash(d, n, k)
                    after_fault(ctx, sb, n, tab, ser, "kill", k, True, jobs)
                    sb.drop(d)
                    if ctx.oracle_fails:
                        return
        finally:
            killer.close()
        for n in (3, 7, 17):
            tab, ser = reference(sb, n)
            for k in range(len(ser)):
                d = sb.fresh_dir()
                fin = sb.final(n)
                with open(fin, "wb") as f:
                    f.write(ser[:k])
                if not same_table(build(n), tab):
                    ctx.oracle_fail("leftover:wrong-table", "first %d of %d bytes were used as a table" % (k, len(ser)),
                                    {"n": n, "leftover": "truncated", "bytes_kept": k, "file_size": len(ser)})
                    return
                sb.drop(d)
        scen_schedules(ctx, sb, jobs)
    finally:
        sb.close()
        logging.disable(logging.NOTSET)


def replay(ctx, data):
    """re-run a saved scenario against the code: byte-offset faults and leftovers"""
    logging.disable(logging.CRITICAL)
    case = data.get("case") or {}
    sb = Sandbox(ctx)
    before = len(ctx.oracle_fails)
    jobs = []
    try:
        n = int(case.get("n", 10))
        tab, ser = reference(sb, n)
        if case.get("fault") == "kill":
            killer = Killer(ctx)
            try:
                d = sb.fresh_dir()
                sb.final(n)
                killer.crash(d, n, int(case["byte_offset"]))
                after_fault(ctx, sb, n, tab, ser, "kill", int(case["byte_offset"]), True, jobs)
            finally:
                killer.close()
        elif case.get("leftover") == "truncated":
            d = sb.fresh_dir()
            fin = sb.final(n)
            with open(fin, "wb") as f:
                f.write(ser[:int(case["bytes_kept"])])
            if not same_table(build(n), tab):
                ctx.oracle_fail("leftover:wrong-table", "truncated cache file used", case)
        elif "trace" in case:
            plan = []
            for a in case["trace"]:
                plan.append(tuple(a[:2]) if a[0] in ("step", "kill", "raise") else (a[0],))
            run_schedule(ctx, sb, n, plan, jobs, "replay", g0=case.get("leftover_bytes"))
        else:
            print("replay: scenario kind not re-runnable, showing it instead")
            print(data)
    finally:
        sb.close()
        logging.disable(logging.NOTSET)
    return len(ctx.oracle_fails) == before
