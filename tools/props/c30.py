"""C30 -- unary-node detection is exact."""
import numpy as np

from props import _sweep as S
from vlib.coqfmt import cZ, cnat, cbool, clist

ENV_BY_TIER = {"quick": {"NUMBA_DISABLE_JIT": "1"}, "thorough": {}}

RULE = ("large fan-out family: polytomy nodes with exactly k children, k in {127,128,129,255,256,257,258,511,512,513} "
        "(6 sizes per quick run, all in thorough, plus 3 of {32767,32768,32769,65535,65536,65537} in thorough), single-tree "
        "and two-tree forms (a child moves between two polytomy parents at a breakpoint), with and without a genuine "
        "unary node; the Coq model is evaluated up to k = 130, the Tree-API oracle covers every size. Then "
        "integer-coordinate tree sequences: msprime (Kingman/Beta/Dirac, historical and internal samples) "
        "passed through structural mutators (cut a sub-interval out of one edge, delete an interval, "
        "isolate a sample over an interval, simplify to a sample subset with keep_unary) and msprime-free "
        "random DAG tables (each node picks a parent per interval; tied node times in 30%); ~40% of all inputs "
        "(detector-level and end-to-end) decorated by gen.exotic (extra node flag bits, ALL nodes renumbered so samples "
        "are not ids 0..n-1, mutations above roots, mutation-free sites, arbitrary states, populations); x three masks "
        "(samples, none, random); 25% with chromosome-scale integer coordinates (next to 2^24, 2^25, 2^31, 1e8, 3e8); "
        "skip_samples / allow_unary also passed as np.bool_, 0/1 and None. "
        "A case is non-trivial when the table has at least one edge; distinct by content hash")
ASSUME = ["tskit's edge insertion/removal indexes and edge intervals satisfy valid_tablesb (checked on every "
          "generated input inside Coq, and valid_tablesb is proved to imply the theorems' hypotheses)",
          "integer genomic coordinates in the correspondence (float comparisons of the kernel are exact there); "
          "the theorems are about the model over Z",
          "tskit Tree.num_children / edge_diffs as the independent oracle",
          "numba compiles _contains_unary_nodes as written"]

UNARY_MSG_VGAMMA = "contains unary nodes"
UNARY_MSG_PRIOR = "has unary nodes"


# ---------------------------------------------------------------- implementation side
def impl_kernel(ts, mask):
    import tsdate.util as util
    return bool(util._contains_unary_nodes(
        np.array(mask, dtype=bool), ts.edges_parent, ts.edges_left, ts.edges_right,
        ts.indexes_edge_insertion_order, ts.indexes_edge_removal_order,
        float(ts.sequence_length), int(ts.num_nodes)))


def impl_all(ts, rmask):
    """every observable of the detectors on one input"""
    import tsdate.util as util
    import tsdate.prior as prior
    import tsdate.variational as variational
    out = {}
    with S.time_limit(20):
        out["skip"] = bool(util.contains_unary_nodes(ts))                      # default skip_samples=True
        out["noskip"] = bool(util.contains_unary_nodes(ts, skip_samples=False))
        out["rmask"] = impl_kernel(ts, rmask)
        out["prior"] = bool(prior.has_locally_unary_nodes(ts))
        for allow in (False, True):
            try:
                variational.ExpectationPropagation._check_valid_inputs(ts, 1.0, allow)
                out["vg_reject_%d" % allow] = False
            except ValueError as e:
                out["vg_reject_%d" % allow] = UNARY_MSG_VGAMMA in str(e)
        # boundary / numpy-typed option values must behave like their plain counterparts
        out["typed"] = True
        for val, key in ((np.bool_(False), "noskip"), (0, "noskip"), (np.bool_(True), "skip"), (1, "skip")):
            if bool(util.contains_unary_nodes(ts, skip_samples=val)) != out[key]:
                out["typed"] = False
        for val, key in ((np.bool_(False), "vg_reject_0"), (0, "vg_reject_0"), (None, "vg_reject_0"),
                         (np.bool_(True), "vg_reject_1"), (1, "vg_reject_1")):
            try:
                variational.ExpectationPropagation._check_valid_inputs(ts, np.float64(1.0), val)
                r = False
            except ValueError as e:
                r = UNARY_MSG_VGAMMA in str(e)
            if r != out[key]:
                out["typed"] = False
    return out


def spans_reject(ts, allow):
    """SpansBySamples.__init__ (discrete methods): 'unary' ValueError or not; None when the
    class does not apply (non-contemporaneous samples) or fails for another reason"""
    import tsdate.prior as prior
    if ts.num_samples == 0 or np.any(ts.nodes_time[ts.samples()] != 0):
        return None
    try:
        with S.time_limit(30):
            prior.SpansBySamples(ts, allow_unary=allow)
        return False
    except ValueError as e:
        if UNARY_MSG_PRIOR in str(e):
            return True
        return None
    except S.ImplTimeout:
        raise
    except Exception:
        return None


def truth(ts, mask):
    """Tree API: some non-masked node has exactly one child in some local tree"""
    for tree in ts.trees():
        nc = tree.num_children_array
        for u in range(ts.num_nodes):
            if nc[u] == 1 and not mask[u]:
                return True
    return False


# ---------------------------------------------------------------- model side
def coq_case(k, ts, rmask, small):
    """(definitions, term) for case number k"""
    defs = S.coq_table_defs(k, ts) + "Definition rm%d := %s.\n" % (k, S.coq_bools(rmask))
    nn = cnat(ts.num_nodes)
    d = {"k": k, "nn": nn}
    ref = ("Some (ref_unary es%(k)d (fun _ => false) %(nn)s L%(k)d, ref_unary es%(k)d (of_list false smp%(k)d) %(nn)s L%(k)d)" % d
           if small else "@None (bool * bool)")
    term = ("(valid_tablesb L%(k)d es%(k)d ins%(k)d rem%(k)d, "
            "contains_unary_nodes es%(k)d (of_list false smp%(k)d) true L%(k)d ins%(k)d rem%(k)d, "
            "contains_unary_nodes es%(k)d (of_list false smp%(k)d) false L%(k)d ins%(k)d rem%(k)d, "
            "contains_unary es%(k)d (of_list false rm%(k)d) L%(k)d ins%(k)d rem%(k)d, "
            "prior_unary es%(k)d, "
            "vgamma_rejects false es%(k)d (of_list false smp%(k)d) L%(k)d ins%(k)d rem%(k)d, "
            "vgamma_rejects true es%(k)d (of_list false smp%(k)d) L%(k)d ins%(k)d rem%(k)d, "
            "discrete_rejects false es%(k)d, discrete_rejects true es%(k)d, " % d) + ref + ")"
    return defs, term


def run_model(ctx, items):
    texts = [coq_case(k, ts, rmask, small) for k, (ts, rmask, small) in enumerate(items)]
    return S.coq_run_cases(ctx, texts, ("lib.Tables", "model.Sweep", "model.Unary"), "unary")


def opt(v):
    return None if v is None else v[1]


# ---------------------------------------------------------------- cases
def make_item(rng):
    ts, kind = S.any_ts(rng, diploid=rng.random() < 0.15, mutations=False)
    r = rng.random()
    n = ts.num_nodes
    if r < 0.4:
        rmask = [rng.random() < 0.5 for _ in range(n)]
    elif r < 0.7:
        # mask exactly the nodes that are unary somewhere, except possibly one
        un = set()
        for tree in ts.trees():
            nc = tree.num_children_array
            un.update(int(u) for u in range(n) if nc[u] == 1)
        rmask = [u in un for u in range(n)]
        if un and rng.random() < 0.5:
            rmask[rng.choice(sorted(un))] = False
    else:
        rmask = [False] * n
    size = int(ts.sequence_length) * max(1, ts.num_nodes) * max(1, ts.num_edges)
    return ts, rmask, kind, size <= 40000


def sample_unary_variant(rng, ts):
    """mark every locally unary node as a sample: then only sample nodes are unary"""
    import tskit
    un = set()
    for tree in ts.trees():
        nc = tree.num_children_array
        un.update(int(u) for u in range(ts.num_nodes) if nc[u] == 1)
    if not un:
        return None
    tables = ts.dump_tables()
    flags = tables.nodes.flags.copy()
    for u in un:
        flags[u] |= tskit.NODE_IS_SAMPLE
    tables.nodes.flags = flags
    return tables.tree_sequence()


def oracle(ctx, ts, rmask, kind, impl):
    smp = S.is_sample_list(ts)
    none = [False] * ts.num_nodes
    rp = {"tables": S.describe(ts), "rmask": rmask, "kind": kind, "impl": impl}
    t_skip, t_none, t_r = truth(ts, smp), truth(ts, none), truth(ts, rmask)
    for name, got, want in (("util:skip_samples", impl["skip"], t_skip),
                            ("util:all_nodes", impl["noskip"], t_none),
                            ("util:mask", impl["rmask"], t_r),
                            ("prior", impl["prior"], t_none),
                            ("vgamma:reject", impl["vg_reject_0"], t_skip),
                            ("vgamma:allow", impl["vg_reject_1"], False),
                            ("typed-options", impl["typed"], True)):
        if got != want:
            ctx.oracle_fail("%s:%s" % (name, "false-positive" if got else "false-negative"),
                            "%s detector says %s, the trees say %s" % (name, got, want), rp)
    return t_skip, t_none


def spans_oracle(ctx, ts, kind, t_none):
    for allow in (False, True):
        got = spans_reject(ts, allow)
        if got is None:
            continue
        want = (not allow) and t_none
        ctx.tally("spans_by_samples_calls")
        if got != want:
            ctx.oracle_fail("discrete:SpansBySamples:%s" % ("false-positive" if got else "false-negative"),
                            "SpansBySamples(allow_unary=%s) unary rejection=%s, trees say %s" % (allow, got, want),
                            {"tables": S.describe(ts), "kind": kind, "allow": allow})


def date_reject(ts, method, allow):
    """end-to-end: does date() reject with the unary message; None for other failures"""
    import tsdate
    kw = dict(mutation_rate=1.0, progress=False, allow_unary=allow)
    if method == "variational_gamma":
        kw.update(max_iterations=1, rescaling_intervals=0)
    else:
        kw.update(population_size=1.0)
    try:
        with S.time_limit(120):
            tsdate.date(ts, method=method, **kw)
        return False
    except ValueError as e:
        if UNARY_MSG_VGAMMA in str(e) or UNARY_MSG_PRIOR in str(e):
            return True
        return None
    except S.ImplTimeout:
        raise
    except Exception:
        return None


def e2e_ts(rng):
    """inputs date() accepts apart from unary nodes: msprime + keep_unary subset (all nodes stay
    ancestral to samples), or plain simplified"""
    from vlib import gen
    base = gen.sim_ts(rng, n=rng.randint(4, 7), L=rng.choice([20, 100]), historical=False, multimerger=False,
                      rec=rng.choice([0.0, 2.0, 5.0]) / 100, mu=0.2)
    r = rng.random()
    if r < 0.6:
        ts = S.keep_unary_subset(rng, base)
    else:
        ts = base
    ts, _tag = S.exotic_variant(rng, ts)
    return ts


def run_e2e(ctx, n):
    for _ in range(n):
        ts = e2e_ts(ctx.rng)
        smp = S.is_sample_list(ts)
        t_skip, t_none = truth(ts, smp), truth(ts, [False] * ts.num_nodes)
        variants = [(ts, "e2e")]
        v = sample_unary_variant(ctx.rng, ts)
        if v is not None:
            variants.append((v, "e2e+unary-are-samples"))
        for t, kind in variants:
            smp = S.is_sample_list(t)
            t_skip = truth(t, smp)
            method = "variational_gamma"
            for allow in (False, True, None):     # None = the documented default (reject)
                got = date_reject(t, method, allow)
                ctx.case({"e2e": kind, "method": method, "allow": allow, "summary": S.summary(t)},
                         kind="e2e:" + method)
                if got is None:
                    ctx.tally("e2e_other_error")
                    continue
                want = (not allow) and t_skip
                if got != want:
                    ctx.oracle_fail("e2e:%s:%s" % (method, "false-positive" if got else "false-negative"),
                                    "date(method=%s, allow_unary=%s) unary rejection=%s, trees say %s"
                                    % (method, allow, got, want), {"tables": S.describe(t), "kind": kind})
        method = ctx.rng.choice(["inside_outside", "maximization"])
        for allow in (False, True, None):
            got = date_reject(ts, method, allow)
            ctx.case({"e2e": "e2e", "method": method, "allow": allow, "summary": S.summary(ts)},
                     kind="e2e:" + method)
            if got is None:
                ctx.tally("e2e_other_error")
                continue
            want = (not allow) and t_none
            if got != want:
                ctx.oracle_fail("e2e:%s:%s" % (method, "false-positive" if got else "false-negative"),
                                "date(method=%s, allow_unary=%s) unary rejection=%s, trees say %s"
                                % (method, allow, got, want), {"tables": S.describe(ts), "kind": "e2e"})


def run(ctx, model_ok=True):
    import logging
    import warnings
    logging.disable(logging.WARNING)          # tsdate warns about every unary input
    warnings.simplefilter("ignore")
    n = ctx.n(160, 2000)
    items = []
    for _ in range(n):
        ts, rmask, kind, small = make_item(ctx.rng)
        items.append((ts, rmask, kind, small))
        if ctx.rng.random() < 0.25:
            v = sample_unary_variant(ctx.rng, ts)
            if v is not None:
                items.append((v, [False] * v.num_nodes, kind + "+unary-are-samples", small))
    impls = []
    hung = False
    for ts, rmask, kind, small in items:
        impl = None
        if not hung:
            try:
                impl = impl_all(ts, rmask)
            except S.ImplTimeout as e:      # a detector that does not return: report once, stop calling it
                ctx.oracle_fail("timeout", str(e), {"tables": S.describe(ts), "kind": kind, "rmask": rmask})
                hung = True
        impls.append(impl)
    if hung:
        return
    models = run_model(ctx, [(ts, rmask, small) for ts, rmask, kind, small in items]) if model_ok else None
    for i, (ts, rmask, kind, small) in enumerate(items):
        impl = impls[i]
        if impl is None:
            continue
        t_skip, t_none = oracle(ctx, ts, rmask, kind, impl)
        ctx.case({"kind": kind, "summary": S.summary(ts), "edges": S.describe(ts)["edges"][:8],
                  "unary_nonsample": t_skip, "unary_any": t_none},
                 nontrivial=ts.num_edges > 0,
                 kind=kind.split("+")[0] + ("/unary" if t_none else "/clean") + ("/sample-only" if t_none and not t_skip else ""))
        if i % 3 == 0:
            spans_oracle(ctx, ts, kind, t_none)
        if models is None:
            continue
        (valid, m_skip, m_noskip, m_r, m_prior, m_vg0, m_vg1, m_d0, m_d1, m_ref) = models[i]
        rp = {"tables": S.describe(ts), "rmask": rmask, "kind": kind, "impl": impl, "model": repr(models[i])}
        if not valid:
            ctx.tie_fail("correspondence", "valid_tablesb",
                         "a tskit tree sequence violates the validity hypotheses of the theorems", rp)
        ctx.corr("contains_unary_nodes(skip_samples=True)", opt(m_skip) == impl["skip"] and m_skip is not None, "", rp)
        ctx.corr("contains_unary_nodes(skip_samples=False)", opt(m_noskip) == impl["noskip"] and m_noskip is not None, "", rp)
        ctx.corr("_contains_unary_nodes(mask)", opt(m_r) == impl["rmask"] and m_r is not None, "", rp)
        ctx.corr("has_locally_unary_nodes", m_prior == impl["prior"], "", rp)
        ctx.corr("_check_valid_inputs(allow_unary=False)", opt(m_vg0) == impl["vg_reject_0"], "", rp)
        ctx.corr("_check_valid_inputs(allow_unary=True)", opt(m_vg1) == impl["vg_reject_1"], "", rp)
        if m_ref is not None:
            r_none, r_skip = m_ref[1]
            ctx.corr("reference semantics (brute force in Coq) vs Tree API",
                     r_none == t_none and r_skip == t_skip and m_d0 == t_none and m_d1 is False, "", rp)
            ctx.tally("coq_bruteforce_reference")
    run_fanout(ctx, model_ok)
    run_e2e(ctx, ctx.n(5, 40))


FANOUT_QUICK = [127, 128, 129, 255, 256, 257, 258, 511, 512, 513]
FANOUT_THOROUGH = [32767, 32768, 32769, 65535, 65536, 65537]
FANOUT_MODEL_MAX = 130        # the Coq model is evaluated up to this fan-out (stays under ~20 s); the
                              # Tree-API oracle covers every size


def fanout_ts(k, two_trees, with_unary):
    """large fan-out: a polytomy node with exactly k children in some local tree (child counts at and
    around the powers of two that integer widths care about).  single tree: p1 has k sample children;
    two trees (a real breakpoint at 6): p1 has k children and p2 has 3 on [0, 6), then one child moves
    from p1 to p2 (k-1 and 4 children) on [6, 10).  with_unary: a genuinely unary non-sample node between
    p1 and the root."""
    import tskit
    t = tskit.TableCollection(10)
    nleaf = k + (3 if two_trees else 0)
    for _ in range(nleaf):
        t.nodes.add_row(flags=tskit.NODE_IS_SAMPLE, time=0)
    p1 = t.nodes.add_row(flags=0, time=1)
    p2 = t.nodes.add_row(flags=0, time=1.5) if two_trees else None
    u = t.nodes.add_row(flags=0, time=2) if with_unary else None
    root = t.nodes.add_row(flags=0, time=3) if (two_trees or with_unary) else None
    for c in range(k):
        if two_trees and c == 0:
            t.edges.add_row(0, 6, p1, c)
            t.edges.add_row(6, 10, p2, c)
        else:
            t.edges.add_row(0, 10, p1, c)
    if two_trees:
        for c in range(k, k + 3):
            t.edges.add_row(0, 10, p2, c)
        t.edges.add_row(0, 10, root, p2)
    if with_unary:
        t.edges.add_row(0, 10, u, p1)
        t.edges.add_row(0, 10, root, u)
    elif two_trees:
        t.edges.add_row(0, 10, root, p1)
    t.sort()
    t.build_index()
    return t.tree_sequence()


def run_fanout(ctx, model_ok):
    sizes = ctx.rng.sample(FANOUT_QUICK, 4) + [257, 513]
    if ctx.tier != "quick":
        sizes = FANOUT_QUICK + ctx.rng.sample(FANOUT_THOROUGH, 3)
    items = []
    for k in sizes:
        forms = [(False, False), (True, False)] if k > 1000 else \
            [(False, False), (True, False), (ctx.rng.random() < 0.5, True)]
        for two, un in forms:
            ts = fanout_ts(k, two, un)
            kind = "fanout:%d%s%s" % (k, "/two-trees" if two else "/one-tree", "/unary" if un else "")
            items.append((ts, [False] * ts.num_nodes, kind, k))
    small_items = [(ts, rmask, False) for ts, rmask, kind, k in items if k <= FANOUT_MODEL_MAX]
    for k in (127, 129):          # always some sizes the model is evaluated on
        if not any(kk == k for _t, _r, _k, kk in items):
            ts = fanout_ts(k, True, False)
            items.append((ts, [False] * ts.num_nodes, "fanout:%d/two-trees" % k, k))
            small_items.append((ts, [False] * ts.num_nodes, False))
    models = {}
    if model_ok and small_items:
        for (ts, _r, _s), m in zip(small_items, run_model(ctx, small_items)):
            models[id(ts)] = m
    for ts, rmask, kind, k in items:
        try:
            impl = impl_all(ts, rmask)
        except S.ImplTimeout as e:
            ctx.oracle_fail("timeout", str(e), {"kind": kind})
            return
        t_skip, t_none = oracle(ctx, ts, rmask, kind, impl)
        ctx.case({"kind": kind, "summary": S.summary(ts), "unary_nonsample": t_skip, "unary_any": t_none},
                 kind="fanout" + ("/unary" if t_none else "/clean"))
        if k <= 600:
            spans_oracle(ctx, ts, kind, t_none)
        m = models.get(id(ts))
        if m is None:
            continue
        (valid, m_skip, m_noskip, m_r, m_prior, m_vg0, m_vg1, m_d0, m_d1, m_ref) = m
        rp = {"kind": kind, "impl": impl, "model": repr(m)}
        if not valid:
            ctx.tie_fail("correspondence", "valid_tablesb", "fan-out input violates the validity hypotheses", rp)
        ctx.corr("fanout: contains_unary_nodes", opt(m_skip) == impl["skip"] and opt(m_noskip) == impl["noskip"]
                 and opt(m_r) == impl["rmask"], "", rp)
        ctx.corr("fanout: has_locally_unary_nodes", m_prior == impl["prior"], "", rp)
        ctx.corr("fanout: _check_valid_inputs", opt(m_vg0) == impl["vg_reject_0"] and opt(m_vg1) == impl["vg_reject_1"], "", rp)


def search(ctx):
    for _ in range(ctx.n(1500, 6000)):
        ts, rmask, kind, _small = make_item(ctx.rng)
        try:
            oracle(ctx, ts, rmask, kind, impl_all(ts, rmask))
        except S.ImplTimeout as e:
            ctx.oracle_fail("timeout", str(e), {"tables": S.describe(ts), "kind": kind})
        if ctx.oracle_fails:
            return


def replay(ctx, data):
    from vlib import gen
    case = data["case"]
    ts = gen.ts_from_dict(case["tables"])
    rmask = case.get("rmask") or [False] * ts.num_nodes
    before = len(ctx.oracle_fails)
    t_skip, t_none = oracle(ctx, ts, rmask, case.get("kind", "replay"), impl_all(ts, rmask))
    spans_oracle(ctx, ts, "replay", t_none)
    return len(ctx.oracle_fails) == before
