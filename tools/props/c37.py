"""C37 -- standalone tree-sequence rescaling works (rescaling.rescale_tree_sequence)."""
import math

import numpy as np

from props import _rescale as K

ENV_BY_TIER = {"quick": {"NUMBA_DISABLE_JIT": "1"}, "thorough": {}}

RULE = ("msprime tree sequences with all samples at time 0 (2-8 samples, 5-1000 bp, 1-40 trees, Kingman/Beta/Dirac "
        "mergers, 0-60 mutations, optionally extra mutations placed above a root) x num_intervals {1,2,3,5,100} x "
        "num_iterations {0,1,2,10} x match_segregating_sites x mutation_rate; plus inputs with ancient samples (must be "
        "rejected with ValueError). Non-trivial: the call returned and moved at least one node time; distinct by "
        "content hash")
ASSUME = [
    "count_mutations (C24) and _fixed_changepoints (C26) are outside this model: their results are recorded from the "
    "run and handed to the model as inputs",
    "tskit's sort / build_index / compute_mutation_parents / table validation are not modelled: topology and validity "
    "clauses are checked on the implementation's output only (tested, not proved)",
    "quick tier runs the kernels as plain Python (NUMBA_DISABLE_JIT): np.sum order differs from the model's by <= 1e-12 "
    "relative per call; whole-function tolerance 1e-9",
]
LEVEL = "proof"
TOL = {"rel": 1e-9, "abs_": 1e-300}


def make_input(rng):
    import tskit
    from vlib import gen
    ancient = rng.random() < 0.06
    ts = gen.sim_ts(rng, n=rng.randint(2, 8), historical=ancient, L=rng.choice([5, 20, 100, 1000]))
    if not ancient and rng.random() < 0.3:
        # mutations above a root: a new site (or an existing position) with a mutation on the root there
        tables = ts.dump_tables()
        used = set(tables.sites.position)
        for _ in range(rng.randint(1, 3)):
            x = float(rng.randrange(0, int(ts.sequence_length)))
            if x in used:
                continue
            used.add(x)
            root = ts.at(x).root
            s = tables.sites.add_row(x, "0")
            tables.mutations.add_row(site=s, node=root, derived_state="1")
        tables.sort()
        tables.build_index()
        tables.compute_mutation_parents()
        ts = tables.tree_sequence()
    kw = {"num_intervals": rng.choice([1, 2, 3, 5, 100]), "num_iterations": rng.choice([0, 1, 2, 2, 10]),
          "match_segregating_sites": rng.random() < 0.5}
    mu = rng.choice([0.3, 1.0, 3.0]) / ts.sequence_length
    return ts, mu, kw, ancient


def diagnose(calls):
    """why a run failed, from the recorded kernel calls"""
    tags = []
    for nm, args, res in calls:
        if nm == "mutational_timescale" and not isinstance(res, Exception):
            case, area, _cps = K.changepoints_of_call(args)
            if not isinstance(area, str):
                rc, _ro, _rd, _ri = K.ref_area(case)
                if any(c == 0.0 for c in rc):
                    tags.append("empty-interval")
            rb = [float(x) for x in res[1]]
            if not K.strictly_increasing(rb):
                tags.append("repeated-rescaled-break")
            ob = [float(x) for x in res[0]]
            if not K.strictly_increasing(ob):
                tags.append("repeated-original-break")
    return "+".join(sorted(set(tags))) or "other"


def oracle(ctx, ts, mu, kw, ancient, st, out, calls, rp):
    import tskit
    if ancient:
        if not st.startswith("raise:ValueError:Normalisation not implemented"):
            ctx.oracle_fail("ancient-not-rejected:" + st, "ancient samples must be rejected with ValueError", rp)
        return
    if st != "ok":
        # a run that does not return violates "returns a valid tree sequence"
        ctx.oracle_fail("%s:%s" % (st, diagnose(calls)), "rescale_tree_sequence did not return", rp)
        return
    samples = list(ts.samples())
    t0, t1 = ts.nodes_time, out.nodes_time
    # topology / everything but the two time columns
    a, b = ts.tables, out.tables
    same = (out.num_nodes == ts.num_nodes and np.array_equal(a.nodes.flags, b.nodes.flags)
            and np.array_equal(a.nodes.individual, b.nodes.individual)
            and np.array_equal(a.nodes.population, b.nodes.population)
            and sorted(zip(a.edges.left, a.edges.right, a.edges.parent, a.edges.child))
            == sorted(zip(b.edges.left, b.edges.right, b.edges.parent, b.edges.child))
            and np.array_equal(a.sites.position, b.sites.position)
            and sorted((m.site, m.node, m.derived_state) for m in ts.mutations())
            == sorted((m.site, m.node, m.derived_state) for m in out.mutations())
            and out.sequence_length == ts.sequence_length and out.num_individuals == ts.num_individuals)
    if not same:
        ctx.oracle_fail("topology-changed", "something other than the two time columns changed", rp)
        return
    if not np.array_equal(t1[samples], t0[samples]):
        ctx.oracle_fail("samples-moved", "a sample's time changed", rp)
        return
    ns = [u for u in range(ts.num_nodes) if u not in set(samples)]
    order = sorted(ns, key=lambda u: t0[u])
    top = float(max(t1)) if len(t1) else 1.0
    for u, v in zip(order[:-1], order[1:]):
        if t1[v] < t1[u] - 1e-12 * top or (t0[u] == t0[v] and t1[u] != t1[v]):
            ctx.oracle_fail("non-monotone", "non-sample times are not mapped by a non-decreasing function",
                            dict(rp, nodes=[u, v], before=[float(t0[u]), float(t0[v])], after=[float(t1[u]), float(t1[v])]))
            return
    # mutations at branch midpoints / at the node above a root
    for tree in out.trees():
        for site in tree.sites():
            for m in site.mutations:
                p = tree.parent(m.node)
                exp = float(t1[m.node]) if p == tskit.NULL else (float(t1[p]) + float(t1[m.node])) / 2
                if not K.close(float(m.time), exp, rel=1e-12, abs_=1e-300):
                    ctx.oracle_fail("mutation-not-midpoint", "a mutation is not at the midpoint of its branch / at its root node",
                                    dict(rp, mutation=m.id, time=float(m.time), expected=exp))
                    return


def model_item(ts, calls, kw, mu):
    """inputs of Rescale.rescale_ts_times.  The (mutations, span * mutation_rate) rows and the
    mutation -> edge map come from count_mutations called HERE (C24 owns that function), with the
    flag the documentation prescribes, so that the model also covers how rescale_tree_sequence
    prepares them; the changepoints of each iteration come from the recorded calls (C26)."""
    import tsdate.rescaling as R
    liks, medge = R.count_mutations(ts, size_biased=not kw["match_segregating_sites"])
    liks = [[float(a), float(b) * mu] for a, b in liks]
    tcalls = [c for c in calls if c[0] == "mutational_timescale"]
    cpss = []
    for _nm, args, _res in tcalls:
        _case, _area, cps = K.changepoints_of_call(args)
        if cps is None:
            return None
        cpss.append(cps)
    samples = set(ts.samples())
    return {"t": [float(x) for x in ts.nodes_time], "fixed": [u in samples for u in range(ts.num_nodes)],
            "liks": liks, "parent": [int(x) for x in ts.edges_parent], "child": [int(x) for x in ts.edges_child],
            "cpss": cpss, "muts": [(None if int(e) < 0 else int(e), int(n)) for e, n in zip(medge, ts.mutations_node)]}


def block(ctx, model_ok, n):
    from vlib import gen
    runs = []
    for _ in range(n):
        ts, mu, kw, ancient = make_input(ctx.rng)
        st, out, calls = K.run_rescale_ts(ts, mu, **kw)
        runs.append((ts, mu, kw, ancient, st, out, calls))
    if model_ok:
        items, idx = [], []
        for k, (ts, mu, kw, ancient, st, out, calls) in enumerate(runs):
            if ancient:
                continue
            it = model_item(ts, calls, kw, mu)
            # a run that died in the middle has fewer recorded iterations than the model needs
            complete = len(it["cpss"]) == kw["num_iterations"] if it is not None else False
            if it is not None and (st == "ok" or not complete):
                if st != "ok":
                    continue
                items.append(it)
                idx.append(k)
            elif it is not None and complete and "AssertionError" in st:
                items.append(it)
                idx.append(k)
        model = K.model_rescale_ts(ctx, items) if items else []
        for k, it, m in zip(idx, items, model):
            ts, mu, kw, ancient, st, out, calls = runs[k]
            rp = {"input": {"tables": gen.ts_tables_dict(ts), "mu": mu, "kw": kw}, "status": st, "model": m}
            if st != "ok":
                ctx.corr("rescale_tree_sequence (rejected)", m is None, "impl=%s model=%r" % (st, m), replay=rp)
                continue
            ok = m is not None and K.close_list([float(x) for x in out.nodes_time], m[0], **TOL)
            if ok:
                exp = {}
                for (site, node), tm in zip(zip(ts.mutations_site, ts.mutations_node), m[1]):
                    exp[(int(site), int(node))] = tm
                for mu_ in out.mutations():
                    if not K.close(float(mu_.time), exp.get((mu_.site, mu_.node), float("nan")), **TOL):
                        ok = False
            ctx.corr("rescale_tree_sequence times", ok,
                     "impl nodes=%r model=%r" % ([float(x) for x in out.nodes_time][:12], m), replay=rp)
    for ts, mu, kw, ancient, st, out, calls in runs:
        rp = {"input": {"tables": gen.ts_tables_dict(ts), "mu": mu, "kw": kw, "ancient": ancient}, "status": st}
        moved = st == "ok" and not np.array_equal(out.nodes_time, ts.nodes_time)
        ctx.case({"ts": gen.ts_summary(ts), "mu": mu, "kw": kw, "ancient": ancient, "status": st,
                  "times_before": [float(x) for x in ts.nodes_time][-6:],
                  "times_after": [float(x) for x in out.nodes_time][-6:] if out is not None else None},
                 nontrivial=moved, kind=("ancient/" if ancient else "") + ("ok" if st == "ok" else st.split(":")[1]))
        oracle(ctx, ts, mu, kw, ancient, st, out, calls, rp)


def run(ctx, model_ok=True):
    block(ctx, model_ok, ctx.n(100, 1200))


def search(ctx):
    for _ in range(ctx.n(4, 8)):
        block(ctx, False, 300)
        if ctx.oracle_fails:
            return


def replay(ctx, data):
    from vlib import gen
    inp = (data.get("case") or {}).get("input")
    if not inp:
        return True
    ts = gen.ts_from_dict(inp["tables"])
    st, out, calls = K.run_rescale_ts(ts, inp["mu"], **inp["kw"])
    before = len(ctx.oracle_fails) + len(ctx.known_hits)
    oracle(ctx, ts, inp["mu"], inp["kw"], inp.get("ancient", False), st, out, calls, {"input": inp, "status": st})
    return len(ctx.oracle_fails) + len(ctx.known_hits) == before
