"""C37 -- standalone tree-sequence rescaling works (rescaling.rescale_tree_sequence)."""
import math

import numpy as np

from props import _rescale as K

ENV_BY_TIER = {"quick": {"NUMBA_DISABLE_JIT": "1"}, "thorough": {}}

RULE = ("msprime tree sequences with all samples at time 0 (2-8 samples, 5-1000 bp, 1-40 trees, Kingman/Beta/Dirac "
        "mergers, 0-60 mutations) x num_intervals {1,2,3,5,100} x num_iterations {0,1,2,10} x match_segregating_sites x "
        "mutation_rate; 25% with non-sample times moved to a coarse grid (unrelated nodes tied at non-zero ages), 15% with "
        "extra mutations above non-sample roots, about 45% with vlib.gen.exotic decorations (extra node flag bits, all "
        "nodes renumbered at random, root mutations, mutation-free sites, unknown mutation times, arbitrary allele states, "
        "populations), 30% with the options passed as np.int32/np.int64/np.bool_ and the rate as np.float64/np.float32; "
        "plus inputs with ancient samples (must be rejected with ValueError). Non-trivial: the call returned and moved at least one node time; distinct by "
        "content hash")
ASSUME = [
    "count_mutations (C24) and _fixed_changepoints (C26) are outside this model: their results are recorded from the "
    "run and handed to the model as inputs",
    "tskit's sort / build_index / compute_mutation_parents / table validation are not modelled: topology and validity "
    "clauses are checked on the implementation's output only (tested, not proved)",
    "quick tier runs the kernels as plain Python (NUMBA_DISABLE_JIT): np.sum order differs from the model's by <= 1e-12 "
    "relative per call; whole-function tolerance 1e-9",
]
LEVEL = "proof"
TOL = {"rel": 1e-9, "abs_": 1e-300}


def make_input(rng):
    import tskit
    from vlib import gen
    ancient = rng.random() < 0.06
    for _ in range(20):          # multiple-merger models occasionally give very long branches: cap the size
        ts = gen.sim_ts(rng, n=rng.randint(2, 8), historical=ancient, L=rng.choice([5, 20, 100, 1000]))
        if ts.num_mutations <= 1500:
            break
    kinds = []
    if not ancient:
        if rng.random() < 0.25:
            ts = K.tie_times(rng, ts)          # unrelated nodes sharing a non-zero age
            kinds.append("tied_times")
        if rng.random() < 0.15:
            ts = gen.add_root_mutations(rng, ts)   # mutations above a non-sample root
            kinds.append("root_mutations")
        ts, ex = K.maybe_exotic(rng, ts)
        kinds += [k for k in ex if k not in kinds]
    kw = {"num_intervals": rng.choice([1, 2, 3, 5, 100]), "num_iterations": rng.choice([0, 1, 1, 2, 2, 10]),
          "match_segregating_sites": rng.random() < 0.5}
    mu = rng.choice([0.3, 1.0, 3.0]) / ts.sequence_length
    typed = rng.random() < 0.3          # options as numpy scalars, mutation_rate as np.float64 / np.float32
    return ts, mu, kw, ancient, kinds, typed


def call_args(mu, kw, typed, rng_choice=0):
    """the arguments as actually passed (numpy-typed variant of the same values)"""
    if not typed:
        return mu, kw
    kw2 = {"num_intervals": np.int32(kw["num_intervals"]), "num_iterations": np.int64(kw["num_iterations"]),
           "match_segregating_sites": np.bool_(kw["match_segregating_sites"])}
    mu2 = np.float64(mu) if rng_choice == 0 else np.float32(mu)
    return mu2, kw2


def diagnose(calls, ts=None):
    """why a run failed, from the recorded kernel calls"""
    tags = []
    for nm, args, res in calls:
        if nm == "mutational_timescale" and not isinstance(res, Exception):
            case, area, _cps = K.changepoints_of_call(args)
            if not isinstance(area, str):
                rc, _ro, _rd, _ri = K.ref_area(case)
                if any(c == 0.0 for c in rc):
                    tags.append("empty-interval")
            rb = [float(x) for x in res[1]]
            if not K.strictly_increasing(rb):
                tags.append("repeated-rescaled-break")
            ob = [float(x) for x in res[0]]
            if not K.strictly_increasing(ob):
                tags.append("repeated-original-break")
    # a branch carrying a mutation whose end points are (after rescaling) adjacent doubles has no
    # double strictly inside it: the midpoint rule cannot be satisfied
    cm = [c for c in calls if c[0] == "count_mutations" and not isinstance(c[2], Exception)]
    ecalls = [c for c in calls if c[0] == "piecewise_scale_point_estimate" and not isinstance(c[2], Exception)]
    if cm and ts is not None:
        final = np.array(ecalls[-1][2], dtype=float) if ecalls else np.array(ts.nodes_time, dtype=float)
        for e in cm[0][2][1]:
            if e >= 0:
                tp, tc = final[ts.edges_parent[e]], final[ts.edges_child[e]]
                if tp > tc and not (tc < (tp + tc) / 2 < tp):
                    tags.append("branch-without-interior-double")
                    break
    return "+".join(sorted(set(tags))) or "other"


def oracle(ctx, ts, mu, kw, ancient, st, out, calls, rp):
    import tskit
    if ancient:
        if not st.startswith("raise:ValueError:Normalisation not implemented"):
            ctx.oracle_fail("ancient-not-rejected:" + st, "ancient samples must be rejected with ValueError", rp)
        return
    if st != "ok":
        # a run that does not return violates "returns a valid tree sequence"
        ctx.oracle_fail("%s:%s" % (st, diagnose(calls, ts)), "rescale_tree_sequence did not return", rp)
        return
    samples = list(ts.samples())
    t0, t1 = ts.nodes_time, out.nodes_time
    # topology / everything but the two time columns
    a, b = ts.tables, out.tables
    same = (out.num_nodes == ts.num_nodes and np.array_equal(a.nodes.flags, b.nodes.flags)
            and np.array_equal(a.nodes.individual, b.nodes.individual)
            and np.array_equal(a.nodes.population, b.nodes.population)
            and sorted(zip(a.edges.left, a.edges.right, a.edges.parent, a.edges.child))
            == sorted(zip(b.edges.left, b.edges.right, b.edges.parent, b.edges.child))
            and np.array_equal(a.sites.position, b.sites.position)
            and sorted((m.site, m.node, m.derived_state) for m in ts.mutations())
            == sorted((m.site, m.node, m.derived_state) for m in out.mutations())
            and out.sequence_length == ts.sequence_length and out.num_individuals == ts.num_individuals)
    if not same:
        ctx.oracle_fail("topology-changed", "something other than the two time columns changed", rp)
        return
    if not np.array_equal(t1[samples], t0[samples]):
        ctx.oracle_fail("samples-moved", "a sample's time changed", rp)
        return
    ns = [u for u in range(ts.num_nodes) if u not in set(samples)]
    order = sorted(ns, key=lambda u: t0[u])
    top = float(max(t1)) if len(t1) else 1.0
    for u, v in zip(order[:-1], order[1:]):
        if t1[v] < t1[u] - 1e-12 * top or (t0[u] == t0[v] and t1[u] != t1[v]):
            ctx.oracle_fail("non-monotone", "non-sample times are not mapped by a non-decreasing function",
                            dict(rp, nodes=[u, v], before=[float(t0[u]), float(t0[v])], after=[float(t1[u]), float(t1[v])]))
            return
    # mutations at branch midpoints / at the node above a root
    for tree in out.trees():
        for site in tree.sites():
            for m in site.mutations:
                p = tree.parent(m.node)
                exp = float(t1[m.node]) if p == tskit.NULL else (float(t1[p]) + float(t1[m.node])) / 2
                if not K.close(float(m.time), exp, rel=1e-12, abs_=1e-300):
                    ctx.oracle_fail("mutation-not-midpoint", "a mutation is not at the midpoint of its branch / at its root node",
                                    dict(rp, mutation=m.id, time=float(m.time), expected=exp))
                    return


def model_inputs(ts, kw, mu):
    """what rescale_tree_sequence must hand to the kernels: count_mutations (C24 owns that function)
    called HERE with the flag the documentation prescribes, spans times the mutation rate"""
    import tsdate.rescaling as R
    liks, medge = R.count_mutations(ts, size_biased=not kw["match_segregating_sites"])
    liks = [[float(a), float(b) * float(mu)] for a, b in liks]
    samples = set(ts.samples())
    fixed = [u in samples for u in range(ts.num_nodes)]
    muts = [(None if int(e) < 0 else int(e), int(n)) for e, n in zip(medge, ts.mutations_node)]
    return liks, fixed, muts


def block(ctx, model_ok, n):
    from vlib import gen
    runs = []
    for _ in range(n):
        ts, mu, kw, ancient, kinds, typed = make_input(ctx.rng)
        mu_used = mu
        if typed:
            which = ctx.rng.randrange(2)
            mu_a, kw_a = call_args(mu, kw, True, which)
            mu_used = float(mu_a)                    # np.float32 rounds the rate: that value is the input
        else:
            mu_a, kw_a = mu, kw
        st, out, calls = K.run_rescale_ts(ts, mu_a, **kw_a)
        runs.append((ts, mu_used, kw, ancient, st, out, calls, kinds, typed))
    if model_ok:
        # one iteration at a time from the node times the implementation had (see _rescale.model_steps),
        # the chaining of the iterations, then the mutation times from the final node times
        sitems, sref, fitems, fref = [], [], [], []
        for k, (ts, mu, kw, ancient, st, out, calls, kinds, typed) in enumerate(runs):
            if ancient:
                continue
            rp = {"input": {"tables": gen.ts_tables_dict(ts), "mu": mu, "kw": kw}, "status": st}
            liks, fixed, muts = model_inputs(ts, kw, mu)
            parent, child = [int(x) for x in ts.edges_parent], [int(x) for x in ts.edges_child]
            steps = K.loop_steps(calls, fixed, parent, child, liks=liks)
            if steps is None:
                continue
            t0 = [float(x) for x in ts.nodes_time]
            chain = (not steps) or K.close_list(steps[0]["t"], t0)
            for j in range(1, len(steps)):
                prev = steps[j - 1]["pe_res"]
                chain = chain and prev is not None and not isinstance(prev, Exception) \
                    and K.close_list(steps[j]["t"], [float(v) for v in prev])
            if st == "ok":
                chain = chain and len(steps) == kw["num_iterations"]
                final = [float(v) for v in steps[-1]["pe_res"]] if steps else t0
                chain = chain and K.close_list([float(x) for x in out.nodes_time], final)
                fitems.append({"t": final, "fixed": fixed, "liks": liks, "parent": parent, "child": child,
                               "cpss": [], "muts": muts})
                fref.append((k, rp))
            ctx.corr("rescale_tree_sequence loop chaining", chain, "iteration inputs / returned node times are not the previous outputs",
                     replay=rp)
            pick = steps if (ctx.tier == "thorough" or len(steps) <= 3) else [steps[0], steps[1], steps[-1]]
            for stp in pick:
                sitems.append(stp)
                sref.append(rp)
        sm = K.model_steps(ctx, sitems) if sitems else []
        for stp, rp, m in zip(sitems, sref, sm):
            ctx.corr("rescale_tree_sequence iteration", K.step_agrees(stp, m, rel=1e-12),
                     "impl=%r model=%r" % ((stp["ts_res"], stp["pe_res"]), m),
                     replay=dict(rp, step={k2: stp[k2] for k2 in ("t", "cps")}, model=m))
        fm = K.model_rescale_ts(ctx, fitems) if fitems else []
        for (k, rp), m in zip(fref, fm):
            ts, out = runs[k][0], runs[k][5]
            ok = m is not None
            if ok:
                exp = {}
                for (site, node), tm in zip(zip(ts.mutations_site, ts.mutations_node), m[1]):
                    exp[(int(site), int(node))] = tm
                for mu_ in out.mutations():
                    if not K.close(float(mu_.time), exp.get((mu_.site, mu_.node), float("nan"))):
                        ok = False
            ctx.corr("rescale_tree_sequence mutation times", ok, "model=%r" % (m,), replay=rp)
    for ts, mu, kw, ancient, st, out, calls, kinds, typed in runs:
        rp = {"input": {"tables": gen.ts_tables_dict(ts), "mu": mu, "kw": kw, "ancient": ancient, "exotic": kinds,
                        "numpy_typed": typed}, "status": st}
        moved = st == "ok" and not np.array_equal(out.nodes_time, ts.nodes_time)
        for k2 in kinds:
            ctx.tally("exotic:" + k2)
        ctx.case({"ts": gen.ts_summary(ts), "mu": mu, "kw": kw, "ancient": ancient, "status": st, "exotic": kinds,
                  "numpy_typed": typed,
                  "times_before": [float(x) for x in ts.nodes_time][-6:],
                  "times_after": [float(x) for x in out.nodes_time][-6:] if out is not None else None},
                 nontrivial=moved, kind=("ancient/" if ancient else "") + ("ok" if st == "ok" else st.split(":")[1])
                 + ("/numpy-typed" if typed else ""))
        oracle(ctx, ts, mu, kw, ancient, st, out, calls, rp)


def run(ctx, model_ok=True):
    block(ctx, model_ok, ctx.n(100, 1200))


def search(ctx):
    for _ in range(ctx.n(4, 8)):
        block(ctx, False, 300)
        if ctx.oracle_fails:
            return


def replay(ctx, data):
    from vlib import gen
    inp = (data.get("case") or {}).get("input")
    if not inp:
        return True
    ts = gen.ts_from_dict(inp["tables"])
    st, out, calls = K.run_rescale_ts(ts, inp["mu"], **inp["kw"])
    before = len(ctx.oracle_fails) + len(ctx.known_hits)
    oracle(ctx, ts, inp["mu"], inp["kw"], inp.get("ancient", False), st, out, calls, {"input": inp, "status": st})
    return len(ctx.oracle_fails) + len(ctx.known_hits) == before
