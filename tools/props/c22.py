"""C22 -- unphased singleton handling only re-phases singletons and ignores input phase."""
import numpy as np

from props import _sweep as S
from vlib.coqfmt import cZ, cnat, cbool, clist

ENV_BY_TIER = {"quick": {"NUMBA_DISABLE_JIT": "1"}, "thorough": {}}

RULE = ("msprime tree sequences with ploidy=2 contemporary individuals (2-4 individuals, 1-130 trees, Kingman and "
        "multiple-merger, integer coordinates), extra singletons added on the individuals' nodes (40% of them exactly on "
        "tree breakpoints), ~40% of the inputs decorated by gen.exotic (extra node flag bits, ALL nodes renumbered, "
        "mutations above roots, mutation-free sites incl. num_sites == num_mutations, arbitrary ancestral states, "
        "populations), 20% with chromosome-scale integer coordinates (mutation rate scaled down accordingly), "
        "every mutation "
        "given a unique derived state so that output rows are matched by (site, derived_state) (tskit's sort may "
        "permute rows inside a site, DESIGN.md section 9 K9); x random re-phasings (each singleton moved to the "
        "individual's other node with probability 1/2); x singletons_phased in {True, False}; x one random option "
        "set per re-phasing pair (match_segregating_sites, rescaling_intervals in {0, 2, 5, 20, default}, "
        "rescaling_iterations incl. 0, max_iterations, max_shape, regularise_roots; 30% of the sets passed as numpy "
        "scalars); the unphased run is repeated on the same object and must be bit-identical; in half of the cases the "
        "fitted phases of a random subset of singletons are overwritten just before the switch with NaN / 0.5 / 0.0 / "
        "1.0 (rescaling off), in the implementation and in the model input alike, for the input and its re-phased twin. "
        "A case is non-trivial when at least one singleton exists on an unphased individual")
ASSUME = ["tskit's tables satisfy valid_tablesb (checked inside Coq on every input)",
          "the values of mutation_phase < 0.5 are taken from the run (the EP numerics are not part of this model)",
          "integer genomic coordinates in the correspondence; the theorems are about the model over Z",
          "tolerance of the re-phasing comparison: 1e-6 relative on node / mutation times and on the posterior "
          "mean / variance metadata (measured on the unchanged tree: identical to the last bit in every run)"]

TOL = 1e-6


# ---------------------------------------------------------------- inputs
def unique_states(ts):
    """give every mutation its own derived state: rows can then be matched after dating"""
    import tskit
    tables = ts.dump_tables()
    ds, off = tskit.pack_strings(["m%d" % i for i in range(ts.num_mutations)])
    tables.mutations.set_columns(site=tables.mutations.site, node=tables.mutations.node,
                                 time=np.full(ts.num_mutations, tskit.UNKNOWN_TIME),
                                 derived_state=ds, derived_state_offset=off,
                                 parent=tables.mutations.parent, metadata=tables.mutations.metadata,
                                 metadata_offset=tables.mutations.metadata_offset)
    return tables.tree_sequence()


def make_ts(rng):
    from vlib import gen
    while True:
        ts = gen.sim_ts(rng, n=rng.randint(2, 4), L=rng.choice([20, 100, 400]), rec=rng.choice([0.0, 1.0, 3.0, 6.0]) / 100,
                        mu=rng.choice([1.0, 3.0, 10.0]) / 100, ploidy=2, historical=False,
                        multimerger=rng.random() < 0.2)
        if ts.num_mutations == 0 or ts.num_trees > 130 or ts.num_mutations > 150:
            continue
        nodes = [int(u) for ind in ts.individuals() for u in ind.nodes]
        if rng.random() < 0.7:
            ts = S.add_mutations(rng, ts, k=rng.randint(1, 6), nodes=nodes)
        # ~40%: valid-but-unusual decorations (extra flag bits, all nodes renumbered -- an individual's two
        # nodes are then not adjacent ids --, mutations above roots, mutation-free sites incl. the
        # num_sites == num_mutations coincidence, arbitrary states, populations)
        ts, _tag = S.exotic_variant(rng, ts)
        if rng.random() < 0.3:
            ts = S.site_mutation_coincidence(rng, ts, nodes=nodes if "permute_nodes" not in _tag else None)
        if ts.num_mutations > 160:
            continue
        if rng.random() < 0.2:
            ts = S.stretch_coords(rng, ts)      # chromosome-scale coordinates; callers scale the mutation rate
        return unique_states(ts)


def partner_map(ts):
    """node -> other node of its (diploid, contemporary) individual"""
    out = {}
    for ind in ts.individuals():
        if len(ind.nodes) == 2 and all(ts.nodes_time[u] == 0 for u in ind.nodes):
            a, b = int(ind.nodes[0]), int(ind.nodes[1])
            out[a] = b
            out[b] = a
    return out


def rephase(rng, ts):
    partner = partner_map(ts)
    tables = ts.dump_tables()
    node = tables.mutations.node.copy()
    moved = 0
    for m in range(ts.num_mutations):
        if int(node[m]) in partner and rng.random() < 0.5:
            node[m] = partner[int(node[m])]
            moved += 1
    tables.mutations.node = node
    tables.sort()
    tables.build_index()
    tables.compute_mutation_parents()
    return tables.tree_sequence(), moved


def by_state(ts):
    """{derived_state: (site position, node, time, metadata)}"""
    out = {}
    for m in ts.mutations():
        out[m.derived_state] = (ts.site(m.site).position, int(m.node), float(m.time), m.metadata)
    return out


# ---------------------------------------------------------------- implementation side
def run_ep(ts, mu, phased, rescale, inject=None):
    """ExpectationPropagation.infer with the pre-switch phases recorded from outside.
    inject: {derived_state: value} -- after the last propagate_mutations call (i.e. just before the
    switch) the fitted phase of those singletons is overwritten in place (NaN = a skipped update, and
    the boundary values 0.5, 0.0, 1.0): regimes the EP numerics reach only rarely"""
    import tsdate.variational as variational
    import tsdate.core as core
    with S.time_limit(120):
        fit = variational.ExpectationPropagation(ts, mutation_rate=mu, singletons_phased=phased)
        phases = []
        orig = fit.propagate_mutations

        states = [m.derived_state for m in ts.mutations()]

        def spy(*args):
            orig(*args)
            if inject and len(phases) == 1:          # second (= last) call: the switch comes next
                for m, st in enumerate(states):
                    if st in inject and fit.mutation_blocks[m] != -1:
                        args[2][m] = inject[st]
            phases.append(np.array(args[2], dtype=float).copy())
        fit.propagate_mutations = spy
        in_edges = fit.mutation_edges.copy()
        o = norm_opts(rescale)
        fit.infer(ep_iterations=o["max_iterations"],
                  max_shape=(1000 if o["max_shape"] is None else o["max_shape"]),
                  rescale_intervals=(core.DEFAULT_RESCALING_INTERVALS if o["rescaling_intervals"] is None
                                     else o["rescaling_intervals"]),
                  rescale_iterations=(core.DEFAULT_RESCALING_ITERATIONS if o["rescaling_iterations"] is None
                                      else o["rescaling_iterations"]),
                  regularise=o["regularise_roots"], rescale_segsites=o["match_segregating_sites"], progress=False)
    pre = phases[-1]
    return {"lt_half": [bool(x < 0.5) for x in pre], "pre_phase": [float(x) for x in pre],
            "post_phase": [float(x) for x in fit.mutation_phase],
            "in_edges": [int(x) for x in in_edges],
            "out_edges": [int(x) for x in fit.mutation_edges], "out_nodes": [int(x) for x in fit.mutation_mapping()],
            "block_edges": [[int(a), int(b)] for a, b in fit.block_edges],
            "mutation_blocks": [int(x) for x in fit.mutation_blocks]}


def make_opts(rng):
    """one random option set; every run of a re-phasing pair uses the same one"""
    return {"match_segregating_sites": rng.random() < 0.5,
            "rescaling_intervals": rng.choice([0, 2, 5, 20, None, None]),
            "rescaling_iterations": rng.choice([None, 0, 1, 3]),
            "max_iterations": rng.choice([1, 3, 5]),
            "max_shape": rng.choice([None, 20.0, 1000.0]),
            "regularise_roots": rng.choice([True, False]),
            "numpy_typed": rng.random() < 0.3}        # options passed as numpy scalars (np.bool_, np.int64, ...)


def norm_opts(o):
    """option dict (older replays stored a bool 'rescale')"""
    if isinstance(o, dict):
        return o
    return {"match_segregating_sites": False, "rescaling_intervals": 5 if o else 0, "rescaling_iterations": 2,
            "max_iterations": 3, "max_shape": None, "regularise_roots": True, "numpy_typed": False}


def date(ts, mu, phased, rescale):
    import tsdate
    with S.time_limit(300):
        o = norm_opts(rescale)
        kw = {k: v for k, v in o.items() if v is not None and k != "numpy_typed"}
        if o.get("numpy_typed"):
            conv = {bool: np.bool_, int: np.int64, float: np.float64}
            kw = {k: conv[type(v)](v) for k, v in kw.items()}
            mu, phased = np.float64(mu), np.bool_(phased)
        return tsdate.date(ts, method="variational_gamma", mutation_rate=mu, singletons_phased=phased,
                           progress=False, **kw)


# ---------------------------------------------------------------- model side
def coq_case(k, ts, ep, ts2):
    """blocks of ts and of its re-phased twin, and the switch replayed with the recorded phases"""
    unph = [True] * ts.num_individuals
    defs = (S.coq_table_defs(k, ts)
            + "Definition unph%d := %s.\nDefinition lth%d := %s.\nDefinition inedge%d := %s.\nDefinition muts2_%d := %s.\n"
            % (k, S.coq_bools(unph), k, S.coq_bools(ep["lt_half"]), k, clist(ep["in_edges"], cZ), k, S.coq_muts(ts2)))
    d = {"k": k, "M": cnat(ts.num_mutations)}
    term = ("(valid_tablesb L%(k)d es%(k)d ins%(k)d rem%(k)d, "
            "block_singletons_list es%(k)d unph%(k)d nind%(k)d muts%(k)d L%(k)d ins%(k)d rem%(k)d, "
            "block_singletons_list es%(k)d unph%(k)d nind%(k)d muts2_%(k)d L%(k)d ins%(k)d rem%(k)d, "
            "match block_singletons_list es%(k)d unph%(k)d nind%(k)d muts%(k)d L%(k)d ins%(k)d rem%(k)d with "
            "| inr (_, bedges, mblock) => "
            "Some (map (switch_edge bedges (of_list (-1)%%Z mblock) (of_list false lth%(k)d) (of_list (-1)%%Z inedge%(k)d)) (seq 0%%nat %(M)s), "
            "map (switch_node es%(k)d bedges (of_list (-1)%%Z mblock) (of_list false lth%(k)d) (fun m => snd (nth m muts%(k)d (0%%Z, O)))) (seq 0%%nat %(M)s)) "
            "| inl _ => None end)" % d)
    return defs, term


# ---------------------------------------------------------------- oracle
MAXDIFF = [0.0]


def close(a, b):
    if a == b or (a != a and b != b):
        return True
    rel = abs(a - b) / max(abs(a), abs(b), 1e-300)
    if rel <= TOL:
        MAXDIFF[0] = max(MAXDIFF[0], rel)      # measured, reported in the evidence notes
    return rel <= TOL


def md_close(a, b):
    if isinstance(a, dict) and isinstance(b, dict):
        return a.keys() == b.keys() and all(md_close(a[k], b[k]) for k in a)
    if isinstance(a, (int, float)) and isinstance(b, (int, float)):
        return close(float(a), float(b))
    return a == b


def exact_same(d1, d2):
    """bit-identical mutation outputs (NaN-safe)"""
    if d1.keys() != d2.keys():
        return False
    for k, v in d1.items():
        w = d2[k]
        if v[0] != w[0] or v[1] != w[1] or not (v[2] == w[2] or (v[2] != v[2] and w[2] != w[2])):
            return False
        if repr(v[3]) != repr(w[3]):
            return False
    return True


def oracle(ctx, rng, ts, mu, rescale):
    """metamorphic checks on date(); returns number of singletons on unphased individuals"""
    partner = partner_map(ts)
    rp = {"tables": S.describe(ts), "mu": mu, "rescale": rescale}
    before = by_state(ts)
    nsing = sum(1 for v in before.values() if v[1] in partner)
    # singletons_phased=True: nothing moves
    out_t = date(ts, mu, True, rescale)
    after_t = by_state(out_t)
    if set(after_t) != set(before):
        ctx.oracle_fail("phased:mutations-lost", "set of mutations changed", rp)
    else:
        for key, v in before.items():
            if after_t[key][1] != v[1] or after_t[key][0] != v[0]:
                ctx.oracle_fail("phased:mutation-moved", "singletons_phased=True moved mutation %s: node %d -> %d"
                                % (key, v[1], after_t[key][1]), rp)
                break
    # singletons_phased=False: only singletons move, only to the partner node
    out_f = date(ts, mu, False, rescale)
    after_f = by_state(out_f)
    if set(after_f) != set(before):
        ctx.oracle_fail("unphased:mutations-lost", "set of mutations changed", rp)
        return nsing
    for key, v in before.items():
        a = after_f[key]
        if a[0] != v[0]:
            ctx.oracle_fail("unphased:site-changed", "mutation %s changed site" % key, rp)
            break
        if a[1] != v[1] and not (v[1] in partner and partner[v[1]] == a[1]):
            ctx.oracle_fail("unphased:moved-to-non-partner",
                            "mutation %s moved from node %d to node %d (partner: %r)" % (key, v[1], a[1], partner.get(v[1])), rp)
            break
    # the same input object dated again: bit-identical (no state leaking between calls)
    again = date(ts, mu, False, rescale)
    if not (np.array_equal(again.nodes_time, out_f.nodes_time) and exact_same(by_state(again), after_f)):
        ctx.oracle_fail("unphased:second-call-differs", "dating the same tree sequence object twice gave different outputs", rp)
    if not np.array_equal(out_f.nodes_flags, ts.nodes_flags) or not np.array_equal(out_f.nodes_individual, ts.nodes_individual):
        ctx.oracle_fail("unphased:node-table", "node flags / individuals changed", rp)
    # the output does not depend on how the singletons were phased in the input
    for _ in range(2):
        ts2, moved = rephase(rng, ts)
        out2 = date(ts2, mu, False, rescale)
        rp2 = dict(rp, rephased_mutation_nodes={k: v[1] for k, v in by_state(ts2).items()}, moved=moved)
        a2 = by_state(out2)
        bad = None
        if not all(close(float(x), float(y)) for x, y in zip(out_f.nodes_time, out2.nodes_time)):
            bad = "node times differ by up to %g" % float(np.max(np.abs(out_f.nodes_time - out2.nodes_time)))
        elif set(a2) != set(after_f):
            bad = "set of mutations differs"
        else:
            for key, v in after_f.items():
                w = a2[key]
                if v[1] != w[1]:
                    bad = "mutation %s placed on node %d vs %d" % (key, v[1], w[1])
                    break
                if not close(v[2], w[2]):
                    bad = "mutation %s time %r vs %r" % (key, v[2], w[2])
                    break
                if not md_close(v[3], w[3]):
                    bad = "mutation %s metadata %r vs %r" % (key, v[3], w[3])
                    break
            if bad is None:
                for u in range(ts.num_nodes):
                    if not md_close(out_f.node(u).metadata, out2.node(u).metadata):
                        bad = "node %d metadata %r vs %r" % (u, out_f.node(u).metadata, out2.node(u).metadata)
                        break
        if bad:
            # K9 (DESIGN.md section 9): at a site where several singletons of one individual end on the
            # same node, which of them is the parent / gets which spread time follows the input row
            # order.  Recognised narrowly: node times and node metadata agree, and per site the
            # multisets of (node, time, metadata) agree -- only the assignment to derived states differs.
            def per_site(d):
                out = {}
                for key, v in d.items():
                    out.setdefault(v[0], []).append((v[1], v[2], v[3]))
                return {k: sorted(x, key=lambda t: (t[0], t[1])) for k, x in out.items()}
            p1, p2 = per_site(after_f), per_site(a2)
            same_multiset = (
                all(close(float(x), float(y)) for x, y in zip(out_f.nodes_time, out2.nodes_time))
                and all(md_close(out_f.node(u).metadata, out2.node(u).metadata) for u in range(ts.num_nodes))
                and p1.keys() == p2.keys()
                and all(len(p1[k]) == len(p2[k]) and all(a[0] == b[0] and close(a[1], b[1]) and md_close(a[2], b[2])
                                                          for a, b in zip(p1[k], p2[k])) for k in p1))
            if same_multiset:
                ctx.oracle_fail("rephase:row-order-within-site",
                                "outputs agree as per-site multisets of (node, time, metadata); the assignment to "
                                "derived states differs: %s" % bad, rp2)
            else:
                ctx.oracle_fail("rephase:output-differs", "re-phasing %d input singletons changed the output: %s" % (moved, bad), rp2)
            break
    return nsing


def run(ctx, model_ok=True):
    import logging
    import warnings
    logging.disable(logging.WARNING)
    warnings.simplefilter("ignore")
    n = ctx.n(36, 400)
    items = []
    hung = False
    for _ in range(n):
        ts = make_ts(ctx.rng)
        mu = ctx.rng.choice([0.01, 0.05, 0.3])
        if ts.sequence_length > 1e6:
            mu = mu * 400.0 / ts.sequence_length      # keep mu * span in the same regime
        rescale = make_opts(ctx.rng)
        rp = {"tables": S.describe(ts), "mu": mu, "rescale": rescale}
        try:
            nsing = oracle(ctx, ctx.rng, ts, mu, rescale)
            ts2, moved = rephase(ctx.rng, ts)
            inject = None
            if ctx.rng.random() < 0.5:
                partner = partner_map(ts)
                sing = [m.derived_state for m in ts.mutations() if int(m.node) in partner]
                inject = {st: ctx.rng.choice([float("nan"), float("nan"), 0.5, 0.0, 1.0])
                          for st in sing if ctx.rng.random() < 0.5}
            ep_opts = dict(rescale, rescaling_intervals=0) if inject else rescale   # (with rescaling on, a NaN
            # phase trips the closing assertion of reallocate_unphased on the unchanged code: C23 / K8 matter)
            ep = run_ep(ts, mu, False, ep_opts, inject)
            ep_phased = run_ep(ts, mu, True, rescale)
            if inject:
                # injected phases: the placement of every singleton must not depend on the input phase
                ep2 = run_ep(ts2, mu, False, ep_opts, inject)
                k1 = {m.derived_state: ep["out_nodes"][m.id] for m in ts.mutations()}
                k2 = {m.derived_state: ep2["out_nodes"][m.id] for m in ts2.mutations()}
                ctx.tally("injected_phase_cases")
                if k1 != k2:
                    bad = sorted(k for k in k1 if k1[k] != k2.get(k))
                    ctx.oracle_fail("rephase:injected-phase:mutation-nodes",
                                    "with the fitted phases of some singletons set to NaN / 0.5 / 0 / 1 before the switch, "
                                    "mutations %r are placed on different nodes for two inputs that differ only in the "
                                    "input phase: %r vs %r (injected %r)" % (
                                        bad[:5], [k1[k] for k in bad[:5]], [k2.get(k) for k in bad[:5]],
                                        {k: inject.get(k) for k in bad[:5]}),
                                    dict(rp, inject={k: repr(v) for k, v in inject.items()},
                                         rephased_mutation_nodes={k: v[1] for k, v in by_state(ts2).items()}))
        except S.ImplTimeout as e:
            ctx.oracle_fail("timeout", str(e), rp)
            hung = True
            break
        except AssertionError as e:
            # K2 (DESIGN.md section 9): 'Use fewer rescaling intervals' is a C35 matter, not a C22 one
            if "rescaling intervals" in str(e):
                ctx.tally("skipped_K2_rescaling_assert")
                continue
            import traceback
            if "reallocate_unphased" in traceback.format_exc():
                # closing assertion of reallocate_unphased (NaN phase / K8): belongs to C23 / C35
                ctx.tally("skipped_reallocate_unphased_assert")
                continue
            ctx.oracle_fail("dating-raised:AssertionError", repr(e)[:300], rp)
            continue
        except Exception as e:
            ctx.oracle_fail("dating-raised:%s" % type(e).__name__, repr(e)[:300], rp)
            continue
        switched = sum(1 for a, b in zip(ep["out_nodes"], ts.mutations_node) if a != int(b))
        ctx.case({"summary": S.summary(ts), "individuals": int(ts.num_individuals), "singletons": nsing,
                  "switched": switched, "mu": mu, "rescale": rescale}, nontrivial=nsing > 0,
                 kind="singletons:%s/switched:%s" % ("yes" if nsing else "no", "yes" if switched else "no"))
        # phased run: no blocks at all, nothing moves (C22_phased_identity on the implementation)
        if ep_phased["block_edges"] or any(b != -1 for b in ep_phased["mutation_blocks"]) or \
                ep_phased["out_nodes"] != [int(x) for x in ts.mutations_node]:
            ctx.oracle_fail("phased:blocks-exist", "singletons_phased=True produced blocks or moved mutations", rp)
        items.append((ts, ep, ts2, rp))
    ctx.notes["max_relative_difference_between_rephased_outputs_within_tolerance"] = MAXDIFF[0]
    if hung or not model_ok or not items:
        return
    texts = [coq_case(k, ts, ep, ts2) for k, (ts, ep, ts2, rp) in enumerate(items)]
    models = S.coq_run_cases(ctx, texts, ("lib.Tables", "model.Sweep", "model.BlockSingletons"), "phase")
    for (ts, ep, ts2, rp), (valid, b1, b2, sw) in zip(items, models):
        if not valid:
            ctx.tie_fail("correspondence", "valid_tablesb", "a tskit tree sequence violates the validity hypotheses", rp)
        ok1 = b1[0] == "inr" and [list(map(int, r)) for r in b1[1][1]] == ep["block_edges"] and \
            [int(x) for x in b1[1][2]] == ep["mutation_blocks"]
        ctx.corr("block_singletons (block_edges, mutation_blocks of the EP object)", ok1,
                 "model=%r impl=%r" % (b1, (ep["block_edges"], ep["mutation_blocks"])), rp)
        # phase blindness on the model (C22_blocks_phase_blind, evaluated): same blocks for the re-phased twin;
        # mutation ids may be permuted by tskit's sort, so mutations_block is compared through the derived state
        ok2 = b1[0] == b2[0]
        if ok2 and b1[0] == "inr":
            ok2 = b1[1][0] == b2[1][0] and b1[1][1] == b2[1][1]
            k1 = {m.derived_state: int(b1[1][2][m.id]) for m in ts.mutations()}
            k2 = {m.derived_state: int(b2[1][2][m.id]) for m in ts2.mutations()}
            ok2 = ok2 and k1 == k2
        ctx.corr("model blocks identical for a re-phased input", ok2, "b1=%r b2=%r" % (b1, b2), rp)
        if sw is not None:
            medge, mnode = sw[1]
            ctx.corr("phase switch (mutation_edges, mutation_nodes)",
                     [int(x) for x in medge] == ep["out_edges"] and [int(x) for x in mnode] == ep["out_nodes"],
                     "model=%r impl=%r" % (sw[1], (ep["out_edges"], ep["out_nodes"])), rp)
        want_phase = [(1 - p) if lt else p for p, lt in zip(ep["pre_phase"], ep["lt_half"])]
        ctx.corr("flipped phases", all((a == b) or (a != a and b != b) for a, b in zip(want_phase, ep["post_phase"])), "", rp)


def search(ctx):
    for _ in range(ctx.n(150, 600)):
        ts = make_ts(ctx.rng)
        try:
            oracle(ctx, ctx.rng, ts, ctx.rng.choice([0.01, 0.05, 0.3]), make_opts(ctx.rng))
        except S.ImplTimeout as e:
            ctx.oracle_fail("timeout", str(e), {"tables": S.describe(ts)})
            return
        except Exception as e:
            ctx.oracle_fail("dating-raised:%s" % type(e).__name__, repr(e)[:300], {"tables": S.describe(ts)})
        if ctx.oracle_fails:
            return


def replay(ctx, data):
    from vlib import gen
    import random
    case = data["case"]
    ts = unique_states(gen.ts_from_dict(case["tables"]))
    before = len(ctx.oracle_fails)
    oracle(ctx, random.Random(0), ts, case.get("mu", 0.05), norm_opts(case.get("rescale", False)))
    return len(ctx.oracle_fails) == before
