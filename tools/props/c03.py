"""C03 -- sample times are kept, except for the minimal push above dated children."""
from props import _constrain as K
from props import _dating as D

ENV_BY_TIER = {"quick": {"NUMBA_DISABLE_JIT": "1"}, "thorough": {}}
RULE = ("(a) kernel level: _constrain_ages on msprime DAGs with historical and internal samples x time vectors "
        "(inversions, ties) x eps x iterations, non-trivial when some sample has a child; (b) pipeline level: "
        "date() with all three methods on inputs with historical samples and samples that are ancestors, "
        "non-trivial when the method returned and some sample has children")
ASSUME = ["children_first of tskit's edge order (checked per input)",
          "core.get_modified_ts passes the sample's input time as its unconstrained time (checked by the pipeline oracle)"]


def expected_sample_times(parent, child, fixed, t_in, t_out, eps):
    """max(t_in[u], max_c fl(t_out[c] + eps)) for every fixed u, in doubles"""
    kids = {}
    for p, c in zip(parent, child):
        kids.setdefault(p, set()).add(c)
    exp = {}
    for u, f in enumerate(fixed):
        if not f:
            continue
        v = t_in[u]
        for c in kids.get(u, ()):
            w = t_out[c] + eps
            if w >= v:
                v = w
        exp[u] = v
    return exp, kids


def kernel_oracle(ctx, case, out):
    if out == "assert":
        return False
    exp, kids = expected_sample_times(case["parent"], case["child"], case["fixed"], case["t"], out, case["eps"])
    for u, v in exp.items():
        if out[u] != v:
            ctx.oracle_fail("kernel-sample-time",
                            "sample %d: output %r, expected max(input, children+eps) = %r" % (u, out[u], v),
                            {"level": "kernel", "case": case, "impl": out})
            return True
    return any(kids.get(u) for u in exp)


def pipeline_case(ctx, rng):
    ts = D.datable_ts(rng, historical=rng.random() < 0.6, internal=rng.random() < 0.7)
    method = rng.choice(["variational_gamma", "variational_gamma", "inside_outside", "maximization"])
    kw = D.method_options(rng, method, ts)
    if method == "variational_gamma" and rng.random() < 0.7:
        kw["rescaling_intervals"] = rng.choice([0, 1, 2])
    return ts, method, kw


def pipeline_oracle(ctx, ts, method, kw):
    from vlib import gen
    import tskit
    r = D.call(method, ts, **kw)
    desc = {"method": method, "opts": D.jsonable_opts(kw), "ts": gen.ts_summary(ts)}
    if r[0] != "ok":
        ctx.case(dict(desc, outcome=r[1]), nontrivial=False, kind="pipeline/" + r[1])
        return
    out = r[1]
    eps = kw.get("min_branch_length", 1e-8)
    fixed = [bool(f & tskit.NODE_IS_SAMPLE) for f in ts.nodes_flags]
    exp, kids = expected_sample_times(list(ts.edges_parent), list(ts.edges_child), fixed,
                                      list(ts.nodes_time), list(out.nodes_time), eps)
    has_kids = any(kids.get(u) for u in exp)
    moved = sum(1 for u in exp if out.nodes_time[u] != ts.nodes_time[u])
    ctx.case(dict(desc, outcome="ok", samples_with_children=sum(1 for u in exp if kids.get(u)), moved=moved),
             nontrivial=has_kids, kind="pipeline/ok" + ("/moved" if moved else ""))
    for u, v in exp.items():
        if out.nodes_time[u] != v:
            ctx.oracle_fail("pipeline-sample-time",
                            "%s: sample %d input %r output %r expected %r" % (method, u, ts.nodes_time[u], out.nodes_time[u], v),
                            {"level": "pipeline", "ts": gen.ts_tables_dict(ts), "method": method,
                             "opts": D.jsonable_opts(kw)})
            return


def fixed_case(rng):
    from vlib import gen
    ts = gen.sim_ts(rng, historical=rng.random() < 0.6)
    ts = gen.internal_samples(rng, ts, k=rng.randint(1, 3))
    return K.make_case(rng, ts=ts, style=rng.choice(["noise", "reverse", "ties", "valid", "big"]),
                       k=rng.choice([0, 0, 1, 2, 5, 100]))


def run(ctx, model_ok=True):
    n = ctx.n(150, 1000)
    cases = []
    while len(cases) < n:
        c = fixed_case(ctx.rng)
        # keep the sample times of the input (that is what date() does)
        cases.append(c)
    impl = K.correspondence(ctx, cases) if model_ok else [K.run_impl(c) for c in cases]
    for c, out in zip(cases, impl):
        nt = kernel_oracle(ctx, c, out)
        ctx.case({"level": "kernel", "nodes": len(c["t"]), "fixed": sum(c["fixed"]), "eps": c["eps"], "k": c["k"],
                  "style": c["style"], "t": c["t"][:10]}, nontrivial=bool(nt), kind="kernel/" + c["style"])
    for _ in range(ctx.n(60, 500)):
        ts, method, kw = pipeline_case(ctx, ctx.rng)
        pipeline_oracle(ctx, ts, method, kw)


def search(ctx):
    for _ in range(ctx.n(400, 2000)):
        c = fixed_case(ctx.rng)
        kernel_oracle(ctx, c, K.run_impl(c))
        if ctx.oracle_fails:
            return
    for _ in range(ctx.n(200, 1000)):
        ts, method, kw = pipeline_case(ctx, ctx.rng)
        pipeline_oracle(ctx, ts, method, kw)
        if ctx.oracle_fails:
            return


def replay(ctx, data):
    from vlib import gen
    case = data["case"]
    before = len(ctx.oracle_fails)
    if case.get("level") == "pipeline":
        pipeline_oracle(ctx, gen.ts_from_dict(case["ts"]), case["method"], case["opts"])
    else:
        kernel_oracle(ctx, case["case"], K.run_impl(case["case"]))
    return len(ctx.oracle_fails) == before
