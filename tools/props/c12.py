"""C12 -- linear and logarithmic probability spaces agree."""
import math
import numpy as np
from props import _discrete as D
from vlib.coqfmt import clist, cbool

ENV_BY_TIER = {"quick": {"NUMBA_DISABLE_JIT": "1"}, "thorough": {}}
ENV = {"XDG_CACHE_HOME": "/verif/.work/disc/cache"}
COQ_REQ = ("lib.Num", "model.Discrete", "model.DiscreteFloat")
TOL = 1e-9          # linear vs logarithmic results (measured on the unchanged tree: see evidence notes)

RULE = ("(a) units: LogLikelihoods.logsumexp on vectors of length 0-12 with -inf entries and spreads up to 800 "
        "log units; rowsum_lower_tri / rowsum_upper_tri / ratio(div_0_null) / make_*_tri of both classes on random "
        "triangular arrays, grid sizes 2-8, with zeros / -inf; (b) whole inside+outside runs of both classes on "
        "msprime tree sequences (2-6 samples, recombination, renumbered nodes) and single trees, random prior grids "
        "with zeros, cached and uncached g_i, outside standardisation on and off, eps in {0 exactly, 1e-300, API default, "
        "0.25, 1e-8..0.1, and values comparable to the grid spacing} (the same value for both spaces), ignore_oldest_root on 30%, num_threads None/1(/2), "
        "numpy-typed option values, 20% of the multi-tree inputs with a chain of unary nodes (allow_unary=True), ~40% of "
        "all inputs with vlib.gen.exotic decorations (extra flag bits, ALL nodes renumbered, mutation-free sites, allele "
        "strings, populations, mutation times), 15% with tied node times; (c) oracle: explicit prior rows or a prior built "
        "by tsdate.build_prior_grid (exact / approximate / gamma, 4-20 timepoints, allow_unary), on 30% ONE priors "
        "object reused by all four calls; thorough: 10 larger inputs (12-25 samples); plus a 'steep dynamic range "
        "without underflow' family (oracle only, 48 quick / 150 thorough): the reported 3-leaf shape, every shape with 3-5 "
        "leaves and msprime trees with very unbalanced per-edge mutation counts (0 on most internal edges, 50-300 on some "
        "sample edges), mutation_rate x span x grid range in {20,40,80,150}, uniform and random grids of 5-25 timepoints, "
        "eps in {0,1e-8,1e-3,1e-2}, explicit or built priors, both methods; a case counts only if every finite quantity of "
        "the LOGARITHMIC run (inside, outside, likelihood, edge likelihood tables) lies in [log 1e-250, log 1e250], "
        "otherwise it is outside the premise and only tallied (about half are in the premise); a third of the family "
        "are multi-parent nodes (2-4 trees) with 50-300 mutations on every parent edge and none below, judged for "
        "maximization with a node-level premise (winning score and every edge's largest likelihood above 1e-250); the public "
        "inside_outside and maximization functions run in both spaces on the same input. A case is non-trivial "
        "when the input has mutations and >= 2 internal nodes; distinct by content hash."
        "About half of the inputs carry 1-3 extra mutations that sit on NO edge (above the root of the local tree; valid tskit input); the references count only mutations on edges, computed from the tables.")
ASSUME = ["scipy.stats.poisson.pmf/logpmf values enter the model as a lookup table (not modelled)",
          "exp/log/pow of the binary64 model instance are float implementations in coq/model/DiscreteFloat.v "
          "(about 1e-15 relative; compared with libm on every run), so log-space and multi-tree runs are "
          "compared at 1e-9, not bit for bit",
          "edge orders are taken from the implementation and checked against the order hypotheses",
          "linear-space underflow is detected by comparing zero patterns with the logarithmic run; such inputs "
          "are outside the property's premise and are skipped (counted)"]


# ---------------------------------------------------------------- units
def lik_objects(G):
    from tsdate import discrete
    d = D.canon(D.shape_to_tables(((), ()), None, L=1.0, jitter=False))
    ts = D.ts_from_dict(d)
    tp = np.arange(G, dtype=float)
    return discrete.Likelihoods(ts, tp, 1.0, eps=1e-6), discrete.LogLikelihoods(ts, tp, 1.0, eps=1e-6)


def rand_logvec(rng, n):
    style = rng.choice(["mixed", "mixed", "allninf", "wide", "equal", "tiny"])
    out = []
    for _ in range(n):
        if style == "allninf":
            out.append(-math.inf)
        elif style == "wide":
            out.append(rng.uniform(-800, 50))
        elif style == "equal":
            out.append(-3.25)
        elif style == "tiny":
            out.append(rng.uniform(-1e-9, 1e-9))
        else:
            out.append(-math.inf if rng.random() < 0.25 else rng.uniform(-30, 5))
    return out


def ref_logsumexp(xs):
    import mpmath
    fin = [x for x in xs if x != -math.inf]
    if not fin:
        return -math.inf
    mpmath.mp.prec = 120
    return float(mpmath.log(sum(mpmath.exp(mpmath.mpf(x)) for x in fin)))


def units(ctx, model_ok):
    from tsdate import discrete
    rng = ctx.rng
    # ---- logsumexp
    vecs = [[]] + [rand_logvec(rng, rng.randint(1, 12)) for _ in range(ctx.n(50, 600))]
    impl = [float(discrete.LogLikelihoods.logsumexp(np.array(v, dtype=float))) for v in vecs]
    for v, a in zip(vecs, impl):
        ctx.case({"unit": "logsumexp", "x": v}, nontrivial=len([x for x in v if x != -math.inf]) >= 2, kind="unit/logsumexp")
        r = ref_logsumexp(v)
        if not D.close(a, r, rtol=1e-12, log=True):
            ctx.oracle_fail("logsumexp", "logsumexp(%r) = %r, log(sum(exp)) = %r" % (v, a, r), {"unit": "logsumexp", "x": v})
    if model_ok:
        body = "Eval vm_compute in map (logsumexp FNum neg_infinity fexp flog) %s.\n" % clist(vecs, D.cvec)
        got = ctx.coq_eval(D.PRELUDE + body, requires=COQ_REQ, tag="lse")[0]
        for v, a, b in zip(vecs, impl, got):
            ctx.corr("logsumexp", D.close(a, float(b), rtol=1e-12, log=True), "x=%r impl=%r model=%r" % (v, a, b),
                     {"unit": "logsumexp", "x": v, "impl": a, "model": b})
    # ---- triangular sums, ratio, index tables
    terms, expect = [], []
    for _ in range(ctx.n(16, 300)):
        G = rng.randint(2, 8)
        lin, log = lik_objects(G)
        tri = G * (G + 1) // 2
        for obj, P in ((lin, "LinF"), (log, "LogF")):
            islog = P == "LogF"
            if islog:
                arr = rand_logvec(rng, tri)
                v = rand_logvec(rng, G)
                w = rand_logvec(rng, G)
            else:
                arr = [0.0 if rng.random() < 0.2 else rng.random() * 10 ** rng.randint(-8, 3) for _ in range(tri)]
                v = [0.0 if rng.random() < 0.3 else rng.random() for _ in range(G)]
                w = [0.0 if rng.random() < 0.3 else rng.random() for _ in range(G)]
            a = np.array(arr, dtype=float)
            outs = [
                [float(x) for x in obj.rowsum_lower_tri(a)],
                [float(x) for x in obj.rowsum_upper_tri(a)],
                [float(x) for x in obj.ratio(np.array(v), np.array(w), div_0_null=True)],
                [float(x) for x in obj.ratio(np.array(v), np.array(w))],
                [float(x) for x in obj.make_lower_tri(np.array(v))],
                [float(x) for x in obj.make_upper_tri(np.array(v))],
            ]
            terms.append("[rowsum_lower_tri %s %d %s; rowsum_upper_tri %s %d %s; vratio0 %s %s %s; "
                         "map (fun xy => s_ratio %s (fst xy) (snd xy)) (combine %s %s); make_lower_tri %s %d %s; "
                         "make_upper_tri %s %d %s]"
                         % (P, G, D.cvec(arr), P, G, D.cvec(arr), P, D.cvec(v), D.cvec(w),
                            P, D.cvec(v), D.cvec(w), P, G, D.cvec(v), P, G, D.cvec(v)))
            expect.append((P, G, arr, v, w, outs))
            ctx.case({"unit": "tri", "space": P, "G": G, "arr": arr[:6]}, nontrivial=True, kind="unit/tri/" + P)
    if model_ok:
        got = ctx.coq_eval(D.PRELUDE + "Eval vm_compute in %s.\n" % clist(terms), requires=COQ_REQ, tag="tri")[0]
        names = ["rowsum_lower_tri", "rowsum_upper_tri", "ratio(div_0_null)", "ratio", "make_lower_tri", "make_upper_tri"]
        for (P, G, arr, v, w, outs), res in zip(expect, got):
            for nm, a, b in zip(names, outs, res):
                b = [float(x) for x in b]
                exact = nm.startswith(("ratio", "make"))
                ok = D.vec_close(a, b, rtol=0.0 if exact else 1e-12, log=(P == "LogF"))
                ctx.corr(P + "." + nm, ok, "G=%d impl=%r model=%r" % (G, a, b),
                         {"unit": nm, "space": P, "G": G, "arr": arr, "v": v, "w": w, "impl": a, "model": b})


# ---------------------------------------------------------------- whole runs
EPS_CHOICES = [0.0, 0.0, 0.0, 1e-300, None, 0.25, 1e-8, 1e-6, 1e-3, 0.1]   # None = the API default


def gen_cases(ctx, n_single, n_multi):
    cases = _gen_cases(ctx, n_single, n_multi)
    # eps is a caller-supplied parameter: boundary values included (exactly 0, tiny, default, large);
    # the SAME value is passed to both probability spaces
    for c in cases:
        c["eps"] = ctx.rng.choice(EPS_CHOICES)
        if ctx.rng.random() < 0.2:
            c["eps"] = D.random_eps(ctx.rng, c["grid"])       # incl. the class comparable to the grid spacing
    return cases


def direct(c):
    """the case as driven through Likelihoods directly (the API turns eps=None into 1e-8)"""
    return dict(c, eps=1e-8) if c["eps"] is None else c


def _gen_cases(ctx, n_single, n_multi):
    rng = ctx.rng
    cases = []
    shapes = [s for k in range(2, 6) for s in D.tree_shapes(k)]
    for _ in range(n_single):
        d = D.shape_to_tables(rng.choice(shapes), rng, L=rng.choice([1.0, 10.0, 1000.0]))
        d = D.canon(D.add_mutations(d, [rng.choice([0, 0, 1, 1, 2, 3]) for _ in d["edges"]], rng))
        if rng.random() < 0.5:
            d, _ = D.renumber(d, rng)
        cases.append(D.make_case(rng, d, kind="single", space=D.LOG, **run_options(ctx)))
    for _ in range(n_multi):
        d = D.sim_dict(rng, n=rng.randint(2, 6))
        if rng.random() < 0.7:
            d, _ = D.renumber(d, rng)
        unary = False
        if rng.random() < 0.2:
            d2 = D.add_unary_chain(d, rng)
            if d2 is not None:
                d, unary = d2, True
        cases.append(D.make_case(rng, d, kind="multi" + ("+unary" if unary else ""), space=D.LOG,
                                 allow_unary=unary, **run_options(ctx)))
    if ctx.tier == "thorough":
        for _ in range(10):       # a few larger inputs (oracle only; the linear space may underflow: premise)
            d = D.sim_dict(rng, n=rng.randint(12, 25), big=True)
            d, _ = D.renumber(d, rng)
            cases.append(D.make_case(rng, d, kind="big", space=D.LOG, **run_options(ctx)))
    return cases


def unbalanced_counts(rng, d):
    """very unbalanced per-edge mutation counts: none on most edges into non-sample nodes, 50-300 on some
    sample edges (the mutation clock then pushes a parent far from where a mutation-free edge wants it)"""
    counts = []
    for _l, _r, _p, c in d["edges"]:
        if d["nodes_flags"][c]:
            counts.append(rng.choice([0, 0, 1, 3, rng.randint(50, 300), rng.randint(50, 300)]))
        else:
            counts.append(rng.choice([0, 0, 0, 0, 1, rng.randint(50, 150)]))
    if max(counts) < 50:
        k = rng.choice([i for i, e in enumerate(d["edges"]) if d["nodes_flags"][e[3]]])
        counts[k] = rng.randint(50, 300)
    return counts


def gen_steep(ctx, n):
    """'steep dynamic range without underflow': small trees (hand-built shapes and msprime) whose edge
    likelihoods fall by many orders of magnitude across the time grid although every quantity stays
    representable; mutation_rate x span x grid range in {20, 40, 80, 150}, fine and coarse grids"""
    rng = ctx.rng
    shapes = [s for k in range(3, 6) for s in D.tree_shapes(k)]
    demo = ((), ((), ()))          # ((0,1)3,2)4, the shape of the reported example
    cases = []
    for k in range(n):
        r = rng.random()
        if r < 0.3:
            d = D.shape_to_tables(demo, rng, L=1.0)
            kind = "steep/demo-shape"
        elif r < 0.7:
            d = D.shape_to_tables(rng.choice(shapes), rng, L=rng.choice([1.0, 10.0]))
            kind = "steep/shape"
        else:
            d = D.sim_dict(rng, n=rng.randint(3, 5), trees=rng.choice(["single", "multi"]))
            d = dict(d, sites=[], mutations=[])
            for key in ("site_anc", "mut_der", "mut_time"):
                d.pop(key, None)
            kind = "steep/msprime"
        d = D.canon(d)
        heavy_rate = None
        if k % 3 == 2:
            # heavy load on multi-parent nodes (2-4 trees): 50-300 mutations on each parent edge, none below
            d = D.multiparent_family(rng) if rng.random() < 0.6 else D.canon(dict(D.sim_dict(rng, n=rng.randint(3, 6)), sites=[], mutations=[], **{}))
            for key in ("site_anc", "mut_der", "mut_time"):
                d.pop(key, None)
            d = D.canon(d)
            kind = "steep/heavy-multiparent"
        if kind == "steep/heavy-multiparent":
            heavy_rate = rng.choice([0.5, 1.0, 3.0, 10.0])
            # pmf(k; rate) stays above 1e-250 up to about k = 150 (rate 1) .. 230 (rate 10); a fifth go beyond
            cap = {0.5: 140, 1.0: 150, 3.0: 185, 10.0: 230}[heavy_rate]
            counts, _nm = D.heavy_parent_counts(rng, d, 50, 300 if rng.random() < 0.2 else cap)
        elif k % 5 == 0 and kind == "steep/demo-shape":
            counts = [100 if (d["nodes_flags"][c] and p == max(e[2] for e in d["edges"])) else 0
                      for _l, _r, p, c in d["edges"]]          # the reported example: 100 mutations on the root's sample edge
        else:
            counts = unbalanced_counts(rng, d)
        d = D.canon(D.add_mutations(d, counts, rng))
        T = rng.choice([0.6, 1.2, 3.0])
        G = rng.choice([5, 8, 13, 25])
        if rng.random() < 0.6:
            grid = [float(x) for x in np.linspace(0, T, G)]
        else:
            cuts = sorted(rng.random() for _ in range(G - 2))
            grid = [0.0] + [round(T * x, 6) for x in cuts] + [T]
            if len(set(grid)) < G:
                grid = [float(x) for x in np.linspace(0, T, G)]
        product = rng.choice([20, 40, 80, 150])
        if kind == "steep/heavy-multiparent":
            product = heavy_rate * d["L"]      # few expected mutations: the load is far above the clock
        mu = product / (d["L"] * T)
        o = D.random_options(rng, ctx.tier == "thorough")
        o["num_threads"] = None
        o["ignore_oldest_root"] = False
        o["share_priors"] = False
        built = rng.random() < 0.5
        o["prior_kind"] = "built" if built else "explicit"
        o["prior_timepoints"] = grid
        c = D.make_case(rng, d, grid=grid, space=D.LOG, mu=mu, kind=kind, steep=True, product=product,
                        offedge=0, exotic=False, ties=False, **o)
        c["eps"] = rng.choice([0.0, 1e-8, 1e-3, 1e-2])
        for u in c["prior"]:
            c["prior"][u][0] = 0.0           # no prior mass at time 0 for a parent (as in every built prior)
        cases.append(c)
    return cases


def run_options(ctx):
    """options of one case; the same values go to every call (both spaces, both methods)"""
    rng = ctx.rng
    o = D.random_options(rng, ctx.tier == "thorough")
    o["ignore_oldest_root"] = rng.random() < 0.3
    o["prior_kind"] = rng.choice(D.PRIOR_KINDS)
    o["prior_timepoints"] = rng.choice([4, 8, 20])
    o["share_priors"] = rng.random() < 0.3          # ONE priors object reused by all calls (state leaking)
    return o


def api_run(case, space, method, shared=None):
    import tsdate
    c = dict(case, space=space)
    ts = D.ts_from_dict(c["ts"])
    if shared is not None and "priors" in shared:
        pr = shared["priors"]              # the object a previous call (other space / method) has used
    else:
        pr = D.priors_for(c, ts)
        if shared is not None:
            shared["priors"] = pr
    extra = {"allow_unary": True} if c.get("allow_unary") else {}
    if method == "inside_outside":
        new, fit, lik = tsdate.inside_outside(
            ts, mutation_rate=D.opt(c, "mu", c["mu"]), priors=pr, eps=D.opt(c, "eps", c["eps"]),
            probability_space=space, num_threads=c.get("num_threads"),
            outside_standardize=D.opt(c, "out_std", bool(c.get("out_std", True))),
            ignore_oldest_root=D.opt(c, "ign", bool(c.get("ignore_oldest_root"))),
            cache_inside=D.opt(c, "cache", bool(c.get("cache_inside"))),
            return_fit=True, return_likelihood=True, record_provenance=False, **extra)
        post = fit.node_posteriors()
        post = np.array([[float(row[k]) for k in post.dtype.names] for row in post])
        mn = [n.metadata.get("mn") if n.metadata else None for n in new.nodes()]
        vr = [n.metadata.get("vr") if n.metadata else None for n in new.nodes()]
        return {"times": [float(x) for x in new.nodes_time], "post": post, "lik": float(lik), "mn": mn, "vr": vr,
                "grid": [float(x) for x in fit.lik.timepoints], "tab": table_range(fit, ts, space),
                "inside": D.inside_rows(fit, ts.num_nodes),
                "outside": [([float(a) for a in fit.outside[u]] if np.ndim(fit.outside[u]) == 1 else None)
                            for u in range(ts.num_nodes)]}
    new, fit = tsdate.maximization(ts, mutation_rate=D.opt(c, "mu", c["mu"]), priors=pr, eps=D.opt(c, "eps", c["eps"]),
                                   probability_space=space, num_threads=c.get("num_threads"),
                                   cache_inside=D.opt(c, "cache", bool(c.get("cache_inside"))),
                                   return_fit=True, record_provenance=False, **extra)
    return {"times": [float(x) for x in new.nodes_time], "pm": [float(x) for x in fit.posterior_mean],
            "grid": [float(x) for x in fit.lik.timepoints],
            "inside": D.inside_rows(fit, ts.num_nodes), "fit": fit}


def table_range(fit, ts, space):
    """(min, max) over the finite entries of the edge likelihood tables of a LOGARITHMIC run, leaving out
    the parent-at-timepoint-0 entries (the first timepoint carries no prior mass for a parent in these runs)"""
    if space != D.LOG:
        return None
    vals = []
    G = len(fit.lik.timepoints)
    for tab in fit.lik.unfixed_likelihood_cache.values():
        a = np.asarray(tab, dtype=float)[1:]          # row 0 of the lower triangle = parent at index 0
        vals.append(a[np.isfinite(a)])
    for e in ts.edges():
        if e.child in fit.lik.fixednodes:
            a = np.asarray(fit.lik.get_mut_lik_fixed_node(e), dtype=float)[1:]
            vals.append(a[np.isfinite(a)])
    vals = np.concatenate(vals) if vals else np.array([0.0])
    return (float(vals.min()), float(vals.max())) if len(vals) else (0.0, 0.0)


def underflow(lin_rows, log_rows):
    """a linear value is 0 / subnormal (or overflowed) where the logarithmic one is finite"""
    for a, b in zip(lin_rows, log_rows):
        if a is None:
            continue
        for x, y in zip(a, b):
            if math.isnan(x) or math.isinf(x):
                return True
            if y != -math.inf and not math.isnan(y) and abs(x) < 1e-290:
                return True
    return False


def rel_diff(a, b):
    if a is None or b is None:
        return 0.0 if a is b else math.inf
    if math.isnan(a) or math.isnan(b):
        return 0.0 if (math.isnan(a) and math.isnan(b)) else math.inf
    if a == b:
        return 0.0
    return abs(a - b) / max(abs(a), abs(b), 1e-300)


LOG_LO, LOG_HI = math.log(1e-250), math.log(1e250)


def log_moderate(log, strict=False):
    """no logarithmic value of the run is below -600: the linear run has no excuse to underflow.
    strict (steep-dynamic-range family): every finite quantity of the logarithmic run -- inside, outside,
    likelihood, edge likelihood tables -- lies inside [log 1e-250, log 1e250]"""
    vals = [log["lik"]]
    for rows in (log["inside"], log["outside"]):
        for r in rows:
            if r is not None:
                vals += [x for x in r if not math.isinf(x) and not math.isnan(x)]
    if not strict:
        return min(vals) > -600.0
    if log.get("tab"):
        vals += list(log["tab"])
    return min(vals) > LOG_LO and max(vals) < LOG_HI


def oracle_case(ctx, case, stats):
    """the property: both spaces, same input, same results"""
    rp = {"case": case}
    log = lin = None
    elog = elin = None
    shared = {} if case.get("share_priors") else None
    try:
        log = api_run(case, D.LOG, "inside_outside", shared)
    except Exception as e:
        elog = e
    try:
        lin = api_run(case, D.LIN, "inside_outside", shared)
    except Exception as e:
        elin = e
    if elog is not None:
        if elin is not None:
            # both spaces reject the input alike: with eps = 0 exactly the discretised model can give the
            # data probability 0 (more mutation-carrying edges in a chain than timepoints); no posterior exists
            ctx.tally("skipped/both-spaces-raise:" + type(elog).__name__)
            return
        ctx.oracle_fail("exception:" + type(elog).__name__,
                        "inside_outside raised %r in logarithmic space but returned in linear space" % (elog,), rp)
        return
    steep = bool(case.get("steep"))
    moderate = log_moderate(log, strict=steep)
    skip_io = False
    if steep:
        if not moderate:
            # outside the premise of the property (something leaves the double range): only counted;
            # the maximisation part below has its own, node-level premise
            ctx.tally("steep/outside-premise")
            skip_io = True
        else:
            ctx.tally("steep/in-premise")
    if elin is not None and skip_io:
        lin = None
    elif elin is not None:
        if moderate:
            ctx.oracle_fail("exception:" + type(elin).__name__,
                            "inside_outside (linear) raised %r although no logarithmic value is below -600" % (elin,), rp)
            return
        ctx.tally("skipped/linear-underflow-exception")
    if skip_io:
        pass
    elif lin is not None and (underflow(lin["inside"], log["inside"]) or underflow(lin["outside"], log["outside"])
                            or not lin["lik"] > 1e-290) and not moderate:
        ctx.tally("skipped/linear-underflow")
    elif lin is not None:
        worst = 0.0
        n = len(lin["times"])
        fixed = case["ts"]["nodes_flags"]
        for u in range(n):
            worst = max(worst, rel_diff(lin["times"][u], log["times"][u]))
            worst = max(worst, rel_diff(lin["mn"][u], log["mn"][u]), rel_diff(lin["vr"][u], log["vr"][u]))
            if not fixed[u]:
                for x, y in zip(lin["post"][u], log["post"][u]):
                    worst = max(worst, abs(x - y) if not (math.isnan(x) or math.isnan(y)) else math.inf)
        worst = max(worst, abs(math.log(lin["lik"]) - log["lik"]) / (1.0 + abs(log["lik"]))
                    if lin["lik"] > 0 else math.inf)
        stats["io"] = max(stats.get("io", 0.0), worst)
        if steep:
            stats["io_steep"] = max(stats.get("io_steep", 0.0), worst)
        if not worst <= TOL:
            ctx.oracle_fail("inside_outside-spaces-differ", "linear and logarithmic results differ by %.3g" % worst,
                            dict(rp, lin={k: lin[k] for k in ("times", "lik", "mn", "vr")},
                                 log={k: log[k] for k in ("times", "lik", "mn", "vr")}))
    mlog = mlin = None
    emlog = emlin = None
    try:
        mlog = api_run(case, D.LOG, "maximization", shared)
    except Exception as e:
        emlog = e
    try:
        mlin = api_run(case, D.LIN, "maximization", shared)
    except Exception as e:
        emlin = e
    if emlog is not None:
        if emlin is not None:
            ctx.tally("skipped/both-spaces-raise-max:" + type(emlog).__name__)
            return
        ctx.oracle_fail("exception:" + type(emlog).__name__,
                        "maximization raised %r in logarithmic space but returned in linear space" % (emlog,), rp)
        return
    if emlin is not None:
        if moderate:
            ctx.oracle_fail("exception:" + type(emlin).__name__,
                            "maximization (linear) raised %r although no logarithmic value is below -600" % (emlin,), rp)
        else:
            ctx.tally("skipped/linear-underflow-exception")
        return
    # (steep family: entries of the linear inside values may underflow to 0 far below the winners; the node-level
    #  premise of rule_check decides which nodes can be judged)
    if underflow(mlin["inside"], mlog["inside"]) and not moderate and not steep:
        ctx.tally("skipped/linear-underflow-max")
        return
    if mlin["pm"] != mlog["pm"]:
        # numerically tied timepoints may be broken differently: the log-space choice must satisfy the
        # documented rule evaluated in linear space up to 1e-9, and vice versa
        il = D.grid_index(mlin["grid"], mlog["pm"])
        info = {}
        lcase = dict(direct(case), space=D.LIN, grid=mlin["grid"])
        # a genuine tie: BOTH choices satisfy the documented rule (evaluated in log space from the linear run's
        # inside values) up to 1e-9
        bad = D.rule_check(lcase, mlin["inside"], il, tol=1e-9, info=info, lo=D.LOG_LO) \
            if None not in il else [("?", "off grid")]
        ilin = D.grid_index(mlin["grid"], mlin["pm"])
        bad += D.rule_check(lcase, mlin["inside"], ilin, tol=1e-9, info=info, lo=D.LOG_LO) \
            if None not in ilin else [("?", "off grid (linear)")]
        if not bad and info.get("outside_premise"):
            # the spaces differ only at nodes where the unchanged linear algorithm itself underflows
            ctx.tally("skipped/maximization-linear-underflow-at-node")
            return
        if bad:
            ctx.oracle_fail("maximization-spaces-differ",
                            "maximization picks %r in linear and %r in logarithmic space (no tie: %r)"
                            % (mlin["pm"], mlog["pm"], bad[:2]), rp)
        else:
            ctx.tally("maximization/tie-broken-differently")
    else:
        stats["max_equal"] = stats.get("max_equal", 0) + 1


def run(ctx, model_ok=True):
    if model_ok:
        D.check_float_funs(ctx)
    units(ctx, model_ok)
    cases = gen_cases(ctx, ctx.n(10, 150), ctx.n(16, 200)) + gen_steep(ctx, ctx.n(48, 150))
    # (b) whole runs, both classes against the model
    if model_ok:
        both = []
        for c in cases:
            if c["kind"] == "big" or c.get("steep"):
                continue
            both.append(direct(c))
            both.append(dict(direct(c), space=D.LIN))
        res = []
        for c in both:
            try:
                res.append(D.run_io_impl(c))
            except Exception as e:
                # e.g. eps = 0 exactly on an input to which the model gives probability 0: both classes raise;
                # whether the two spaces agree on that is decided by oracle_case below
                ctx.tally("correspondence-skipped/impl-raises:" + type(e).__name__)
                res.append(None)
        D.io_correspondence(ctx, both, res, COQ_REQ)
        # NodeTimeValues.force_probability_space: log of the prior rows
        for c, r in zip(both, res):
            if r is None or c["space"] != D.LOG:
                continue
            for u in c["nonfixed_order"]:
                with np.errstate(divide="ignore"):
                    want = [float(x) for x in np.log(np.array(c["prior"][str(u)], dtype=float))]
                ctx.corr("force_probability_space", D.vec_close(want, r["prior"][u], rtol=1e-15, log=True),
                         "node %d: %r vs %r" % (u, want, r["prior"][u]), {"case": c})
    # (c) the property itself
    stats = {}
    for c in cases:
        d = c["ts"]
        ctx.case(D.summary(c), nontrivial=len(d["mutations"]) > 0 and len(c["nonfixed_order"]) >= 2,
                 kind="run/" + c["kind"])
        oracle_case(ctx, c, stats)
    ctx.notes["max_lin_vs_log_difference"] = stats.get("io", 0.0)
    ctx.notes["max_lin_vs_log_difference_steep_family"] = stats.get("io_steep", 0.0)
    ctx.notes["tolerance"] = TOL


def search(ctx):
    stats = {}
    for c in gen_steep(ctx, ctx.n(150, 600)) + gen_cases(ctx, ctx.n(150, 600), ctx.n(250, 1000)):
        oracle_case(ctx, c, stats)
        if ctx.oracle_fails:
            return


def replay(ctx, data):
    case = data["case"]["case"]
    before = len(ctx.oracle_fails)
    oracle_case(ctx, case, {})
    return len(ctx.oracle_fails) == before
