"""Reference moments of the tilted distributions of tsdate/approx.py by numerical integration
(mpmath tanh-sinh).  Independent of the code's algebra (no hypergeometric identities): the
densities are integrated as they are written in the docstrings.  The only analytic step is
integrating out ONE scale variable of the two-node densities (a gamma integral), which leaves a
one-dimensional integral over a ratio in (0, 1); `check_2d` validates that step against brute
force two-dimensional quadrature.

Shapes are the gamma shapes (a = natural parameter + 1), rates the gamma rates."""
import math


def _mp():
    import mpmath
    mpmath.mp.dps = 25
    return mpmath


def logint(logf, lo, hi):
    """log of the integral of exp(logf) over (lo, hi); hi may be inf.  The interval is split around the
    mode so that the quadrature sees the peak; the integrand is scaled by its value at the mode."""
    mp = _mp()
    from scipy.optimize import minimize_scalar

    def fl(x):
        try:
            v = float(logf(mp.mpf(x)))
        except (ValueError, ZeroDivisionError, OverflowError, TypeError):
            return -1e300
        return v if v == v else -1e300
    if math.isinf(hi):
        grid = [10.0 ** (k / 2.0) for k in range(-600, 600)]
        best = max(grid, key=lambda g: fl(lo + g))
        a, b = lo + best / 10.0, lo + best * 10.0
    else:
        # endpoints may be singular: search on a grid that is fine near both ends
        w = hi - lo
        cand = [lo + w * 10.0 ** (-k / 4.0) for k in range(1, 120)] + [hi - w * 10.0 ** (-k / 4.0) for k in range(1, 60)]
        best = max(cand, key=fl)
        a, b = max(lo, best - abs(best - lo) * 0.9), min(hi, best + abs(hi - best) * 0.9)
        if not (a < b):
            a, b = lo, hi
    try:
        res = minimize_scalar(lambda x: -fl(x), bounds=(a, b), method="bounded", options={"xatol": 1e-13 * max(abs(a), abs(b))})
        m = float(res.x)
        if fl(m) < fl(best if not math.isinf(hi) else lo + best):
            m = best if not math.isinf(hi) else lo + best
    except Exception:
        m = 0.5 * (a + b)
    width = None
    h = min(abs(m - lo), abs(hi - m) if not math.isinf(hi) else abs(m - lo)) * 1e-3
    if h > 0 and h * h > 0:
        d2 = (fl(m + h) - 2 * fl(m) + fl(m - h)) / (h * h)
        if d2 < 0 and d2 == d2:
            width = 1.0 / math.sqrt(-d2)
    if width is None or not (width > 0):
        width = ((hi - lo) / 10.0) if not math.isinf(hi) else max(m - lo, 1e-300)
    pts = {lo, hi}
    for k in (-256, -64, -16, -6, -2, 0, 2, 6, 16, 64, 256, 4096):
        x = m + k * width
        if lo < x < hi:
            pts.add(x)
    # geometric points towards (possibly singular) finite endpoints
    for k in (1, 2, 4, 8, 16, 32):
        x = lo + (m - lo) * 10.0 ** (-k)
        if lo < x < hi:
            pts.add(x)
        if not math.isinf(hi):
            x = hi - (hi - m) * 10.0 ** (-k)
            if lo < x < hi:
                pts.add(x)
    pts = sorted(pts)
    M = logf(mp.mpf(m))
    val = mp.quad(lambda x: mp.exp(logf(x) - M), [mp.inf if math.isinf(p) else mp.mpf(p) for p in pts])
    return mp.log(val) + M


def xlog(c, x):
    """c * log(x) with the convention 0 * log(0) = 0 (the factor x^0 is 1)"""
    mp = _mp()
    if c == 0:
        return mp.mpf(0)
    return c * mp.log(x)


def _ratio(num, den):
    mp = _mp()
    return float(mp.exp(num - den))


def pair(a_i, b_i, a_j, b_j, y, mu):
    """approx.moments / mutation_moments: free parent i above free child j,
         (t_i - t_j)^y e^{-mu (t_i - t_j)} t_i^{a_i-1} e^{-b_i t_i} t_j^{a_j-1} e^{-b_j t_j},  0 < t_j < t_i.
    With t_j = u t_i the t_i-integral is a gamma integral:
         E[t_i^k t_j^l] ~ Gamma(A+k+l) Int_0^1 u^{a_j-1+l} (1-u)^y c(u)^{-(A+k+l)} du,
         A = a_i + a_j + y,  c(u) = b_i + mu + (b_j - mu) u   (needs c > 0 on [0, 1])."""
    mp = _mp()
    A = a_i + a_j + y
    if not (b_i + mu > 0 and b_i + b_j > 0):
        return None
    c = lambda u: (b_i + mu) + (b_j - mu) * u

    def I(k, l):
        p = A + k + l
        return logint(lambda u: xlog(a_j - 1 + l, u) + xlog(y, 1 - u) - p * mp.log(c(u)), 0.0, 1.0) + mp.loggamma(p)
    z = I(0, 0)
    e_i, e_ii, e_j, e_jj, e_ij = (_ratio(I(*kl), z) for kl in ((1, 0), (2, 0), (0, 1), (0, 2), (1, 1)))
    out = {"mn_i": e_i, "va_i": e_ii - e_i ** 2, "mn_j": e_j, "va_j": e_jj - e_j ** 2}
    out["mn_m"] = (e_i + e_j) / 2
    out["va_m"] = (e_ii + e_ij + e_jj) / 3 - out["mn_m"] ** 2
    return out


def rootward(t_j, a, b, y, mu):
    """approx.rootward_moments: fixed child at t_j, free parent:
         (t_i - t_j)^y e^{-mu (t_i - t_j)} t_i^{a-1} e^{-b t_i},  t_i > t_j   (x = t_i - t_j)"""
    mp = _mp()
    if not (mu + b > 0):
        return None

    def I(k):
        return logint(lambda x: xlog(y, x) - (mu + b) * x + xlog(a - 1 + k, x + t_j), 0.0, math.inf)
    if t_j == 0.0:
        def I(k):  # noqa: F811  plain gamma integral, still by quadrature
            return logint(lambda x: xlog(y + a - 1 + k, x) - (mu + b) * x, 0.0, math.inf)
    z = I(0)
    e1, e2 = _ratio(I(1), z), _ratio(I(2), z)
    out = {"mn": e1, "va": e2 - e1 ** 2}
    out["mn_m"] = (e1 + t_j) / 2
    out["va_m"] = (e2 + e1 * t_j + t_j * t_j) / 3 - out["mn_m"] ** 2
    return out


def leafward(t_i, a, b, y, mu):
    """approx.leafward_moments: fixed parent at t_i, free child:
         (t_i - t_j)^y e^{-mu (t_i - t_j)} t_j^{a-1} e^{-b t_j},  0 < t_j < t_i"""
    mp = _mp()

    def I(k):
        return logint(lambda t: xlog(y, t_i - t) + (mu - b) * t + xlog(a - 1 + k, t), 0.0, t_i)
    z = I(0)
    e1, e2 = _ratio(I(1), z), _ratio(I(2), z)
    out = {"mn": e1, "va": e2 - e1 ** 2}
    out["mn_m"] = (e1 + t_i) / 2
    out["va_m"] = (e2 + e1 * t_i + t_i * t_i) / 3 - out["mn_m"] ** 2
    return out


def unphased(a_i, b_i, a_j, b_j, y, mu):
    """approx.unphased_moments / mutation_unphased_moments: two free parents of a singleton block,
         (t_i + t_j)^y e^{-mu (t_i + t_j)} t_i^{a_i-1} e^{-b_i t_i} t_j^{a_j-1} e^{-b_j t_j},  t_i, t_j > 0.
    With t_i = s w, t_j = s (1 - w):  E[s^p g(w)] ~ Gamma(A+p) Int_0^1 g(w) w^{a_i-1} (1-w)^{a_j-1} d(w)^{-(A+p)} dw,
    d(w) = mu + b_i w + b_j (1 - w)."""
    mp = _mp()
    A = a_i + a_j + y
    if not (mu + b_i > 0 and mu + b_j > 0):
        return None
    d = lambda w: mu + b_i * w + b_j * (1 - w)

    def I(p, logg):
        return logint(lambda w: logg(w) + xlog(a_i - 1, w) + xlog(a_j - 1, 1 - w) - (A + p) * mp.log(d(w)), 0.0, 1.0) \
            + mp.loggamma(A + p)
    z = I(0, lambda w: 0)
    e_i = _ratio(I(1, lambda w: mp.log(w)), z)
    e_ii = _ratio(I(2, lambda w: 2 * mp.log(w)), z)
    e_j = _ratio(I(1, lambda w: mp.log(1 - w)), z)
    e_jj = _ratio(I(2, lambda w: 2 * mp.log(1 - w)), z)
    out = {"mn_i": e_i, "va_i": e_ii - e_i ** 2, "mn_j": e_j, "va_j": e_jj - e_j ** 2}
    # mutation: under parent i with probability t_i / (t_i + t_j) = w, then uniform on (0, t_i)
    out["pr_m"] = _ratio(I(0, lambda w: mp.log(w)), z)
    out["mn_m"] = _ratio(I(1, lambda w: mp.log((w * w + (1 - w) ** 2) / 2)), z)
    sq = _ratio(I(2, lambda w: mp.log((w ** 3 + (1 - w) ** 3) / 3)), z)
    out["va_m"] = sq - out["mn_m"] ** 2
    return out


def sideways(t_i, a, b, y, mu):
    """approx.sideways_moments / mutation_sideways_moments: one parent of a singleton block fixed at t_i,
         (t_i + t_j)^y e^{-mu (t_i + t_j)} t_j^{a-1} e^{-b t_j},  t_j > 0"""
    mp = _mp()
    if not (mu + b > 0):
        return None

    def I(logg):
        return logint(lambda t: logg(t) + xlog(y, t_i + t) - (mu + b) * t + xlog(a - 1, t), 0.0, math.inf)
    z = I(lambda t: 0)
    e1 = _ratio(I(lambda t: mp.log(t)), z)
    e2 = _ratio(I(lambda t: 2 * mp.log(t)), z)
    out = {"mn": e1, "va": e2 - e1 ** 2}
    out["pr_m"] = _ratio(I(lambda t: mp.log(t_i / (t_i + t))), z)
    out["mn_m"] = _ratio(I(lambda t: mp.log((t_i * t_i + t * t) / (2 * (t_i + t)))), z)
    sq = _ratio(I(lambda t: mp.log((t_i ** 3 + t ** 3) / (3 * (t_i + t)))), z)
    out["va_m"] = sq - out["mn_m"] ** 2
    return out


def twin(a, b, y, mu):
    """approx.twin_moments: (2 t)^y e^{-mu 2 t} t^{a-1} e^{-b t}, by quadrature as well"""
    mp = _mp()
    if not (b + 2 * mu > 0):
        return None

    def I(k):
        return logint(lambda t: xlog(y, 2 * t) - 2 * mu * t + xlog(a - 1 + k, t) - b * t, 0.0, math.inf)
    z = I(0)
    e1, e2 = _ratio(I(1), z), _ratio(I(2), z)
    return {"mn": e1, "va": e2 - e1 ** 2, "pr_m": 0.5, "mn_m": e1 / 2, "va_m": e2 / 3 - (e1 / 2) ** 2}


def check_2d(a_i, b_i, a_j, b_j, y, mu):
    """brute-force two-dimensional quadrature of the `pair` density (slow; validates the reduction)"""
    mp = _mp()
    sc = (a_i + y) / (b_i + mu)

    def f(k, l):
        return mp.quad(lambda ti: mp.quad(
            lambda tj: (ti - tj) ** y * mp.exp(-mu * (ti - tj)) * ti ** (a_i - 1 + k) * mp.exp(-b_i * ti)
            * tj ** (a_j - 1 + l) * mp.exp(-b_j * tj), [0, ti]), [0, sc, 4 * sc, 40 * sc, mp.inf])
    z = f(0, 0)
    return {"mn_i": float(f(1, 0) / z), "mn_j": float(f(0, 1) / z)}
