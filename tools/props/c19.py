"""C19 -- special-function and gamma-fitting helpers are accurate."""
import math

from props import _approx as A

ENV_BY_TIER = {"quick": {"NUMBA_DISABLE_JIT": "1"}, "thorough": {"NUMBA_DISABLE_JIT": "1"}}
LEVEL = "proof"

RULE = ("digamma / trigamma / betaln at log-uniform arguments in 1e-7..1e9 plus the code's thresholds (1e-5, 8.5, 1e-4, 5) "
        "and their neighbours, against mpmath at 40 digits; method-of-moments fits at log-uniform (mean, variance); KL fits "
        "at (mean, mean log) of true gammas with shape 1e-3..1e6 and rate 1e-8..1e8 plus invalid pairs; quantile fits at the "
        "quantiles of true gammas with shape 1e-2..5e3 for four quantile pairs and caps 1000 / 50 (both sides of the cap), "
        "equal and unsorted quantiles.  The translated digamma / trigamma / betaln / approximate_gamma_mom / "
        "approximate_gamma_kl / approximate_log_moments are also run on binary64 inside Coq against the implementation "
        "(incl. negative, zero, infinite and NaN arguments).  A case is non-trivial when the helper returns a value.")
ASSUME = [
    "tools/translate.py reads the Python of approx.py/hypergeo.py correctly (validated on every run by the float correspondence)",
    "mpmath (digamma, polygamma, loggamma at 40 digits) and scipy.special (gammainc, gammaincinv) are the references of the "
    "accuracy clauses, which are TESTED, not proved",
    "approximate_gamma_iqr is not translated (Newton loop over scipy's gammaincinv): it is covered by the oracle only",
]


def group():
    import translate
    g = translate.GROUPS["C19"]
    return g["hypergeo"] + g["approx"]


def regen(ctx):
    A.regen(ctx)


# Tolerances: measured on the unchanged tree (7500 arguments), see manifest note.
def tol_digamma(x):
    # x <= 1e-5: the code returns -gamma - 1/x and drops the next term zeta(2) x: relative 1.64 x^2 (1.6e-10 at 1e-5)
    return 2.0 * x * x + 1e-14 if x <= 1e-5 else 1e-12          # measured elsewhere: <= 7.5e-15 (mixed)


def tol_trigamma(x):
    # x <= 1e-4: returns 1/x^2 and drops zeta(2): relative 1.64 x^2 (1.6e-8 at 1e-4)
    if x <= 1e-4:
        return 2.0 * x * x + 1e-14
    return 5e-10 if x < 10.0 else 1e-13                        # measured: 3e-11 on [1, 5) (series cut at x >= 5), 9e-16 above


def real(name):
    return A.real_fn(name)


def oracle_special(ctx, n):
    import mpmath as mp
    mp.mp.dps = 40
    rng = ctx.rng
    dig, tri, bet = real("_digamma"), real("_trigamma"), real("_betaln")
    xs = [A.lu(rng, 1e-7, 1e9) for _ in range(n)]
    for t in (1e-5, 8.5, 1e-4, 5.0, 1.0, 2.0, 1.4616321449683623, 0.5):
        xs += [t, t * (1 + 2.0 ** -52), t * (1 - 2.0 ** -53), t * 1.001, t * 0.999]
    xs += [float(k) for k in range(1, 12)] + [k + 0.5 for k in range(0, 10)]
    for x in xs:
        d, r = dig(x), float(mp.digamma(x))
        e = abs(d - r) / max(1.0, abs(r))
        ctx.case({"fn": "_digamma", "x": x, "impl": d, "reference": r}, kind="oracle/_digamma")
        ctx.notes["max_err_digamma"] = max(ctx.notes.get("max_err_digamma", 0.0), e if x > 1e-5 else 0.0)
        if not e <= tol_digamma(x):
            ctx.oracle_fail("accuracy:_digamma", "digamma(%r) = %r, reference %r (error %.3g > %.3g)" % (x, d, r, e, tol_digamma(x)),
                            {"fn": "_digamma", "args": [x]})
        t_, r = tri(x), float(mp.polygamma(1, x))
        e = abs(t_ - r) / abs(r)
        ctx.case({"fn": "_trigamma", "x": x, "impl": t_, "reference": r}, kind="oracle/_trigamma")
        if not e <= tol_trigamma(x):
            ctx.oracle_fail("accuracy:_trigamma", "trigamma(%r) = %r, reference %r (error %.3g > %.3g)" % (x, t_, r, e, tol_trigamma(x)),
                            {"fn": "_trigamma", "args": [x]})
    for _ in range(n):
        p, q = A.lu(rng, 1e-6, 1e8), A.lu(rng, 1e-6, 1e8)
        if rng.random() < 0.3:
            p = float(rng.randint(1, 50))
        b = bet(p, q)
        lp, lq, lpq = mp.loggamma(p), mp.loggamma(q), mp.loggamma(p + q)
        r = float(lp + lq - lpq)
        # lgamma(p) + lgamma(q) - lgamma(p + q) in binary64: a few ulp of the largest summand
        scale = float(abs(lp) + abs(lq) + abs(lpq))
        ctx.case({"fn": "_betaln", "p": p, "q": q, "impl": b, "reference": r}, kind="oracle/_betaln")
        if not abs(b - r) <= 1e-14 * scale + 1e-14 * abs(r):
            ctx.oracle_fail("accuracy:_betaln", "betaln(%r, %r) = %r, reference %r" % (p, q, b, r), {"fn": "_betaln", "args": [p, q]})


def oracle_mom(ctx, n):
    f = real("approximate_gamma_mom")
    for _ in range(n):
        mean = A.lu(ctx.rng, 1e-8, 1e10)
        var = mean * mean * A.lu(ctx.rng, 1e-6, 1e4)
        out = A.run_py(f, [mean, var])
        ctx.case({"fn": "approximate_gamma_mom", "mean": mean, "var": var, "impl": A.jsonable(out)}, kind="oracle/mom/value")
        if isinstance(out, str):
            ctx.oracle_fail("mom:raises", "valid (mean, variance) rejected: %s" % out, {"fn": "approximate_gamma_mom", "args": [mean, var]})
            continue
        a, b = out
        if not (A.close((a + 1) / b, mean, 1e-12) and A.close((a + 1) / (b * b), var, 1e-12)):
            ctx.oracle_fail("mom:moments", "gamma(%r, %r) has mean %r var %r, requested %r %r" % (
                a + 1, b, (a + 1) / b, (a + 1) / b ** 2, mean, var), {"fn": "approximate_gamma_mom", "args": [mean, var]})
    for mean, var in ((0.0, 1.0), (1.0, 0.0), (-1.0, 1.0), (1.0, -1.0), (float("nan"), 1.0), (1.0, float("nan"))):
        out = A.run_py(f, [mean, var])
        ctx.case({"fn": "approximate_gamma_mom", "mean": repr(mean), "var": repr(var), "impl": A.jsonable(out)},
                 nontrivial=False, kind="oracle/mom/invalid")
        if out != "KLMinimizationFailedError":
            ctx.oracle_fail("mom:no-failure", "invalid moments (%r, %r) accepted: %r" % (mean, var, out),
                            {"fn": "approximate_gamma_mom", "args": [repr(mean), repr(var)]})


def oracle_kl(ctx, n):
    import mpmath as mp
    mp.mp.dps = 40
    f = real("approximate_gamma_kl")
    for _ in range(n):
        al, be = A.lu(ctx.rng, 1e-3, 1e6), A.lu(ctx.rng, 1e-8, 1e8)
        x, logx = al / be, float(mp.digamma(al) - mp.log(be))
        out = A.run_py(f, [x, logx])
        case = {"fn": "approximate_gamma_kl", "args": [x, logx], "true_shape": al, "true_rate": be, "impl": A.jsonable(out)}
        ctx.case(case, nontrivial=not isinstance(out, str), kind="oracle/kl/" + ("value" if not isinstance(out, str) else out))
        if isinstance(out, str):
            # "or report failure": allowed by the property; the unchanged tree never fails on these (measured)
            if out != "KLMinimizationFailedError":
                ctx.oracle_fail("kl:raises:" + out, "unexpected exception", case)
            else:
                ctx.tally("kl-reported-failure")
                ctx.oracle_fail("kl:fails-on-valid", "KL fit reports failure on the moments of Gamma(%r, %r)" % (al, be), case)
            continue
        a, b = out
        ml = float(mp.digamma(a + 1) - mp.log(b))
        ctx.notes["max_abs_err_meanlog_kl"] = max(ctx.notes.get("max_abs_err_meanlog_kl", 0.0), abs(ml - logx))
        if not A.close((a + 1) / b, x, 1e-12):
            ctx.oracle_fail("kl:mean", "returned gamma has mean %r, requested %r" % ((a + 1) / b, x), case)
        # Newton stops at a relative step of sqrt(eps) in the shape; measured |E log - requested| <= 8.1e-10
        if not abs(ml - logx) <= 2e-8:
            ctx.oracle_fail("kl:meanlog", "returned gamma has mean log %r, requested %r" % (ml, logx), case)
        if not a + 1 > 0:
            ctx.oracle_fail("kl:shape", "non-positive shape returned", case)
    for x, logx in ((0.0, 0.0), (-1.0, 0.0), (1.0, 0.0), (1.0, 1.0), (2.0, float("inf")), (2.0, float("-inf")), (2.0, float("nan"))):
        out = A.run_py(f, [x, logx])
        ctx.case({"fn": "approximate_gamma_kl", "x": repr(x), "logx": repr(logx), "impl": A.jsonable(out)},
                 nontrivial=False, kind="oracle/kl/invalid")
        if out != "KLMinimizationFailedError":
            ctx.oracle_fail("kl:no-failure", "invalid statistics (%r, %r) accepted: %r" % (x, logx, out),
                            {"fn": "approximate_gamma_kl", "args": [repr(x), repr(logx)]})


def oracle_iqr(ctx, n):
    import scipy.special as sc
    f = real("approximate_gamma_iqr")
    for _ in range(n):
        al, be = A.lu(ctx.rng, 1e-2, 5e3), A.lu(ctx.rng, 1e-8, 1e8)
        q1, q2 = ctx.rng.choice([(0.25, 0.75), (0.05, 0.95), (0.4, 0.6), (0.1, 0.5)])
        cap = ctx.rng.choice([1000.0, 1000.0, 50.0])
        x1, x2 = float(sc.gammaincinv(al, q1)) / be, float(sc.gammaincinv(al, q2)) / be
        if not (x2 > x1 > 0):
            continue
        out = A.run_py(f, [q1, q2, x1, x2, cap])
        case = {"fn": "approximate_gamma_iqr", "args": [q1, q2, x1, x2, cap], "true_shape": al, "true_rate": be,
                "impl": A.jsonable(out)}
        ctx.case(case, nontrivial=not isinstance(out, str), kind="oracle/iqr/" + ("capped" if al > cap else "free"))
        if isinstance(out, str):
            ctx.oracle_fail("iqr:raises:" + out, "quantile fit failed on the quantiles of Gamma(%r, %r)" % (al, be), case)
            continue
        a, b = out
        shape = a + 1
        lowq = float(sc.gammainc(shape, b * x1))
        if shape > cap * (1 + 1e-12):
            ctx.oracle_fail("iqr:cap", "returned shape %r exceeds the cap %r" % (shape, cap), case)
        if not abs(lowq - q1) <= 1e-10:
            ctx.oracle_fail("iqr:lower-quantile", "lower quantile of the returned gamma is at probability %r, requested %r" % (lowq, q1), case)
        if al > cap * 1.001:
            if not A.close(shape, cap, 1e-12):
                ctx.oracle_fail("iqr:not-capped", "shape should be capped at %r, got %r" % (cap, shape), case)
        elif al < cap * 0.999:
            ratio = float(sc.gammaincinv(shape, q2) / sc.gammaincinv(shape, q1))
            if not A.close(ratio, x2 / x1, 1e-9):          # measured <= 9.3e-13
                ctx.oracle_fail("iqr:ratio", "quantile ratio of the returned gamma %r, requested %r" % (ratio, x2 / x1), case)
    # equal quantiles -> capped shape with the lower quantile matched; unsorted -> failure
    for cap in (1000.0, 50.0):
        x = A.lu(ctx.rng, 1e-6, 1e6)
        out = A.run_py(f, [0.25, 0.75, x, x, cap])
        ctx.case({"fn": "approximate_gamma_iqr", "args": [0.25, 0.75, x, x, cap], "impl": A.jsonable(out)}, kind="oracle/iqr/equal")
        if isinstance(out, str) or not (A.close(out[0] + 1, cap, 1e-12)
                                        and abs(float(sc.gammainc(cap, out[1] * x)) - 0.25) <= 1e-10):
            ctx.oracle_fail("iqr:equal-quantiles", "x1 == x2 must give the capped shape with the lower quantile matched: %r" % (out,),
                            {"fn": "approximate_gamma_iqr", "args": [0.25, 0.75, x, x, cap]})
    for args in ([0.75, 0.25, 1.0, 2.0, 1000.0], [0.25, 0.75, 2.0, 1.0, 1000.0]):
        out = A.run_py(f, args)
        ctx.case({"fn": "approximate_gamma_iqr", "args": args, "impl": A.jsonable(out)}, nontrivial=False, kind="oracle/iqr/unsorted")
        if out != "KLMinimizationFailedError":
            ctx.oracle_fail("iqr:unsorted-accepted", "unsorted quantiles accepted: %r" % (out,), {"fn": "approximate_gamma_iqr", "args": args})


def oracle(ctx, k=1):
    oracle_special(ctx, ctx.n(400, 4000) * k)
    oracle_mom(ctx, ctx.n(200, 2000) * k)
    oracle_kl(ctx, ctx.n(150, 1500) * k)
    oracle_iqr(ctx, ctx.n(150, 1500) * k)


_JIT_ORACLE = r'''
import sys, json
sys.path.insert(0, %(tools)r)
from vlib.main import Ctx
from props import _approx as A, c19
ctx = Ctx("C19", "quick", %(seed)d)
A.regen(None)
c19.oracle(ctx, 3)
json.dump({"fails": [[s, d, A.jsonable(r)] for s, d, r in ctx.oracle_fails[:20]], "cases": ctx.evaluations}, sys.stdout)
'''


def jit_oracle(ctx):
    """the same oracle on the numba-COMPILED helpers (separate process, JIT on)"""
    import json
    import os
    import subprocess
    import sys
    env = dict(os.environ)
    env.pop("NUMBA_DISABLE_JIT", None)
    tools = os.path.abspath(os.path.join(os.path.dirname(__file__), ".."))
    p = subprocess.run([sys.executable, "-c", _JIT_ORACLE % {"tools": tools, "seed": ctx.seed}],
                       capture_output=True, text=True, env=env, timeout=2400)
    if p.returncode != 0:
        ctx.tie_fail("harness", "jit-oracle-subprocess", p.stderr[-1500:])
        return
    res = json.loads(p.stdout[p.stdout.index("{"):])
    ctx.notes["jit_oracle_cases"] = res["cases"]
    for s, d, r in res["fails"]:
        ctx.oracle_fail(s + "[numba-compiled]", d, r)


def run(ctx, model_ok=True):
    if model_ok:
        with A.phase(ctx, "float_correspondence"):
            A.correspondence(ctx, group(), ctx.n(40, 500))
    with A.phase(ctx, "oracle"):
        oracle(ctx)
    if ctx.tier == "thorough":
        with A.phase(ctx, "jit_oracle"):
            jit_oracle(ctx)


def search(ctx):
    oracle(ctx, 5)


def replay(ctx, data):
    case = data["case"]
    A.regen(None)
    args = [float(x) for x in case["args"]]
    fn = case["fn"]
    before = len(ctx.oracle_fails)
    ctx.tier = "quick"
    import random
    ctx.rng = random.Random(0)
    # re-run the clause that concerns this function on the saved arguments
    import mpmath as mp
    mp.mp.dps = 40
    if fn == "_digamma":
        x = args[0]
        d, r = real(fn)(x), float(mp.digamma(x))
        return abs(d - r) / max(1.0, abs(r)) <= tol_digamma(x)
    if fn == "_trigamma":
        x = args[0]
        t, r = real(fn)(x), float(mp.polygamma(1, x))
        return abs(t - r) / abs(r) <= tol_trigamma(x)
    out = A.run_py(real(fn), args)
    print("implementation returns", out)
    return not isinstance(out, str)
