"""C21 -- EP message bookkeeping is consistent after every iteration."""
import numpy as np

from props import _ep as E

ENV_BY_TIER = {"quick": {"NUMBA_DISABLE_JIT": "1"}, "thorough": {}}

RULE = ("(a) tape cases: msprime tree sequences (haploid, diploid with unphased singletons, historical and "
        "internal samples, chains of locally unary nodes with allow_unary, stars incl. 25-60-leaf stars that push "
        "the scale below TINY), 40% of them decorated by gen.exotic (extra node flag bits, renumbering of all "
        "nodes, mutations above local roots, mutation-free sites, unknown mutation times, arbitrary allele states, "
        "populations) x mutation_rate x "
        "max_shape (1.0001..1000, 60% small so that the cap and the scale vector are active) x min_step x "
        "regularise x 1-3 iterations, run through ExpectationPropagation.iterate with every approx projection "
        "recorded and replayed through the Gallina model; (b) random operation sequences (block/edge passes over "
        "random edge multisets, prior, _rescale_factors) called directly on the implementation; (c) real "
        "tsdate.date(variational_gamma) calls with iterate() observed (rescaling off by intervals=0 or iterations=0 / on, "
        "match_segregating_sites both ways, numpy-typed option scalars on 30%). A case is non-trivial when at least one "
        "projection ran; distinct by content hash")
ASSUME = ["the approx.*_projection results are replayed, not recomputed (the theorems hold for arbitrary projections)",
          "np.mean over fewer than 8 free roots is a left-to-right sum (cases with >= 8 unconstrained roots are "
          "replayed only when regularise is off)",
          "tape recording runs the pure-Python kernels (NUMBA_DISABLE_JIT=1); the property oracle also runs "
          "the numba-compiled kernels in the thorough tier"]
RTOL = 1e-9


# ---------------------------------------------------------------- the property, on implementation state
def check_state(ctx, static, state, where, case, scale_one=True):
    """post == scale * (sum of messages) for every node; scale == 1 after iterate; fixed nodes zero"""
    po = np.asarray(state["post"], dtype=float)
    sc = np.asarray(state["scale"], dtype=float)
    asm = E.assemble(static, state)
    if not np.all(np.isfinite(po)) or not np.all(np.isfinite(asm)):
        ctx.tally("nonfinite-state")
        return True
    ok = True
    # relative to the magnitude of what is summed: messages of both signs cancel, so the rounding error
    # of the sum scales with sum |messages| (a posterior of 1e-17 next to messages of size 1 is "zero")
    mag = np.maximum(np.maximum(np.abs(po), np.abs(asm * sc[:, None])), E.assemble_abs(static, state) * np.abs(sc[:, None]))
    # ... and never below the rounding level of the state as a whole: a message that should be exactly 0 is
    # computed as (new posterior - cavity)/scale and comes out as a residue ~1e-16 x the size of its operands
    # (measured: -1.5e-31 next to parameters of size 1); floor = 1e-6 x the largest entry of that component
    mag = np.maximum(mag, 1e-6 * np.max(mag, axis=0, keepdims=True))
    err = np.abs(po - asm * sc[:, None])
    if not np.all(err <= 1e-300 + RTOL * mag):
        bad = int(np.argmax(np.max(err / np.maximum(mag, 1e-300), axis=1)))
        ctx.oracle_fail("sum-of-messages:" + where,
                        "node %d: posterior %r but scale*sum of messages %r" % (bad, po[bad].tolist(), (asm[bad] * sc[bad]).tolist()),
                        {"case": case, "where": where, "node": bad})
        ok = False
    if scale_one and not np.all(sc == 1.0):
        ctx.oracle_fail("scale-not-absorbed:" + where, "scale after iterate: %r" % sc.tolist()[:20],
                        {"case": case, "where": where})
        ok = False
    con = np.asarray(static["constraints"], dtype=float)
    fixed = con[:, 0] == con[:, 1]
    if np.any(po[fixed] != 0.0):
        ctx.oracle_fail("fixed-node-written:" + where, "a fixed node has a non-zero posterior",
                        {"case": case, "where": where})
        ok = False
    return ok


def check_static(ctx, case, static):
    """what __init__ hands to iterate(): the prior is applied to exactly the unconstrained roots
    (parent of some edge, child of none, lower != upper constraint), by node id whatever the numbering"""
    con = np.asarray(static["constraints"], dtype=float)
    fixed = con[:, 0] == con[:, 1]
    n = len(fixed)
    has_parent = np.zeros(n, dtype=bool)
    has_child = np.zeros(n, dtype=bool)
    for p, c in static["edges"]:
        has_parent[c] = True
        has_child[p] = True
    free = np.asarray(static["free"], dtype=bool)
    if np.any(free & fixed):
        ctx.oracle_fail("prior-on-fixed-node", "unconstrained_roots contains node %d whose age is fixed"
                        % int(np.flatnonzero(free & fixed)[0]), {"case": case, "where": "static"})
        return
    exp = has_child & ~has_parent & ~fixed
    ctx.corr("unconstrained_roots", bool(np.array_equal(free, exp)),
             "impl %r expected %r" % (np.flatnonzero(free).tolist(), np.flatnonzero(exp).tolist()), replay={"case": case})


def oracle_recorded(ctx, case, rec):
    check_static(ctx, case, rec["static"])
    for it, st in enumerate(rec.get("states", [])):
        check_state(ctx, rec["static"], st, "iterate", case)


# ---------------------------------------------------------------- operation sequences on the implementation
def opseq(ctx, case, rng, steps=None):
    """random interleavings of the operations of iterate(), called directly; the invariant with
    the scale vector is checked after every operation"""
    import tsdate.variational as V
    ts = E.case_ts(case)
    o = case["opts"]
    try:
        ep = E.new_ep(ts, o)
    except (ValueError, AssertionError):
        return 0
    static = E.static_of(ep)
    nE, nB = len(static["edges"]), len(static["block_edges"])
    done = 0
    seq = case.get("ops")
    if seq is None:
        seq = []
        for _ in range(steps or rng.randint(3, 8)):
            kind = rng.choice(["edges", "edges", "blocks", "prior", "rf"])
            if kind == "edges":
                seq.append(["edges", [rng.randrange(nE) for _ in range(rng.randint(1, 2 * nE))]])
            elif kind == "blocks" and nB:
                seq.append(["blocks", [rng.randrange(nB) for _ in range(rng.randint(1, 2 * nB))]])
            elif kind == "prior":
                seq.append(["prior"])
            else:
                seq.append(["rf"])
        case = dict(case, ops=seq)
    for op in seq:
        try:
            with np.errstate(all="ignore"):
                if op[0] == "edges":
                    ep.propagate_likelihood(np.array(op[1], dtype=np.int32), ep.edge_parents, ep.edge_children,
                                            ep.edge_likelihoods, ep.node_constraints, ep.node_posterior, ep.factors,
                                            ep.edge_logconst, float(o["max_shape"]), float(o["min_step"]), False)
                elif op[0] == "blocks":
                    ep.propagate_likelihood(np.array(op[1], dtype=np.int32), ep.block_nodes[0], ep.block_nodes[1],
                                            ep.block_likelihoods, ep.node_constraints, ep.node_posterior, ep.factors,
                                            ep.block_logconst, float(o["max_shape"]), float(o["min_step"]), True)
                elif op[0] == "prior":
                    ep.propagate_prior(ep.unconstrained_roots, ep.node_posterior, ep.factors,
                                       float(o["max_shape"]), 10, 1e-8)
                else:
                    V._rescale_factors(ep.factors)
        except (AssertionError, ZeroDivisionError, FloatingPointError):
            ctx.tally("opseq-assert")
            break
        done += 1
        if not check_state(ctx, static, E.snapshot(ep), "opseq-" + op[0], case, scale_one=(op[0] == "rf")):
            break
    return done


# ---------------------------------------------------------------- real date() calls
def date_run(ctx, case):
    """tsdate.date(method=variational_gamma) with ExpectationPropagation.iterate observed"""
    import tsdate
    import tsdate.variational as V
    ts = E.case_ts(case)
    o = case["opts"]
    seen = []
    orig = V.ExpectationPropagation.iterate

    def watched(self, **kw):
        orig(self, **kw)
        seen.append((E.static_of(self), E.snapshot(self)))

    V.ExpectationPropagation.iterate = watched
    fit = None
    def ty(x):    # numpy-typed scalars instead of Python ones on part of the calls
        if not o.get("np_types"):
            return x
        return np.bool_(x) if isinstance(x, bool) else (np.int64(x) if isinstance(x, int) else np.float64(x))
    try:
        with np.errstate(all="ignore"):
            _dts, fit = tsdate.date(ts, mutation_rate=ty(o["mutation_rate"]), method="variational_gamma",
                                    max_iterations=ty(o["iterations"]), max_shape=ty(o["max_shape"]),
                                    regularise_roots=ty(o["regularise"]), singletons_phased=ty(o["singletons_phased"]),
                                    rescaling_intervals=ty(o.get("rescaling_intervals", 0)),
                                    rescaling_iterations=ty(o.get("rescaling_iterations", 5)),
                                    match_segregating_sites=ty(o.get("segsites", False)),
                                    allow_unary=o.get("allow_unary", False), return_fit=True, progress=False)
    except Exception as e:   # rejected inputs / known rescaling assertions are other properties' business
        ctx.tally("date-raised-" + type(e).__name__)
    finally:
        V.ExpectationPropagation.iterate = orig
    for k, (static, st) in enumerate(seen):
        check_state(ctx, static, st, "date-iterate", case)
    if fit is not None:
        mn, va = fit.node_moments()
        samples = ts.samples()
        if not (np.array_equal(mn[samples], ts.nodes_time[samples]) and np.all(va[samples] == 0.0)):
            ctx.oracle_fail("sample-moments", "node_moments of a sample differs from its time / zero variance",
                            {"case": case, "where": "date"})
    return len(seen)


def date_case(rng):
    c = E.make_case(rng, kind=rng.choice(["plain", "diploid", "diploid", "historical", "internal", "dip-internal",
                                            "star", "unary"]))
    o = c["opts"]
    o["iterations"] = rng.choice([1, 2, 5])
    # the two ways of switching rescaling off (either count exactly 0) and on; both count arrays
    o["rescaling_intervals"], o["rescaling_iterations"] = rng.choice([(0, 5), (0, 5), (5, 0), (5, 3), (1, 1)])
    o["segsites"] = rng.random() < 0.4
    o["np_types"] = rng.random() < 0.3
    return c


# ---------------------------------------------------------------- driver entry points
def tape_cases(ctx, n):
    cases = []
    for k in range(n):
        kind = "star-big" if k % 12 == 5 else None
        cases.append(E.make_case(ctx.rng, kind=kind))
    return cases


def modelable(rec):
    """np.mean is modelled as the plain loop numpy uses below 8 elements"""
    return "static" in rec and (sum(rec["static"]["free"]) < 8)


def run(ctx, model_ok=True):
    cases = tape_cases(ctx, ctx.n(30, 150))
    recs = E.record_all(cases)
    keep = [(c, r) for c, r in zip(cases, recs) if "static" in r]
    for c, r in zip(cases, recs):
        if "static" not in r:
            ctx.tally("rejected-" + r["status"][:40])
    if model_ok:
        pairs = [(c, r) for c, r in keep if modelable(r) or not c["opts"]["regularise"]]
        E.correspondence(ctx, [c for c, _ in pairs], [r for _, r in pairs])
    for c, r in keep:
        s = r["static"]
        ctx.case({"kind": c["kind"], "opts": c["opts"], "nodes": len(s["constraints"]), "edges": len(s["edges"]),
                  "blocks": len(s["block_edges"]), "projection_calls": len(r["tape"]), "status": r["status"]},
                 nontrivial=len(r["tape"]) > 0, kind="tape/" + c["kind"])
        oracle_recorded(ctx, c, r)
        for k in c.get("exotic", []):
            ctx.tally("exotic-" + k)
    for _ in range(ctx.n(40, 300)):
        c = E.make_case(ctx.rng)
        d = opseq(ctx, c, ctx.rng)
        ctx.case({"kind": c["kind"], "opts": c["opts"], "ops_done": d, "exotic": c.get("exotic", [])}, nontrivial=d > 0, kind="opseq/" + c["kind"])
        for k in c.get("exotic", []):
            ctx.tally("exotic-" + k)
    for _ in range(ctx.n(25, 200)):
        c = date_case(ctx.rng)
        k = date_run(ctx, c)
        ctx.case({"kind": c["kind"], "opts": c["opts"], "iterations_seen": k, "exotic": c.get("exotic", [])}, nontrivial=k > 0, kind="date/" + c["kind"])
        for kk in c.get("exotic", []):
            ctx.tally("exotic-" + kk)


def search(ctx):
    """a tie broke: larger oracle-only search on the implementation"""
    for _ in range(ctx.n(150, 600)):
        c = E.make_case(ctx.rng, small_shape=True)
        opseq(ctx, c, ctx.rng)
        if ctx.oracle_fails:
            return
        date_run(ctx, date_case(ctx.rng))
        if ctx.oracle_fails:
            return


def replay(ctx, data):
    payload = data["case"]
    case = payload["case"]
    before = len(ctx.oracle_fails)
    where = payload.get("where", "")
    if where.startswith("opseq"):
        opseq(ctx, case, ctx.rng)
    elif where.startswith("date"):
        date_run(ctx, case)
    else:
        rec = E.record_all([case])[0]
        if "static" in rec:
            oracle_recorded(ctx, case, rec)
    return len(ctx.oracle_fails) == before
