"""C09 -- results are deterministic and independent of thread count."""
import hashlib
import json
import os
import pickle
import subprocess
import sys
import numpy as np
from props import _dating as D
from vlib.coqfmt import cZ, cnat, clist

ENV_BY_TIER = {"quick": {"NUMBA_DISABLE_JIT": "1"}, "thorough": {}}
RULE = ("(a) repeated identical calls in one process; (b) the same calls in fresh subprocesses with "
        "PYTHONHASHSEED in {0, 1, 12345}; (c) discrete-time methods with num_threads in {None, 1, 2, 4}; all must be "
        "bit-identical (tables minus provenance); (d) one prior object reused across log/linear/log calls vs fresh "
        "priors (1e-6 relative; measured 2e-7); (d') approximate priors with a cold then warm on-disk lookup table "
        "(redirected cache dir) must give bit-identical grids and dates; (e) ties of the Coq models: the likelihood cache filled by "
        "precalculate_mutation_likelihoods vs model gather on a shuffled result list, and the conversions done by "
        "NodeTimeValues.force_probability_space vs model conv_trace; (f) array-valued population_size objects reused across three calls vs freshly built equal objects, caller's objects compared with a snapshot; non-trivial = the call returned")
ASSUME = ["scheduler / hash-seed effects are only sampled (a theorem cannot exhibit them)",
          "multiprocessing.Pool delivers each result exactly once"]


def digest(out):
    """bytes of everything but provenance"""
    t = out.dump_tables()
    t.provenances.clear()
    h = hashlib.sha256()
    for name in ("nodes", "edges", "sites", "mutations", "individuals", "populations", "migrations"):
        tab = getattr(t, name)
        for col, arr in sorted(tab.asdict().items()):
            if isinstance(arr, np.ndarray):
                h.update(col.encode())
                h.update(np.ascontiguousarray(arr).tobytes())
    h.update(str(t.time_units).encode())
    return h.hexdigest()


CHILD = r"""
import pickle, sys, warnings
warnings.simplefilter("ignore")
sys.path.insert(0, %(tools)r)
from props import _dating as D
from props.c09 import digest
import tskit
cases = pickle.load(open(%(inp)r, "rb"))
out = []
for method, tables, kw in cases:
    r = D.call(method, tables.tree_sequence(), **kw)
    out.append(digest(r[1]) if r[0] == "ok" else "raise:" + r[1] + ":" + r[2][:80])
pickle.dump(out, open(%(outp)r, "wb"))
"""


def subprocess_digests(ctx, cases, hashseed):
    inp = os.path.join(ctx.work, "c09_in.pkl")
    outp = os.path.join(ctx.work, "c09_out_%s.pkl" % hashseed)
    pickle.dump([(m, ts.dump_tables(), kw) for m, ts, kw in cases], open(inp, "wb"))
    env = dict(os.environ, PYTHONHASHSEED=str(hashseed))
    code = CHILD % {"tools": os.path.join(os.path.dirname(__file__), ".."), "inp": inp, "outp": outp}
    p = subprocess.run([sys.executable, "-c", code], env=env, capture_output=True, text=True, timeout=1800)
    if p.returncode != 0:
        raise RuntimeError("child failed: " + p.stderr[-800:])
    return pickle.load(open(outp, "rb"))


def cache_tie(ctx, rng):
    """implementation's likelihood cache after a threaded fill == model gather of the shuffled results"""
    import tsdate.discrete as disc
    from tsdate import prior as tprior
    ts = D.datable_ts(rng, historical=False)
    grid = np.array([0, 0.1, 0.5, 1.0, 2.0, 5.0])
    lik = disc.Likelihoods(ts, grid, mutation_rate=1e-2, eps=1e-6)
    lik.precalculate_mutation_likelihoods(num_threads=rng.choice([1, 2]))
    cache = lik.unfixed_likelihood_cache
    keys = list(cache.keys())
    if not keys:
        return
    # value identifiers: index of the key in a reference single-thread computation
    ref = disc.Likelihoods(ts, grid, mutation_rate=1e-2, eps=1e-6)
    ref.precalculate_mutation_likelihoods(num_threads=1)
    ids = {k: i for i, k in enumerate(keys)}
    for k in keys:
        if not np.array_equal(cache[k], ref.unfixed_likelihood_cache[k]):
            ctx.oracle_fail("cache-differs-by-threads", "likelihood cache entry %r differs between thread counts" % (k,),
                            {"level": "cache"})
            return
    results = [(k, ids[k]) for k in keys]
    rng.shuffle(results)
    zk = lambda k: "(%s, %s)" % (cZ(int(k[0])), cZ(int(round(k[1]))))
    body = "Eval vm_compute in gather_lookup %s %s %s.\n" % (
        clist(keys, zk), clist(results, lambda r: "(%s, %s)" % (zk(r[0]), cnat(r[1]))), clist(keys, zk))
    res = ctx.coq_eval(body, requires=("lib.Num", "model.Gather"), tag="gather")[0]
    model = [r[1][1] if (r is not None and r[1] is not None) else None for r in res]
    ctx.corr("likelihood-cache == gather(shuffled results)", model == [ids[k] for k in keys],
             "model=%r keys=%r" % (model, keys))
    ctx.case({"level": "cache", "keys": [[int(k[0]), float(k[1])] for k in keys][:8]}, nontrivial=len(keys) > 1, kind="cache-tie")


def space_tie(ctx, rng):
    """NodeTimeValues.force_probability_space applies exactly the conversions conv_trace predicts"""
    from tsdate import node_time_class as ntc
    n = 4
    nonfixed = np.array([2, 3])
    obj = ntc.NodeTimeValues(n, nonfixed, np.array([0.0, 1.0, 2.0, 3.0, 4.0]), fill_value=np.nan, dtype=ntc.FLOAT_DTYPE)
    vals = np.array([[0.0, 0.3, 1.0, 0.2, 0.01], [0.0, 1.0, 0.5, 0.25, 0.0]])
    obj.grid_data[:] = vals
    obj.probability_space = ntc.LIN_GRID
    ss = [rng.choice(["LIN", "LOG"]) for _ in range(rng.randint(1, 6))]
    body = "Eval vm_compute in conv_trace LIN %s.\n" % clist(ss)
    res = ctx.coq_eval(body, requires=("lib.Num", "model.Gather"), tag="space")[0]
    ops = [o[1] if isinstance(o, tuple) else o for o in res]
    expect = vals.copy()
    with np.errstate(divide="ignore", invalid="ignore"):
        for o in ops:
            expect = np.exp(expect) if o == "OpExp" else np.log(expect)
        for s in ss:
            obj.force_probability_space(ntc.LIN_GRID if s == "LIN" else ntc.LOG_GRID)
    ok = np.array_equal(obj.grid_data, expect, equal_nan=True) and \
        obj.probability_space == (ntc.LIN_GRID if ss[-1] == "LIN" else ntc.LOG_GRID)
    ctx.corr("force_probability_space == conv_trace", ok, "spaces=%r ops=%r" % (ss, ops))
    ctx.case({"level": "space", "spaces": ss, "ops": ops}, nontrivial=len(ops) > 0, kind="space-tie")


def cold_warm(ctx, rng):
    """approximate priors go through an on-disk lookup table: the call that creates it (cold) and every
    later call that reads it back (warm, same or fresh process) must give bit-identical prior grids and dates"""
    import tempfile
    import tsdate
    from vlib import gen
    from tsdate import cache as tcache
    old = os.environ.get("XDG_CACHE_HOME")
    d = tempfile.mkdtemp(dir=ctx.work)
    os.environ["XDG_CACHE_HOME"] = d
    try:
        if not os.path.abspath(str(tcache.get_cache_dir())).startswith(os.path.abspath(d)):
            ctx.notes["cold_warm"] = "skipped: cache directory could not be redirected"
            return
        ts = D.datable_ts(rng, historical=False, big=True)
        n = rng.choice([10, 100, 1000])
        dist = rng.choice(["lognorm", "gamma"])
        grids, digests = [], []
        for _k in range(3):   # cold, warm, warm
            g = tsdate.build_prior_grid(ts, population_size=1.0, approximate_priors=True, approx_prior_size=n,
                                        prior_distribution=dist)
            grids.append((np.array(g.grid_data), np.array(g.timepoints)))
            r = D.call("inside_outside", ts, mutation_rate=1e-2, priors=g)
            digests.append(digest(r[1]) if r[0] == "ok" else "raise:" + r[1])
        ctx.case({"check": "cold/warm approximate prior table", "approx_prior_size": n, "dist": dist,
                  "ts": gen.ts_summary(ts)}, nontrivial=True, kind="cold-warm")
        replay = {"ts": gen.ts_tables_dict(ts), "approx_prior_size": n, "dist": dist}
        for k in (1, 2):
            if not (np.array_equal(grids[0][0], grids[k][0], equal_nan=True) and np.array_equal(grids[0][1], grids[k][1])):
                ctx.oracle_fail("cold-warm-prior-differs", "prior grid built while the lookup table was being created differs "
                                "from the one built from the cached file (approx_prior_size=%d, %s)" % (n, dist), replay)
                return
            if digests[0] != digests[k]:
                ctx.oracle_fail("cold-warm-dates-differ", "dates of the first (cold cache) call differ from a later (warm cache) call", replay)
                return
    finally:
        if old is None:
            os.environ.pop("XDG_CACHE_HOME", None)
        else:
            os.environ["XDG_CACHE_HOME"] = old


def make_case(rng):
    method = rng.choice(D.METHODS)
    ts = D.datable_ts(rng, historical=(method == "variational_gamma" and rng.random() < 0.2), big=rng.random() < 0.15,
                      ploidy=2 if (method == "variational_gamma" and rng.random() < 0.3) else 1)
    kw = D.method_options(rng, method, ts)
    if method == "variational_gamma" and ts.num_individuals > 0 and rng.random() < 0.7:
        kw["singletons_phased"] = False
    return method, ts, kw


def run(ctx, model_ok=True):
    from vlib import gen
    rng = ctx.rng
    cases = [make_case(rng) for _ in range(ctx.n(24, 300))]
    base = []
    for method, ts, kw in cases:
        r1 = D.call(method, ts, **kw)
        r2 = D.call(method, ts, **kw)
        d1 = digest(r1[1]) if r1[0] == "ok" else "raise:" + r1[1] + ":" + r1[2][:80]
        d2 = digest(r2[1]) if r2[0] == "ok" else "raise:" + r2[1] + ":" + r2[2][:80]
        base.append(d1)
        desc = {"method": method, "opts": D.jsonable_opts(kw), "ts": gen.ts_summary(ts)}
        ctx.case(dict(desc, check="repeat"), nontrivial=r1[0] == "ok", kind="repeat/" + method)
        replay = {"ts": gen.ts_tables_dict(ts), "method": method, "opts": D.jsonable_opts(kw)}
        if d1 != d2:
            ctx.oracle_fail("repeat-differs", "%s: two identical calls in one process differ (%s vs %s)" % (method, d1[:12], d2[:12]), replay)
        if method != "variational_gamma" and r1[0] == "ok":
            for nt in (None, 1, 2, 4):
                if kw.get("num_threads", None) == nt:
                    continue
                r3 = D.call(method, ts, **dict(kw, num_threads=nt))
                d3 = digest(r3[1]) if r3[0] == "ok" else "raise:" + r3[1]
                ctx.case(dict(desc, check="num_threads=%r" % nt), nontrivial=True, kind="threads")
                if d3 != d1:
                    ctx.oracle_fail("threads-differ", "%s: num_threads=%r changes the result" % (method, nt), dict(replay, num_threads=nt))
    for hs in (0, 1, 12345):
        ds = subprocess_digests(ctx, cases, hs)
        for (method, ts, kw), d0, d in zip(cases, base, ds):
            ctx.case({"method": method, "check": "subprocess PYTHONHASHSEED=%d" % hs, "ts": gen.ts_summary(ts),
                      "opts": D.jsonable_opts(kw)}, nontrivial=not d0.startswith("raise"), kind="hashseed/%d" % hs)
            if d != d0:
                ctx.oracle_fail("process-differs", "%s: fresh process with PYTHONHASHSEED=%d gives %s, in-process %s" % (method, hs, d[:40], d0[:40]),
                                {"ts": gen.ts_tables_dict(ts), "method": method, "opts": D.jsonable_opts(kw), "hashseed": hs})
    # option OBJECTS reused across calls: array-valued options must not be modified by a call, and the second call
    # with the same objects must be bit-identical to the first and to a call with freshly built equal objects
    import copy
    import numpy as np
    for _ in range(ctx.n(10, 80)):
        method = rng.choice(["inside_outside", "maximization"])
        ts = D.datable_ts(rng, historical=False)
        k = rng.choice([1, 2, 3])
        sizes = np.array([rng.choice([0.5, 1.0, 10.0, 100.0]) for _ in range(k)], dtype=float)
        breaks = np.array(sorted(rng.sample([0.1, 0.5, 2.0, 7.0], k - 1)), dtype=float)
        form = rng.choice(["dict", "dict", "history", "ndarray"] if k > 1 else ["dict", "ndarray", "history", "float64"])
        def build():
            if form == "dict":
                return {"population_size": sizes.copy(), "time_breaks": breaks.copy()}
            if form == "history":
                from tsdate.demography import PopulationSizeHistory
                return PopulationSizeHistory(sizes.copy(), breaks.copy())
            if form == "ndarray":
                return sizes[:1].copy()
            return np.float64(sizes[0])
        pop = build()
        snap = copy.deepcopy(pop.as_dict() if form == "history" else pop)
        kw = {"mutation_rate": np.float64(rng.choice([0.05, 0.3])), "population_size": pop}
        if rng.random() < 0.4:
            kw["_via_date"] = True
        rs = [D.call(method, ts, **kw) for _ in range(3)]
        rf = D.call(method, ts, **dict(kw, population_size=build()))
        ds = [digest(r[1]) if r[0] == "ok" else "raise:" + r[1] + ":" + r[2][:60] for r in rs + [rf]]
        now = pop.as_dict() if form == "history" else pop
        def same(a, b):
            if isinstance(a, dict):
                return set(a) == set(b) and all(same(a[x], b[x]) for x in a)
            return np.array_equal(np.asarray(a, dtype=float), np.asarray(b, dtype=float))
        desc = {"method": method, "check": "option-object-reuse", "form": form, "epochs": k, "ts": gen.ts_summary(ts)}
        ctx.case(desc, nontrivial=rs[0][0] == "ok", kind="reuse-options/" + form)
        replay = {"ts": gen.ts_tables_dict(ts), "method": method, "form": form, "sizes": [float(x) for x in sizes], "breaks": [float(x) for x in breaks],
                  "mutation_rate": float(kw["mutation_rate"])}
        if not same(snap, now):
            ctx.oracle_fail("options-modified", "%s modified the caller's population_size object (%s): %r -> %r" % (method, form, snap, now), replay)
        if len(set(ds)) != 1:
            ctx.oracle_fail("repeat-differs/options-reused", "%s: repeated calls with the same option objects (%s) differ: %r" % (method, form, [d[:16] for d in ds]), replay)
    # prior reuse across probability spaces
    import tsdate
    for _ in range(ctx.n(5, 60)):
        ts = D.datable_ts(rng, historical=False)
        pop = rng.choice([1.0, 10.0])
        try:
            shared = tsdate.build_prior_grid(ts, population_size=pop)
        except Exception:
            continue
        seq = [rng.choice(["logarithmic", "linear"]) for _ in range(3)]
        for sp in seq:
            a = D.call("inside_outside", ts, mutation_rate=1e-2, priors=shared, probability_space=sp)
            b = D.call("inside_outside", ts, mutation_rate=1e-2, priors=tsdate.build_prior_grid(ts, population_size=pop), probability_space=sp)
            ctx.case({"check": "prior-reuse", "spaces": seq, "ts": gen.ts_summary(ts)}, nontrivial=a[0] == "ok", kind="prior-reuse")
            if a[0] != b[0]:
                ctx.oracle_fail("prior-reuse-outcome", "reused prior: %r, fresh prior: %r" % (a[:2], b[:2]), {"ts": gen.ts_tables_dict(ts), "spaces": seq})
            elif a[0] == "ok":
                d, key = D.max_rel_diff(D.result_arrays(a[1]), D.result_arrays(b[1]))
                if d > 1e-6:
                    ctx.oracle_fail("prior-reuse-differs", "%s differs by %.3g between reused and fresh prior (spaces %r)" % (key, d, seq),
                                    {"ts": gen.ts_tables_dict(ts), "spaces": seq})
    for _ in range(ctx.n(4, 30)):
        cold_warm(ctx, rng)
    if model_ok:
        for _ in range(ctx.n(3, 40)):
            cache_tie(ctx, rng)
            space_tie(ctx, rng)
