"""C15 -- node span tables behind the mixture prior are exact."""
import math
from fractions import Fraction as F

from props import _prior as K
from vlib import gen
from vlib.coqfmt import cfloat, cnat, clist, cpair

ENV_BY_TIER = {"quick": {"NUMBA_DISABLE_JIT": "1"}, "thorough": {}}
LEVEL = "proof"

RULE = ("msprime tree sequences (2-9 contemporaneous samples, 5-1000 bp integer coordinates, recombining, "
        "Kingman/Beta/Dirac mergers => polytomies); about half get missing data: 1-3 (sample, interval) pairs are "
        "isolated by cutting the sample's edges, some get a deleted interval (all samples missing there), then "
        "simplify() removes the unary nodes; 30% of all inputs then get ALL node ids renumbered at random (samples not ids "
        "0..n-1) and 45% go through gen.exotic (extra node flag bits, renumbering, mutations above roots, monomorphic sites, "
        "unknown mutation times, arbitrary alleles, populations); x prior distribution (lognorm, gamma).  Non-trivial: >= 2 trees and at "
        "least one node whose span table has >= 2 entries; kinds record missing data / polytomies / several totals T")
ASSUME = ["FIRST SENTENCE OF THE PROPERTY IS DECIDED DIFFERENTIALLY, NOT BY A THEOREM: SpansBySamples.first_pass is "
          "compared exactly (integer spans) with the reference tally spans_ref evaluated inside Coq on tskit's own "
          "per-tree data (Tree.num_samples, Tree.parent, Tree.num_children, Tree.interval)",
          "tskit's per-tree queries are trusted as the ground truth for 'node u has k of T samples below it in a tree'",
          "the coalescent rows (mean, var per (T, k)) are those of C14; the oracle recomputes them as exact rationals"]

REQ = ("lib.Num", "model.Prior", "model.PriorFloat", "model.PriorMix")


# ------------------------------------------------------------------ generators
def isolate(ts, pairs):
    """cut the edges above sample s over [a, b) for every (s, a, b); then simplify"""
    import tskit
    tables = ts.dump_tables()
    edges = [(e.left, e.right, e.parent, e.child) for e in ts.edges()]
    for s, a, b in pairs:
        out = []
        for l, r, p, c in edges:
            if c != s or r <= a or l >= b:
                out.append((l, r, p, c))
                continue
            if l < a:
                out.append((l, a, p, c))
            if r > b:
                out.append((b, r, p, c))
        edges = out
    tables.edges.clear()
    tables.mutations.clear()
    tables.sites.clear()
    for l, r, p, c in edges:
        tables.edges.add_row(l, r, p, c)
    tables.sort()
    tables.simplify()
    return tables.tree_sequence()


DECO = {}


def sym_blocks(rng):
    """hand-built family aimed at the `seen_mixtures` cache of get_mixture_prior_params: two clades A, B that
    gain one sample each at the same breakpoint (identical (k, span) arrays => cache hit), repeated in a second
    block with other internal nodes where one extra sample is missing (same arrays, different total T)"""
    import tskit
    s1, s2 = rng.randint(1, 60), rng.randint(1, 60)
    nblocks = rng.choice([1, 2, 2])
    extra_in = rng.choice([0, 1])          # the block in which sample 6 is present
    tables = tskit.TableCollection((s1 + s2) * nblocks)
    for _ in range(7):
        tables.nodes.add_row(flags=tskit.NODE_IS_SAMPLE, time=0)
    for j in range(nblocks):
        off = (s1 + s2) * j
        a = tables.nodes.add_row(time=1.0 + 0.01 * j)
        b = tables.nodes.add_row(time=1.2 + 0.01 * j)
        r = tables.nodes.add_row(time=3.0 + 0.01 * j)
        lo, mid, hi = off, off + s1, off + s1 + s2
        for c in (0, 1):
            tables.edges.add_row(lo, hi, a, c)
        for c in (2, 3):
            tables.edges.add_row(lo, hi, b, c)
        tables.edges.add_row(mid, hi, a, 4)
        tables.edges.add_row(mid, hi, b, 5)
        tables.edges.add_row(lo, mid, r, 4)
        tables.edges.add_row(lo, mid, r, 5)
        tables.edges.add_row(lo, hi, r, a)
        tables.edges.add_row(lo, hi, r, b)
        if j == extra_in or nblocks == 1 and rng.random() < 0.5:
            tables.edges.add_row(lo, hi, r, 6)
    tables.sort()
    ts = tables.tree_sequence()
    return ts.simplify()      # drops sample 6's column only if it is nowhere attached? (keeps samples)


def make_ts(rng):
    ts, kind = make_ts0(rng)
    if rng.random() < 0.3 and ts.num_nodes > 1:
        # node ids carry no meaning: samples need not be ids 0..n-1 (forward simulators, subset())
        ts = gen.permute_nodes(rng, ts)
        kind += "+perm"
    if rng.random() < 0.45:
        # valid-but-unusual decorations that must not matter: extra flag bits, renumbering, mutations above
        # roots, monomorphic sites, unknown mutation times, arbitrary alleles, populations
        ts, applied = gen.exotic(rng, ts, p=0.4)
        if applied:
            kind += "+exotic"
            DECO[id(ts)] = applied
    return ts, kind


def make_ts0(rng):
    if rng.random() < 0.1:
        return sym_blocks(rng), "sym"
    n = rng.choice([2, 3, 4, 4, 5, 6, 7, 8, 9])
    L = rng.choice([5, 20, 100, 100, 1000])
    rec = rng.choice([0.0, 0.5, 2.0, 2.0, 10.0, 30.0]) / L
    ts = gen.sim_ts(rng, n=n, L=L, rec=rec, historical=False)
    kind = "plain"
    if rng.random() < 0.5 and L >= 5:
        pairs = []
        for _ in range(rng.randint(1, 3)):
            a = rng.randint(0, L - 1)
            b = rng.randint(a + 1, L)
            if rng.random() < 0.25:
                a = 0
            if rng.random() < 0.25:
                b = L
            pairs.append((rng.randrange(n), a, b))
        ts = isolate(ts, pairs)
        kind = "missing"
    if rng.random() < 0.12 and L >= 5:
        a = rng.randint(0, L - 2)
        b = rng.randint(a + 1, L - 1) if a + 1 < L else L
        if 0 <= a < b <= L and not (a == 0 and b == L):
            ts = ts.delete_intervals([[a, b]], simplify=True)
            kind += "+gap"
    return ts, kind


# ------------------------------------------------------------------ reference: direct per-tree tally from tskit
def tree_views(ts):
    """[(span, T, {u: k})] read off every local tree with tskit's own queries"""
    import tskit
    samples = [int(u) for u in ts.samples()]
    sset = set(samples)
    views = []
    for tree in ts.trees():
        span = int(tree.interval.right) - int(tree.interval.left)
        assert span == tree.interval.right - tree.interval.left
        total = sum(1 for s in samples if tree.parent(s) != tskit.NULL)
        below = {}
        for u in range(ts.num_nodes):
            if u not in sset and tree.num_children(u) > 0:
                below[u] = int(tree.num_samples(u))
        views.append((span, total, below))
    return views


def tally(views, num_nodes, samples):
    sp = {u: {} for u in range(num_nodes) if u not in samples}
    for span, total, below in views:
        for u, k in below.items():
            sp[u][(total, k)] = sp[u].get((total, k), 0) + span
    return sp


def run_impl(ts, distr):
    import numpy as np
    import tsdate.prior as P
    with np.errstate(all="ignore"):
        sbs = P.SpansBySamples(ts)
        mp = P.MixturePrior(ts, prior_distribution=distr)
    samples = set(int(u) for u in ts.samples())
    spans = {}
    order = {}
    for u in range(ts.num_nodes):
        if u in samples:
            continue
        d = {}
        o = []
        for tot, arr in sbs.get_spans(u).items():
            g = []
            for k, s in zip(arr["descendant_tips"], arr["span"]):
                key = (int(tot), int(k))
                d[key] = d.get(key, 0) + F(float(s))
                g.append((int(k), float(s)))
            o.append((int(tot), g))
        spans[u] = d
        order[u] = o
    tables = {int(t): [[float(x) for x in row] for row in mp.base_priors[t]] for t in mp.base_priors.prior_store}
    return {"spans": spans, "order": order, "node_spans": [float(x) for x in sbs.node_spans],
            "nodes_to_date": sorted(int(u) for u in sbs.nodes_to_date),
            "counts": sorted(int(x) for x in sbs.total_fixed_at_0_counts),
            "params": [[float(x) for x in row] for row in mp.prior_params], "tables": tables}


_REF = {}


def exact_rows(t):
    if t not in _REF:
        _REF[t] = K.ref_moments(t)
    return _REF[t]


def expected_params(distr, comps):
    """comps: [(weight, T, k)] exact -> (alpha, beta) of the moment-matched fit, 50 digits"""
    import mpmath
    w = sum(c[0] for c in comps)
    m = sum(F(c[0]) * exact_rows(c[1])[0][c[2]] for c in comps) / w
    v = sum(F(c[0]) * (exact_rows(c[1])[1][c[2]] + exact_rows(c[1])[0][c[2]] ** 2) for c in comps) / w - m * m
    with mpmath.workdps(50):
        mm = mpmath.mpf(m.numerator) / m.denominator
        vv = mpmath.mpf(v.numerator) / v.denominator
        if distr == "gamma":
            return float(mm * mm / vv), float(mm / vv)
        beta = mpmath.log(vv / (mm * mm) + 1)
        return float(mpmath.log(mm) - beta / 2), float(beta)


def oracle(ctx, case, ts, r, views):
    samples = set(int(u) for u in ts.samples())
    ref = tally(views, ts.num_nodes, samples)
    rp = {"case": case}
    nonsample = sorted(ref)
    if r["nodes_to_date"] != nonsample:
        ctx.oracle_fail("nodes_to_date", "nodes_to_date %r != non-sample nodes %r" % (r["nodes_to_date"], nonsample), rp)
        return False
    for u in nonsample:
        want = {key: F(s) for key, s in ref[u].items()}
        if r["spans"][u] != want:
            ctx.oracle_fail("spans", "node %d: get_spans gives %r, the per-tree tally is %r"
                            % (u, {k: float(v) for k, v in r["spans"][u].items()}, ref[u]), rp)
            return False
        if F(r["node_spans"][u]) != sum(want.values()):
            ctx.oracle_fail("node_spans", "node %d: node_spans = %r, its trees span %r" % (u, r["node_spans"][u], float(sum(want.values()))), rp)
            return False
    counts = sorted(set(t for _s, t, _b in views))
    if r["counts"] != counts:
        ctx.oracle_fail("total-counts", "total_fixed_at_0_counts %r, per-tree sample counts %r" % (r["counts"], counts), rp)
        return False
    for u in nonsample:
        comps = [(s, t, k) for (t, k), s in ref[u].items()]
        ea, eb = expected_params(case["distr"], comps)
        a, b = r["params"][u]
        if not (K.close(a, ea, 1e-9, 1e-12) and K.close(b, eb, 1e-9, 1e-12)):
            ctx.oracle_fail("mixture-params", "node %d: prior_params (%r, %r) but the span-weighted mixture of %r has %s parameters (%r, %r)"
                            % (u, a, b, comps, case["distr"], ea, eb), rp)
            return False
    return True


# ------------------------------------------------------------------ Coq model
def coq_spans(ctx, jobs):
    """jobs: (views, nodes) -> for every node: (spans_ref entries, node_span), exact"""
    parts = []
    for views, nodes in jobs:
        tv = clist(views, lambda v: "mkTV QNum (inject_Z %d) %s (af %s)" % (
            v[0], cnat(v[1]), clist(sorted(v[2].items()), lambda p: cpair(cnat(p[0]), cnat(p[1])))))
        parts.append("(let trees := %s in map (fun u => (map (fun e : nat * nat * Q => (fst e, %s (snd e))) "
                     "(spans_ref QNum trees u), %s (node_span QNum trees u))) %s)" % (tv, K.QPAIR, K.QPAIR, clist(nodes, cnat)))
    body = ("Definition af (l : list (nat * nat)) (u : nat) : option nat :=\n"
            "  match find (fun p : nat * nat => Nat.eqb (fst p) u) l with Some p => Some (snd p) | None => None end.\n")
    body += "Eval vm_compute in %s.\n" % clist(parts)
    res = ctx.coq_eval(body, requires=REQ, tag="c15spans", timeout=900)
    out = []
    for job in res[0]:
        per = []
        for entries, ns in job:
            d = {}
            for e in entries:
                # ((T, k), (num, den)) printed flat: (T, k, (num, den))
                t, k, q = e
                d[(int(t), int(k))] = F(int(q[0]), int(q[1]))
            per.append((d, F(int(ns[0]), int(ns[1]))))
        out.append(per)
    return out


def coq_params(ctx, jobs):
    """jobs: (distr, tables {T: rows}, [mixture per node]) -> model node_params on binary64"""
    parts = []
    for distr, tables, mixes in jobs:
        tab = clist(sorted(tables.items()), lambda kv: cpair(cnat(kv[0]), clist(
            kv[1], lambda row: "(%s, %s, %s, %s)" % tuple(cfloat(x) for x in row))))
        approx = "(gamma_approx FNum)" if distr == "gamma" else "(lognorm_approx FNum fln)"
        ms = clist(mixes, lambda m: clist(m, lambda g: cpair(cnat(g[0]), clist(g[1], lambda ks: cpair(cnat(ks[0]), cfloat(ks[1]))))))
        parts.append("map (node_params FNum %s (tabf %s)) %s" % (approx, tab, ms))
    body = ("Definition tabf (tabs : list (nat * list (float * float * float * float))) (tot k : nat) :=\n"
            "  match find (fun p : nat * list (float * float * float * float) => Nat.eqb (fst p) tot) tabs with\n"
            "  | Some p => nth_error (snd p) k | None => None end.\n")
    body += "Eval vm_compute in %s.\n" % clist(parts)
    res = ctx.coq_eval(body, requires=REQ, tag="c15par", timeout=900)
    return [[None if x is None else (float(x[1][0]), float(x[1][1])) for x in job] for job in res[0]]


def run(ctx, model_ok=True):
    n = ctx.n(90, 600)
    cases = []
    for _ in range(n):
        ts, kind = make_ts(ctx.rng)
        distr = ctx.rng.choice(["lognorm", "gamma"])
        cases.append(({"ts": gen.ts_tables_dict(ts), "distr": distr, "kind": kind}, ts))
    span_jobs, span_ref = [], []
    par_jobs, par_ref = [], []
    for case, ts in cases:
        views = tree_views(ts)
        samples = set(int(u) for u in ts.samples())
        nonsample = [u for u in range(ts.num_nodes) if u not in samples]
        try:
            r = run_impl(ts, case["distr"])
        except Exception as e:
            ctx.oracle_fail("exception:%s" % type(e).__name__,
                            "SpansBySamples / MixturePrior raised %s: %s" % (type(e).__name__, str(e)[:300]), {"case": case})
            ctx.case({"kind": case["kind"], "trees": ts.num_trees, "nodes": ts.num_nodes, "raised": type(e).__name__},
                     nontrivial=False, kind=case["kind"] + "/raised")
            continue
        for d in DECO.get(id(ts), []):
            ctx.tally("deco:" + d)
        ok = oracle(ctx, case, ts, r, views)
        multi = any(len(d) >= 2 for d in r["spans"].values())
        poly = any(tree.num_children(u) > 2 for tree in ts.trees() for u in tree.nodes())
        ctx.case({"kind": case["kind"], "distr": case["distr"], "samples": len(samples), "trees": ts.num_trees,
                  "nodes": ts.num_nodes, "totals": sorted(set(v[1] for v in views)),
                  "spans[first]": {str(k): float(v) for k, v in (r["spans"][nonsample[0]].items() if nonsample else [])}},
                 nontrivial=ts.num_trees >= 2 and multi,
                 kind=case["kind"] + ("/polytomy" if poly else "") + ("/multiT" if len(set(v[1] for v in views)) > 1 else ""))
        if not ok or not nonsample:
            continue
        span_jobs.append((views, nonsample))
        span_ref.append((case, r, nonsample))
        par_jobs.append((case["distr"], r["tables"], [r["order"][u] for u in nonsample]))
        par_ref.append((case, r, nonsample))
    if not model_ok:
        return
    CH = 60
    for s in range(0, len(span_jobs), CH):
        out = coq_spans(ctx, span_jobs[s:s + CH])
        for (case, r, nodes), per in zip(span_ref[s:s + CH], out):
            ok = all(r["spans"][u] == d and F(r["node_spans"][u]) == ns for u, (d, ns) in zip(nodes, per))
            ctx.corr("spans_ref(Coq)-vs-get_spans", ok, "span tables differ from the reference tally evaluated in Coq", replay={"case": case})
    for s in range(0, len(par_jobs), CH):
        out = coq_params(ctx, par_jobs[s:s + CH])
        for (case, r, nodes), per in zip(par_ref[s:s + CH], out):
            bad = None
            for u, m in zip(nodes, per):
                a, b = r["params"][u]
                if m is None or not (K.close(a, m[0], 1e-12, 1e-13) and K.close(b, m[1], 1e-12, 1e-13)):
                    bad = "node %d impl (%r, %r) model %r" % (u, a, b, m)
                    break
            ctx.corr("node_params", bad is None, bad or "", replay={"case": case})


def search(ctx):
    for _ in range(ctx.n(400, 2000)):
        ts, kind = make_ts(ctx.rng)
        case = {"ts": gen.ts_tables_dict(ts), "distr": ctx.rng.choice(["lognorm", "gamma"]), "kind": kind}
        try:
            r = run_impl(ts, case["distr"])
        except Exception as e:
            ctx.oracle_fail("exception:%s" % type(e).__name__, "raised %s: %s" % (type(e).__name__, str(e)[:300]), {"case": case})
            return
        if not oracle(ctx, case, ts, r, tree_views(ts)):
            return


def replay(ctx, data):
    case = data["case"]["case"]
    ts = gen.ts_from_dict(case["ts"])
    before = len(ctx.oracle_fails)
    try:
        r = run_impl(ts, case["distr"])
    except Exception:
        return False
    oracle(ctx, case, ts, r, tree_views(ts))
    return len(ctx.oracle_fails) == before
