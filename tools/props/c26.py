"""C26 -- changepoint helpers meet their specification.

Implementation under test: tsdate.rescaling._fixed_changepoints and _poisson_changepoints,
always as numba-compiled code (the product runs them compiled; in the quick tier the rest of
tsdate is imported with NUMBA_DISABLE_JIT=1 and only these two functions are compiled, from
the functions of the repo under test, with the signatures of their decorators).

* correspondence: coq/model/Changepoint.v evaluated on binary64 PrimFloat inside Coq
  (fixed_changepoints FNum; poisson_changepoints FNum with the logarithm as a table of the
  values the compiled code's log returns) must reproduce the implementation's output
  exactly, including assertion failures.
* oracle: the specification itself, on the implementation's output: exact rational
  arithmetic for _fixed_changepoints, brute force over all segmentations for
  _poisson_changepoints.
"""
import itertools
import json
import math
import os
from fractions import Fraction

from vlib.coqfmt import cfloat, cnat, clist, cpair

ENV_BY_TIER = {"quick": {"NUMBA_DISABLE_JIT": "1"}, "thorough": {}}
LEVEL = "proof"

RULE = ("fixed: every count vector of length<=4 (quick) / <=5 (thorough) over {0,1,2,3} x epochs 1..6, plus random "
        "vectors (length 1..40; integers, dyadics, uniform floats, leading/trailing zeros, one heavy entry; epochs "
        "1..2n+3); non-trivial = at least one interior boundary (epochs>=2) and n>=2. poisson: every count vector of "
        "length<=4 (quick) / <=6 (thorough) over {0..3} with offsets over {1,2,3}, penalties {0,.5,2,5} and minima "
        "{0,3,6}/{0,1.5,3}, plus random float vectors up to length 11; non-trivial = at least two feasible "
        "segmentations exist (brute force count). distinct by content hash")
ASSUME = [
    "numpy/numba searchsorted(side='right') on a sorted array returns the number of leading elements <= v "
    "(the model scans linearly; inputs have non-negative counts, so the array is sorted)",
    "numba compiles both helpers without fast-math and its log is the libm log used to build the model's log table "
    "(the table is produced by a numba-compiled log in the same process)",
    "oracle tolerances: a boundary is accepted on either side of an exact tie Z_i = k/epochs unless both floats are "
    "exact; segmentation costs are compared with relative tolerance 1e-9",
    "theorems are over R with log = ln; the double run is covered by the bit-exact correspondence and the oracle",
]

_IMPL = {}


def impl():
    """(fixed, poisson, nlog) as compiled functions of the repo under test"""
    if _IMPL:
        return _IMPL["f"], _IMPL["p"], _IMPL["log"]
    import numba
    import tsdate.rescaling as R
    from tsdate.approx import _i1w, _f1r, _i, _f
    f, p = R._fixed_changepoints, R._poisson_changepoints
    if not hasattr(f, "py_func"):          # NUMBA_DISABLE_JIT=1: compile just these two
        numba.config.DISABLE_JIT = False
        f = numba.njit(_i1w(_f1r, _i))(f)
        p = numba.njit(_i1w(_f1r, _f1r, _f, _f, _f))(p)

    @numba.njit
    def nlog(x):
        return math.log(x)
    _IMPL.update(f=f, p=p, log=nlog)
    return f, p, nlog


# --------------------------------------------------------------------- running the code
def run_fixed(case):
    import numpy as np
    f, _p, _l = impl()
    try:
        return [int(x) for x in f(np.array(case["counts"], dtype=np.float64), int(case["epochs"]))]
    except AssertionError:
        return "assert"
    except Exception as e:  # noqa: BLE001
        return "exception:" + type(e).__name__


def run_poisson(case):
    import numpy as np
    _f, p, _l = impl()
    try:
        return [int(x) for x in p(np.array(case["counts"], dtype=np.float64),
                                  np.array(case["offset"], dtype=np.float64),
                                  float(case["pen"]), float(case["minc"]), float(case["mino"]))]
    except AssertionError:
        return "assert"
    except Exception as e:  # noqa: BLE001
        return "exception:" + type(e).__name__


# --------------------------------------------------------------------- the Coq model
def fixed_term(case):
    return "fixed_changepoints FNum %s %s" % (clist(case["counts"], cfloat), cnat(case["epochs"]))


def log_table(case):
    """log of every N[j]-N[i], Y[j]-Y[i] the code can form, from the compiled log"""
    import numpy as np
    _f, _p, nlog = impl()
    if len(case["counts"]) != len(case["offset"]):
        return []
    N = np.append(0, np.cumsum(np.array(case["offset"], dtype=np.float64)))
    Y = np.append(0, np.cumsum(np.array(case["counts"], dtype=np.float64)))
    vals = set()
    for i in range(len(N)):
        for j in range(i + 1, len(N)):
            vals.add(float(N[j] - N[i]))
            vals.add(float(Y[j] - Y[i]))
    out = []
    for v in sorted(vals):
        if v != v:
            continue
        out.append((v, float(nlog(v))))
    return out


def poisson_term(case):
    tab = clist(log_table(case), lambda kv: cpair(cfloat(kv[0]), cfloat(kv[1])))
    return "poisson_changepoints FNum (tab_log %s) %s %s %s %s %s" % (
        tab, clist(case["counts"], cfloat), clist(case["offset"], cfloat),
        cfloat(case["pen"]), cfloat(case["minc"]), cfloat(case["mino"]))


def run_model(ctx, terms, tag):
    """one coqc run (start-up dominates), one Eval per <= 250 cases"""
    out = []
    B = 250
    body = ""
    for k in range(0, len(terms), B):
        body += "Definition cases%d := %s.\nEval vm_compute in cases%d.\n" % (k, clist(terms[k:k + B]), k)
    res = ctx.coq_eval(body, requires=("lib.Num", "model.Changepoint"), tag=tag, timeout=1200) if terms else []
    for block in res:
        for r in block:
            out.append("assert" if r is None else [int(x) for x in r[1]])
    return out


# --------------------------------------------------------------------- oracles
def _fr(x):
    return Fraction(float(x))


def oracle_fixed(ctx, case, out):
    """the specification of _fixed_changepoints on the implementation's output"""
    counts, epochs = case["counts"], case["epochs"]
    n = len(counts)
    rp = {"case": case, "impl": out}
    if epochs <= 0:
        if out != "assert":
            ctx.oracle_fail("fixed:no-assert", "epochs <= 0 accepted", rp)
        return
    if isinstance(out, str):
        ctx.oracle_fail("fixed:" + out, "valid input rejected: " + out, rp)
        return
    cum = [Fraction(0)]
    for c in counts:
        cum.append(cum[-1] + _fr(c))
    tot = cum[-1]
    if tot == 0:
        # cumulative fractions are 0/0: the statement's "from 0 to n" is still required
        if not (len(out) == epochs + 1 and out[0] == 0 and out[-1] == n):
            ctx.oracle_fail("fixed:zero-total", "all-zero counts: boundaries %r do not run from 0 to n" % (out,), rp)
        return
    if len(out) != epochs + 1:
        ctx.oracle_fail("fixed:length", "expected %d boundaries, got %d" % (epochs + 1, len(out)), rp)
        return
    if out[0] != 0 or out[-1] != n:
        ctx.oracle_fail("fixed:ends", "boundaries %r do not run from 0 to %d" % (out, n), rp)
        return
    if any(a > b for a, b in zip(out[:-1], out[1:])):
        ctx.oracle_fail("fixed:monotone", "boundaries %r decrease" % (out,), rp)
        return
    # floats as the code forms them, only to know where rounding could move a tie
    zf_step = 1.0 / epochs
    yf = [0.0]
    for c in counts:
        yf.append(yf[-1] + float(c))
    for k in range(1, epochs):
        i = out[k]
        if not (0 <= i < n):
            ctx.oracle_fail("fixed:range", "interior boundary %d = %d outside [0,n)" % (k, i), rp)
            return
        q = Fraction(k, epochs)
        zk = k * zf_step
        exact_q = Fraction(zk) == q

        def at_most(idx):
            """True / False / None(ambiguous): cumulative fraction idx <= k/epochs"""
            fr = cum[idx] / tot
            zi = yf[idx] / yf[-1]
            if exact_q and Fraction(zi) == fr:
                return fr <= q
            if abs(fr - q) <= Fraction(1, 10 ** 12) * max(Fraction(1), abs(q)):
                return None
            return fr <= q
        a = at_most(i)
        b = at_most(i + 1)
        if a is False or b is True:
            ctx.oracle_fail("fixed:last-index",
                            "boundary %d = %d is not the last index with cumulative fraction <= %d/%d "
                            "(frac[%d]=%s, frac[%d]=%s)" % (k, i, k, epochs, i, float(cum[i] / tot),
                                                            i + 1, float(cum[i + 1] / tot)), rp)
            return


def deviance(y, n):
    if y == 0:
        return 0.0          # lim y log y = 0
    return -2 * y * (math.log(y) - math.log(n) - 1)


def seg_cost(b, N, Y, pen, minc, mino):
    tot = pen * (len(b) - 2)
    for i, j in zip(b[:-1], b[1:]):
        n = N[j] - N[i]
        y = Y[j] - Y[i]
        if n < mino or y < minc:
            return None
        tot += deviance(y, n)
    return tot


def brute(case):
    """(best cost, best breaks, number of feasible segmentations)"""
    cnt, off = case["counts"], case["offset"]
    d = len(cnt)
    N = [0.0]
    Y = [0.0]
    for o in off:
        N.append(N[-1] + o)
    for c in cnt:
        Y.append(Y[-1] + c)
    best, nfeas = None, 0
    if d == 0:
        return (0.0, [0], 1), N, Y
    # dynamic enumeration of all 2^(d-1) break sets
    for r in range(d):
        for inner in itertools.combinations(range(1, d), r):
            b = [0] + list(inner) + [d]
            v = seg_cost(b, N, Y, case["pen"], case["minc"], case["mino"])
            if v is None:
                continue
            nfeas += 1
            if best is None or v < best[0]:
                best = (v, b)
    return (best[0], best[1], nfeas) if best else None, N, Y


def poisson_valid(case):
    return (len(case["counts"]) == len(case["offset"]) and case["pen"] >= 0 and case["minc"] >= 0
            and case["mino"] >= 0)


def oracle_poisson(ctx, case, out):
    """optimality by brute force; returns the number of feasible segmentations"""
    rp = {"case": case, "impl": out}
    if not poisson_valid(case):
        if out != "assert":
            ctx.oracle_fail("poisson:no-assert", "invalid arguments accepted", rp)
        return 0
    if isinstance(out, str):
        ctx.oracle_fail("poisson:" + out, "valid input rejected: " + out, rp)
        return 0
    d = len(case["counts"])
    if not (out and out[0] == 0 and out[-1] == d and all(a < b for a, b in zip(out[:-1], out[1:]))):
        if not (d == 0 and out == [0]):
            ctx.oracle_fail("poisson:shape", "breaks %r are not 0 < ... < %d" % (out, d), rp)
            return 0
    best, N, Y = brute(case)
    if best is None or d == 0:
        return 0            # no feasible segmentation: the statement says nothing
    zero_regime = case["minc"] <= 0 and any(c == 0 for c in case["counts"])
    got = seg_cost(out, N, Y, case["pen"], case["minc"], case["mino"])
    rp["best"] = {"cost": best[0], "breaks": best[1]}
    rp["impl_cost"] = got
    tol = 1e-9 * max(1.0, abs(best[0]))
    if got is None:
        sig = "poisson:zero-count-nan" if zero_regime else "poisson:infeasible"
        ctx.oracle_fail(sig, "returned segmentation %r has a segment below the minimum count/offset" % (out,), rp)
    elif got > best[0] + tol:
        sig = "poisson:zero-count-nan" if zero_regime else "poisson:suboptimal"
        ctx.oracle_fail(sig, "returned %r costs %.12g but %r costs %.12g" % (out, got, best[1], best[0]), rp)
    return best[2]


# --------------------------------------------------------------------- generators
def fixed_cases(ctx):
    rng = ctx.rng
    cases = []
    maxlen = ctx.n(4, 5)
    for d in range(1, maxlen + 1):
        for v in itertools.product(range(4), repeat=d):
            for ep in range(1, 7):
                if d >= 4 and rng.random() < ctx.n(0.6, 0.5):
                    continue
                cases.append({"fn": "fixed", "counts": [float(x) for x in v], "epochs": ep, "kind": "exhaustive"})
    for _ in range(ctx.n(300, 3000)):
        d = rng.choice([1, 2, 3, 4, 5, 6, 8, 12, 16, 25, 40])
        style = rng.choice(["int", "dyadic", "float", "lead0", "trail0", "heavy", "ones", "tiny"])
        if style == "int":
            c = [float(rng.randint(0, 5)) for _ in range(d)]
        elif style == "dyadic":
            c = [rng.randint(0, 16) / 8.0 for _ in range(d)]
        elif style == "float":
            c = [rng.random() * 10 ** rng.randint(-3, 3) for _ in range(d)]
        elif style == "lead0":
            z = rng.randint(1, d)
            c = [0.0] * z + [float(rng.randint(1, 4)) for _ in range(d - z)]
        elif style == "trail0":
            z = rng.randint(1, d)
            c = [float(rng.randint(1, 4)) for _ in range(d - z)] + [0.0] * z
        elif style == "heavy":
            c = [rng.random() * 1e-3 for _ in range(d)]
            c[rng.randrange(d)] = 1e3
        elif style == "ones":
            c = [1.0] * d
        else:
            c = [rng.random() * 1e-300 for _ in range(d)]
        ep = rng.choice([1, 2, 3, 4, 5, 7, 8, 10, 16, d, 2 * d, 2 * d + 3])
        cases.append({"fn": "fixed", "counts": c, "epochs": ep, "kind": style})
    # rejected input
    cases.append({"fn": "fixed", "counts": [1.0, 2.0], "epochs": 0, "kind": "epochs0"})
    return cases


PENS = [0.0, 0.5, 2.0, 5.0]
MINC = [0.0, 3.0, 6.0, 1.5]
MINO = [0.0, 3.0, 1.5, 6.0]


def poisson_cases(ctx):
    rng = ctx.rng
    cases = []
    maxlen = ctx.n(4, 6)
    per = ctx.n(2, 3)
    for d in range(1, maxlen + 1):
        for v in itertools.product(range(4), repeat=d):
            for _ in range(per if d > 2 else 6):
                if d >= 5 and rng.random() < 0.55:
                    continue
                # minima are active in about two thirds of the cases
                mc = rng.choice(MINC) if rng.random() < 0.6 else 0.0
                mo = rng.choice(MINO) if rng.random() < 0.6 else 0.0
                cases.append({"fn": "poisson", "counts": [float(x) for x in v],
                              "offset": [float(rng.randint(1, 3)) for _ in range(d)],
                              "pen": rng.choice(PENS), "minc": mc, "mino": mo, "kind": "exhaustive"})
    for _ in range(ctx.n(500, 5000)):
        d = rng.choice([2, 3, 4, 5, 6, 7, 8, 9, 11])
        style = rng.choice(["posint", "float", "float", "bursty", "withzero"])
        if style == "posint":
            c = [float(rng.randint(1, 6)) for _ in range(d)]
        elif style == "float":
            c = [0.05 + rng.random() * 10 for _ in range(d)]
        elif style == "bursty":
            lvl = [rng.choice([0.3, 1.0, 4.0, 12.0]) for _ in range(3)]
            c = [max(0.01, lvl[min(2, 3 * i // d)] * (0.5 + rng.random())) for i in range(d)]
        else:
            c = [float(rng.choice([0, 0, 1, 2, 5])) for _ in range(d)]
        o = [rng.choice([1.0, 2.0, 3.0, 0.5, 0.1 + rng.random() * 4]) for _ in range(d)]
        tot_c, tot_o = sum(c), sum(o)
        mc = rng.choice([0.0, 0.0, 3.0, 1.5, tot_c / 3, tot_c / 2])
        mo = rng.choice([0.0, 0.0, 3.0, 2.5, tot_o / 3, tot_o / 2])
        cases.append({"fn": "poisson", "counts": c, "offset": o, "pen": rng.choice(PENS + [1.0, 10.0]),
                      "minc": mc, "mino": mo, "kind": style})
    # rejected inputs
    cases.append({"fn": "poisson", "counts": [1.0, 2.0], "offset": [1.0], "pen": 0.0, "minc": 0.0, "mino": 0.0,
                  "kind": "invalid"})
    cases.append({"fn": "poisson", "counts": [1.0, 2.0], "offset": [1.0, 1.0], "pen": -1.0, "minc": 0.0,
                  "mino": 0.0, "kind": "invalid"})
    cases.append({"fn": "poisson", "counts": [1.0, 2.0], "offset": [1.0, 1.0], "pen": 0.0, "minc": -1.0,
                  "mino": 0.0, "kind": "invalid"})
    cases.append({"fn": "poisson", "counts": [1.0, 2.0], "offset": [1.0, 1.0], "pen": 0.0, "minc": 0.0,
                  "mino": -0.5, "kind": "invalid"})
    return cases


def corpus_cases():
    d = os.path.join(os.path.dirname(__file__), "..", "..", "corpus", "C26")
    out = []
    if os.path.isdir(d):
        for fn in sorted(os.listdir(d)):
            if fn.endswith(".json"):
                data = json.load(open(os.path.join(d, fn)))
                out.extend(data if isinstance(data, list) else [data])
    return out


# --------------------------------------------------------------------- driver entry points
def check_one(ctx, case, out=None):
    if case["fn"] == "fixed":
        out = run_fixed(case) if out is None else out
        oracle_fixed(ctx, case, out)
        return out, (case["epochs"] >= 2 and len(case["counts"]) >= 2)
    out = run_poisson(case) if out is None else out
    nfeas = oracle_poisson(ctx, case, out)
    return out, nfeas >= 2


def run(ctx, model_ok=True):
    cases = corpus_cases() + fixed_cases(ctx) + poisson_cases(ctx)
    outs = []
    for c in cases:
        out, nontrivial = check_one(ctx, c)
        outs.append(out)
        desc = {k: c[k] for k in c if k != "kind"}
        desc["out"] = out
        ctx.case(desc, nontrivial=nontrivial, kind="%s/%s" % (c["fn"], c.get("kind", "corpus")))
    if not model_ok:
        return
    # correspondence: a fixed budget of Coq-evaluated cases (all fixed cases; poisson up to a cap)
    # (all-zero counts make every fraction NaN: outside the linear-scan searchsorted model, see ASSUME)
    fx = [(c, o) for c, o in zip(cases, outs) if c["fn"] == "fixed" and sum(c["counts"]) > 0]
    po = [(c, o) for c, o in zip(cases, outs) if c["fn"] == "poisson"]
    cap = ctx.n(1300, 6000)
    if len(po) > cap:
        keep = [x for x in po if x[0].get("kind") in ("invalid", None)]
        rest = [x for x in po if x[0].get("kind") not in ("invalid", None)]
        ctx.rng.shuffle(rest)
        po = keep + rest[:cap - len(keep)]
    model = run_model(ctx, [fixed_term(c) for c, _ in fx], "fixed")
    for (c, o), m in zip(fx, model):
        ctx.corr("fixed_changepoints", m == o, "impl=%r model=%r" % (o, m), replay={"case": c, "impl": o, "model": m})
    model = run_model(ctx, [poisson_term(c) for c, _ in po], "poisson")
    for (c, o), m in zip(po, model):
        ctx.corr("poisson_changepoints", m == o, "impl=%r model=%r" % (o, m),
                 replay={"case": c, "impl": o, "model": m})


def search(ctx):
    """a tie broke and the first pass found no failing input: exhaustive small vectors with
    every penalty / minimum combination, oracle only"""
    for d in range(1, 6):
        for v in itertools.product(range(4), repeat=d):
            for ep in range(1, 9):
                check_one(ctx, {"fn": "fixed", "counts": [float(x) for x in v], "epochs": ep})
            if ctx.oracle_fails:
                return
    for d in range(1, ctx.n(5, 6) + 1):
        for v in itertools.product(range(1, 5), repeat=d):
            off = [float(ctx.rng.randint(1, 3)) for _ in range(d)]
            for pen in PENS:
                for mc in (0.0, 3.0, 6.0):
                    for mo in (0.0, 3.0):
                        check_one(ctx, {"fn": "poisson", "counts": [float(x) for x in v], "offset": off,
                                        "pen": pen, "minc": mc, "mino": mo})
            if ctx.oracle_fails:
                return


def replay(ctx, data):
    case = data["case"]["case"]
    before = len(ctx.oracle_fails) + len(ctx.known_hits)
    check_one(ctx, case)
    return len(ctx.oracle_fails) + len(ctx.known_hits) == before
