"""C25 -- time rescaling is an order-preserving recalibration."""
import math

import numpy as np

from props import _rescale as K

ENV_BY_TIER = {"quick": {"NUMBA_DISABLE_JIT": "1"}, "thorough": {}}

RULE = ("four streams, all from one PRNG: (1) kernel inputs for mutational_area / mutational_timescale: random node "
        "times with ties (integers, dyadics, floats over 7 decades, clusters 1e-15 apart, minimum above 0), random "
        "edges incl. inverted and zero-length ones, or msprime topologies with count_mutations rows and perturbed "
        "times, x max_intervals; (2) break vectors (valid, repeated break, first break above 0) x points on, next "
        "to, between and beyond the breaks for piecewise_scale_point_estimate; (3) gamma posteriors (shape 0.5..1000) "
        "x breaks x quantile_width x max_shape for piecewise_scale_posterior; (4) real ExpectationPropagation states "
        "(msprime, 2-7 samples, EP iterations 1-5, phased/unphased singletons) x rescale_intervals x "
        "rescale_iterations x rescale_segsites x max_shape through ExpectationPropagation.rescale with every kernel "
        "call recorded (stream 5: the same clauses -- shape cap at the CALLER's max_shape in {2,5,20,50,200}, fixed nodes, order of "
        "means across the re-projection -- on what tsdate.date / variational_gamma(return_fit=True) / "
        "ExpectationPropagation.infer leave behind, with rescaling_intervals {1,3,1000} x rescaling_iterations {1,5} x "
        "match_segregating_sites, options numpy-typed in 30%); stream 4: 30% with the options passed as np.int32/np.int64/np.bool_/np.float64, 30% with rescale() called a "
        "second time on the same object (each call checked against its own state before). About 45% of all tree "
        "sequences (streams 1 and 4) carry vlib.gen.exotic decorations: extra node flag bits, all nodes renumbered at "
        "random, mutations above local roots, mutation-free sites, unknown mutation times, arbitrary allele states, "
        "populations; stream 1 also uses valid times moved to a coarse grid (ties at non-zero ages). Non-trivial: >= 2 epochs and an edge of positive length / a free point / a free row / a "
        "successful rescale with a free node; distinct by content hash")
ASSUME = [
    "_fixed_changepoints (C26), count_mutations (C24), reallocate_unphased (C23), hypergeo._gammainc_inv and "
    "approx.approximate_gamma_iqr are outside this model: their results enter as recorded inputs / tables",
    "the theorems about piecewise_scale_posterior assume the contract 0 < a+1 <= max_shape of approximate_gamma_iqr "
    "(checked on every recorded call)",
    "quick tier runs the kernels as plain Python (NUMBA_DISABLE_JIT): numpy's pairwise np.sum differs from the "
    "model's left-to-right sum by <= 1e-12 relative (measured <= 4 ulp); thorough tier runs the numba-compiled kernels",
    "numba compiles the kernels without fast-math",
]
LEVEL = "proof"

TS_TOL = {"rel": 1e-12, "abs_": 0.0}      # mutational_timescale: np.sum order (see ASSUME)
ORACLE_REL = 1e-9


# ------------------------------------------------------------------ stream 1: area / timescale
def oracle_area(ctx, case, area):
    if isinstance(area, str):
        ctx.oracle_fail("area-raise:" + area, "mutational_area raised on a valid input", {"case": case})
        return
    rc, ro, rd, ri = K.ref_area(case)
    co, of, du, ix = area
    if list(ix) != ri or len(du) != len(rd) or any(a != b for a, b in zip(du, rd)):
        ctx.oracle_fail("area-epochs", "epoch durations / node indexes differ from the sorted distinct node times",
                        {"case": case, "impl": [du, ix], "expected": [rd, ri]})
        return
    scale_c = sum(abs(y / (case["t"][p] - case["t"][c])) for p, c, (y, _s) in
                  zip(case["parent"], case["child"], case["liks"]) if case["t"][p] - case["t"][c] > 0) or 1.0
    scale_o = sum(abs(s) for _y, s in case["liks"]) or 1.0
    for name, got, ref, sc in (("counts", co, rc, scale_c), ("offset", of, ro, scale_o)):
        if len(got) != len(ref) or not all(K.close(a, b, rel=ORACLE_REL, abs_=1e-12 * sc) for a, b in zip(got, ref)):
            ctx.oracle_fail("area-overlap:" + name,
                            "per-interval %s differ from the direct edge/interval overlap sum" % name,
                            {"case": case, "impl": got, "expected": ref})
            return


def oracle_timescale(ctx, case, area, cps, ts):
    """origin = epoch breaks at the changepoints, adjust = cumulative z*y/n"""
    if isinstance(ts, str) or isinstance(area, str) or cps is None:
        return
    co, of, du, _ = area
    cp = sorted(set(cps))
    origin, adjust = ts
    eb = [0.0]
    for d in du:
        eb.append(eb[-1] + d)
    exp_o = [eb[k] for k in cp]
    exp_a = [0.0]
    for i, j in zip(cp[:-1], cp[1:]):
        n, y, z = math.fsum(of[i:j]), math.fsum(co[i:j]), math.fsum(du[i:j])
        exp_a.append(exp_a[-1] + z * y / n)
    if not (K.close_list(origin, exp_o, rel=ORACLE_REL) and K.close_list(adjust, exp_a, rel=ORACLE_REL, abs_=1e-300)):
        ctx.oracle_fail("timescale-cumulative", "origin/adjust are not the epoch breaks / cumulative z*y/n at the changepoints",
                        {"case": case, "cps": cps, "impl": ts, "expected": [exp_o, exp_a]})


def kernel_block(ctx, model_ok, n):
    cases = [K.kernel_case(ctx.rng) for _ in range(n)]
    areas = [K.impl_area(c) for c in cases]
    cpss = [None if isinstance(a, str) else K.impl_changepoints(a, c["max_intervals"]) for a, c in zip(areas, cases)]
    tss = [K.impl_timescale(c) for c in cases]
    if model_ok:
        model = K.model_area_timescale(ctx, cases, cpss)
        for c, a, cps, ts, (ma, mt) in zip(cases, areas, cpss, tss, model):
            ok = (not isinstance(a, str)) and all(K.close_list(x, y) for x, y in zip(a[:3], ma[:3])) and list(a[3]) == ma[3]
            ctx.corr("mutational_area", ok, "impl=%r model=%r" % (a, ma), replay={"case": c, "impl": a, "model": ma})
            if cps is None:
                continue
            if isinstance(ts, str):
                okt = mt is None and ts.startswith("assert:Zero edge span")
            else:
                okt = mt is not None and K.close_list(ts[0], mt[0], **TS_TOL) and K.close_list(ts[1], mt[1], **TS_TOL)
                if okt:
                    ctx.notes["timescale_max_ulps"] = max(ctx.notes.get("timescale_max_ulps", 0),
                                                          K.max_ulps_list(ts[0], mt[0]), K.max_ulps_list(ts[1], mt[1]))
            ctx.corr("mutational_timescale", okt, "impl=%r model=%r" % (ts, mt),
                     replay={"case": c, "cps": cps, "impl": ts, "model": mt})
    for c, a, cps, ts in zip(cases, areas, cpss, tss):
        ne = len(set(c["t"])) - 1
        pos = sum(1 for p, ch in zip(c["parent"], c["child"]) if c["t"][p] > c["t"][ch])
        ctx.case({"stream": "kernel", "kind": c["kind"], "t": c["t"][:10], "edges": list(zip(c["parent"], c["child"]))[:10],
                  "liks": c["liks"][:6], "max_intervals": c["max_intervals"],
                  "timescale": ts if isinstance(ts, str) else [x[:6] for x in ts]},
                 nontrivial=ne >= 2 and pos >= 1, kind="kernel/" + c["kind"])
        for k in c.get("exotic", []):
            ctx.tally("kernel/exotic:" + k)
        oracle_area(ctx, c, a)
        oracle_timescale(ctx, c, a, cps, ts)


# ------------------------------------------------------------------ stream 2: the piecewise map
def oracle_point(ctx, case, out):
    ob, rb = case["ob"], case["rb"]
    valid = K.strictly_increasing(ob) and K.strictly_increasing(rb)
    if isinstance(out, str):
        if valid or K.K2_MSG not in out:
            ctx.oracle_fail("point-raise:" + out, "piecewise_scale_point_estimate raised on valid breaks", {"case": case})
        return
    if not valid:
        ctx.oracle_fail("point-accepts-unsorted", "breaks that are not strictly increasing were accepted",
                        {"case": case, "impl": out})
        return
    pts = []
    for x, f, y in zip(case["x"], case["fixed"], out):
        if f:
            if y != x:
                ctx.oracle_fail("point-fixed-moved", "a fixed entry was changed", {"case": case, "impl": out})
                return
        elif ob[0] == 0.0:
            r = K.ref_pw(ob, rb, x)
            if not K.close(y, r, rel=ORACLE_REL, abs_=1e-12 * rb[-1]):
                ctx.oracle_fail("point-map", "value differs from the piecewise-linear map through the breaks",
                                {"case": case, "x": x, "impl": y, "expected": r})
                return
            pts.append((x, y))
    pts.sort()
    for (x0, y0), (x1, y1) in zip(pts[:-1], pts[1:]):
        if y1 < y0 - 1e-12 * rb[-1]:
            ctx.oracle_fail("point-order", "the map reversed the order of two points",
                            {"case": case, "x": [x0, x1], "y": [y0, y1]})
            return


def point_block(ctx, model_ok, n):
    cases = [K.breaks_case(ctx.rng) for _ in range(n)]
    impl = [K.impl_point(c) for c in cases]
    if model_ok:
        model = K.model_point(ctx, cases)
        for c, a, b in zip(cases, impl, model):
            ok = (b is None) if isinstance(a, str) else (b is not None and K.close_list(a, b))
            ctx.corr("piecewise_scale_point_estimate", ok, "impl=%r model=%r" % (a, b),
                     replay={"case": c, "impl": a, "model": b})
    for c, a in zip(cases, impl):
        ctx.case({"stream": "point", "ob": c["ob"], "rb": c["rb"], "x": c["x"][:6], "fixed": c["fixed"][:6],
                  "out": a if isinstance(a, str) else a[:6]},
                 nontrivial=(not isinstance(a, str)) and not all(c["fixed"]), kind=c["kind"] + ("/rejected" if isinstance(a, str) else ""))
        oracle_point(ctx, c, a)


# ------------------------------------------------------------------ stream 3: posteriors
def oracle_posterior(ctx, case, res, ftab, label="post"):
    """shape cap, mapped mean, order of means, fixed rows; contract of the fit function"""
    for q1, q2, x1, x2, ms, r in ftab:
        if r is not None and not (-1 < r[0] and r[0] + 1 <= ms * (1 + 1e-12)):
            ctx.oracle_fail(label + "-fit-contract", "approximate_gamma_iqr returned a shape outside (0, max_shape]",
                            {"args": [q1, q2, x1, x2, ms], "result": r})
            return
    if isinstance(res, str):
        return
    ob, rb = case["ob"], case["rb"]
    means = []
    for (a, b), f, r in zip(case["posts"], case["fixed"], res):
        if f:
            if r is not None:
                ctx.oracle_fail(label + "-fixed-row", "a fixed row received a posterior", {"case": case, "impl": res})
                return
            continue
        if r is None:
            ctx.oracle_fail(label + "-free-row-nan", "a free row has no posterior", {"case": case, "impl": res})
            return
        a2, b2 = r
        if not (a2 > -1 and b2 > 0 and a2 + 1 <= case["ms"] * (1 + 1e-12)):
            ctx.oracle_fail(label + "-shape-cap", "rescaled posterior improper or shape above max_shape",
                            {"case": case, "row": [a, b], "impl": r})
            return
        if ob[0] == 0.0:
            m0 = (a + 1) / b
            m1 = (a2 + 1) / b2
            ref = K.ref_pw(ob, rb, m0)
            if not K.close(m1, ref, rel=ORACLE_REL, abs_=1e-12 * rb[-1]):
                ctx.oracle_fail(label + "-mean", "rescaled posterior mean is not f(mean)",
                                {"case": case, "row": [a, b], "impl": r, "mean": m1, "expected": ref})
                return
            means.append((m0, m1))
    means.sort()
    for (x0, y0), (x1, y1) in zip(means[:-1], means[1:]):
        if y1 < y0 * (1 - ORACLE_REL) - 1e-12 * rb[-1]:
            ctx.oracle_fail(label + "-order", "order of two posterior means reversed",
                            {"case": case, "before": [x0, x1], "after": [y0, y1]})
            return


def posterior_block(ctx, model_ok, n):
    cases = [K.posterior_case(ctx.rng) for _ in range(n)]
    runs = [K.run_posterior(c) for c in cases]
    if ctx.tier == "thorough":
        for c, (res, _g, _f) in zip(cases, runs):
            res2, _, _ = K.run_posterior(c, compiled=True)
            same = (isinstance(res, str) and isinstance(res2, str)) or \
                (not isinstance(res, str) and not isinstance(res2, str) and K.same_posterior(res2, res, max_ulps=2))
            ctx.corr("piecewise_scale_posterior compiled=python", same, "compiled=%r python=%r" % (res2, res),
                     replay={"case": c, "compiled": res2, "python": res})
    if model_ok:
        model = K.model_posterior(ctx, cases, [(g, f) for _r, g, f in runs])
        for c, (res, g, f), m in zip(cases, runs, model):
            ctx.corr("piecewise_scale_posterior", K.same_posterior(res, m), "impl=%r model=%r" % (res, m),
                     replay={"case": c, "impl": res, "model": m, "gtab": g, "ftab": f})
    for c, (res, g, f) in zip(cases, runs):
        ctx.case({"stream": "posterior", "posts": c["posts"][:4], "fixed": c["fixed"][:4], "ob": c["ob"], "rb": c["rb"],
                  "qw": c["qw"], "ms": c["ms"], "out": res if isinstance(res, str) else res[:4]},
                 nontrivial=(not isinstance(res, str)) and not all(c["fixed"]),
                 kind="posterior/" + ("rejected" if isinstance(res, str) else "ok"))
        if isinstance(res, str) and K.strictly_increasing(c["ob"]) and K.strictly_increasing(c["rb"]) \
                and c["ob"][0] == 0.0 and all(b > 0 for _a, b in c["posts"]) and "KLMinimization" not in res:
            ctx.oracle_fail("post-raise:" + res, "piecewise_scale_posterior raised on a valid input", {"case": c})
        oracle_posterior(ctx, c, res, f)


# ------------------------------------------------------------------ stream 4: ExpectationPropagation.rescale
def ep_case(rng):
    from vlib import gen
    phased = rng.random() < 0.7
    for _ in range(50):
        if phased:
            ts = gen.sim_ts(rng, n=rng.randint(2, 7), historical=rng.random() < 0.2,
                            L=rng.choice([20, 100, 1000]), mu=None)
        else:                       # unphased singletons need diploid individuals
            ts = gen.sim_ts(rng, n=rng.randint(1, 4), historical=False, ploidy=2,
                            L=rng.choice([20, 100, 1000]), mu=None)
        if 1 <= ts.num_mutations <= 1500:
            break
    ts, kinds = K.maybe_exotic(rng, ts)
    L = ts.sequence_length
    opts = {"mu": rng.choice([0.3, 1.0, 3.0]) / L, "ep_iterations": rng.choice([1, 2, 5]),
            "max_shape": rng.choice([1000.0, 1000.0, 50.0, 5.0]), "singletons_phased": phased,
            "rescale_intervals": rng.choice([1, 2, 3, 5, 1000, 1000]), "rescale_iterations": rng.choice([1, 1, 2, 3, 10]),
            "rescale_segsites": rng.random() < 0.4, "quantile_width": rng.choice([0.5, 0.5, 0.2]),
            "numpy_typed": rng.random() < 0.3,       # options passed as np.int64 / np.int32 / np.bool_ / np.float64
            "second_call": rng.random() < 0.3,       # rescale() called twice on the same object
            "exotic": kinds}
    return ts, opts


def rescale_kwargs(o):
    kw = dict(rescale_intervals=o["rescale_intervals"], rescale_iterations=o["rescale_iterations"],
              rescale_segsites=o["rescale_segsites"], quantile_width=o["quantile_width"], max_shape=o["max_shape"])
    if o.get("numpy_typed"):
        kw = dict(rescale_intervals=np.int32(kw["rescale_intervals"]), rescale_iterations=np.int64(kw["rescale_iterations"]),
                  rescale_segsites=np.bool_(kw["rescale_segsites"]), quantile_width=np.float64(kw["quantile_width"]),
                  max_shape=np.float64(kw["max_shape"]))
    return kw


def snapshot(ep):
    fixed = [bool(x) for x in (ep.node_constraints[:, 0] == ep.node_constraints[:, 1])]
    return fixed, [float(x) for x in ep.node_moments()[0]], [float(x) for x in ep.mutation_moments()[0]]


def run_ep(ts, o):
    """-> list of runs (one per rescale() call on the SAME object): the state before/after and the
    recorded kernel calls"""
    ep = K.ep_fit(None, ts, o["mu"], o["ep_iterations"], o["max_shape"], o["singletons_phased"])
    runs = []
    for _call in range(2 if o.get("second_call") else 1):
        fixed, m0, mm0 = snapshot(ep)
        st, calls = K.ep_rescale_record(ep, **rescale_kwargs(o))
        _f, m1, mm1 = snapshot(ep)
        runs.append({"status": st, "calls": calls, "fixed": fixed, "m0": m0, "mm0": mm0, "m1": m1, "mm1": mm1,
                     "post1": np.array(ep.node_posterior), "mpost1": np.array(ep.mutation_posterior),
                     "parent": [int(x) for x in ep.edge_parents], "child": [int(x) for x in ep.edge_children],
                     "call": _call})
        if st != "ok":
            break
    return runs


def oracle_ep(ctx, desc, run):
    st = run["status"]
    rp = {"input": desc, "status": st}
    if st != "ok":
        if K.K2_MSG in st or "Zero edge span" in st:
            ctx.tally("ep/rejected-by-own-assertion")      # belongs to C35 / K2, not to this property
        else:
            ctx.oracle_fail("ep-raise:" + st, "ExpectationPropagation.rescale raised", rp)
        return
    fixed, m0, m1 = run["fixed"], run["m0"], run["m1"]
    # samples untouched
    for i, f in enumerate(fixed):
        if f and m1[i] != m0[i]:
            ctx.oracle_fail("ep-fixed-moved", "a fixed node's time changed", dict(rp, node=i, before=m0[i], after=m1[i]))
            return
    pcalls = [c for c in run["calls"] if c[0] == "piecewise_scale_posterior"]
    ob, rb = [float(x) for x in pcalls[0][1][2]], [float(x) for x in pcalls[0][1][3]]
    top = rb[-1]
    # the map fixes 0, breaks increasing
    if not (ob[0] == 0.0 and rb[0] == 0.0 and K.strictly_increasing(ob) and K.strictly_increasing(rb)):
        ctx.oracle_fail("ep-breaks", "breaks do not start at 0 or are not increasing", dict(rp, ob=ob, rb=rb))
        return
    # order of posterior means, mapped mean, shape cap (nodes and mutations)
    for label, before, after, post, fx in (("node", m0, m1, run["post1"], fixed),
                                           ("mutation", run["mm0"], run["mm1"], run["mpost1"],
                                            [math.isnan(x) for x in run["mm0"]])):
        pairs = []
        for i, f in enumerate(fx):
            if f:
                continue
            a2, b2 = float(post[i, 0]), float(post[i, 1])
            if not (a2 > -1 and b2 > 0 and a2 + 1 <= desc["opts"]["max_shape"] * (1 + 1e-12)):
                ctx.oracle_fail("ep-shape-cap:" + label, "rescaled posterior improper or shape above max_shape",
                                dict(rp, index=i, posterior=[a2, b2]))
                return
            ref = K.ref_pw(ob, rb, before[i])
            if not K.close(after[i], ref, rel=ORACLE_REL, abs_=1e-12 * top):
                ctx.oracle_fail("ep-mean:" + label, "rescaled posterior mean is not f(mean)",
                                dict(rp, index=i, before=before[i], after=after[i], expected=ref, ob=ob, rb=rb))
                return
            pairs.append((before[i], after[i]))
        pairs.sort()
        for (x0, y0), (x1, y1) in zip(pairs[:-1], pairs[1:]):
            if y1 < y0 * (1 - ORACLE_REL) - 1e-12 * top:
                ctx.oracle_fail("ep-order:" + label, "order of two posterior means reversed",
                                dict(rp, before=[x0, x1], after=[y0, y1]))
                return
    # the recovered map sends every node that sat on a break of the last iteration to its rescaled time
    tcalls = [c for c in run["calls"] if c[0] == "mutational_timescale"]
    ecalls = [c for c in run["calls"] if c[0] == "piecewise_scale_point_estimate"]
    last_in = [float(x) for x in tcalls[-1][1][0]]
    last_origin = [float(x) for x in tcalls[-1][2][0]]
    xfinal = [float(x) for x in ecalls[len(tcalls) - 1][2]]
    for i, f in enumerate(fixed):
        if f:
            continue
        # only where it is unambiguous: np.unique keeps ONE original time per rescaled value, so a node
        # whose (rescaled or previous) time coincides with another free node's up to rounding is skipped
        crowded = any(j != i and not fixed[j] and (K.close(xfinal[j], xfinal[i], rel=1e-9, abs_=1e-9 * top)
                                                   or K.close(last_in[j], last_in[i], rel=1e-9))
                      for j in range(len(fixed)))
        if not crowded and any(K.close(last_in[i], o, rel=1e-12) for o in last_origin):
            if not K.close(m1[i], xfinal[i], rel=1e-7, abs_=1e-9 * top):
                ctx.oracle_fail("ep-recovery", "posterior mean of a node on a rescaling break differs from its rescaled point estimate",
                                dict(rp, node=i, mean=m1[i], point=xfinal[i]))
                return
    # per-interval counts/areas of every iteration against the direct overlap computation
    for _nm, args, res in tcalls:
        case, area, cps = K.changepoints_of_call(args)
        oracle_area(ctx, case, area)
        if cps is not None and not isinstance(res, Exception):
            oracle_timescale(ctx, case, area, cps, ([float(x) for x in res[0]], [float(x) for x in res[1]]))


def ep_block(ctx, model_ok, n):
    from vlib import gen
    runs = []
    for _ in range(n):
        ts, o = ep_case(ctx.rng)
        desc = {"tables": gen.ts_tables_dict(ts), "opts": o}
        try:
            rr = run_ep(ts, o)
        except Exception as e:  # noqa  (EP itself failing is not this property's business)
            ctx.tally("ep/fit-failed:" + type(e).__name__)
            continue
        for run in rr:
            runs.append((dict(desc, call=run["call"]), run, gen.ts_summary(ts)))
        for k in o["exotic"]:
            ctx.tally("ep/exotic:" + k)
    if model_ok:
        # (a) every iteration of the loop, from the node times the implementation had at that point
        sitems, sref = [], []
        ritems, rref = [], []
        for k, (desc, run, _s) in enumerate(runs):
            steps = K.loop_steps(run["calls"], run["fixed"], run["parent"], run["child"])
            if steps is None:
                continue
            ecalls = [c for c in run["calls"] if c[0] == "piecewise_scale_point_estimate"]
            pcalls = [c for c in run["calls"] if c[0] == "piecewise_scale_posterior"]
            # chaining: iteration 0 starts from the posterior means, iteration j+1 from the output of j
            chain = bool(steps) and K.close_list(steps[0]["t"], run["m0"])
            for j in range(1, len(steps)):
                prev = steps[j - 1]["pe_res"]
                chain = chain and prev is not None and not isinstance(prev, Exception) \
                    and K.close_list(steps[j]["t"], [float(v) for v in prev])
            ctx.corr("ExpectationPropagation.rescale loop chaining", chain, "iteration inputs are not the previous outputs",
                     replay={"input": desc})
            pick = steps if (ctx.tier == "thorough" or len(steps) <= 3) else [steps[0], steps[1], steps[-1]]
            for st in pick:          # quick tier: first, second and last iteration (all are chained above)
                sitems.append(st)
                sref.append(desc)
            # (b) the breakpoint recovery, from the recorded final times
            if len(ecalls) > len(steps) or pcalls:
                last = steps[-1]
                if last["pe_res"] is not None and not isinstance(last["pe_res"], Exception) \
                        and not isinstance(last["ts_res"], Exception):
                    rec = ecalls[len(steps)] if len(ecalls) > len(steps) else None
                    ritems.append({"means": run["m0"], "fixed": run["fixed"], "x": [float(v) for v in last["pe_res"]],
                                   "rb": [float(v) for v in last["ts_res"][1]]})
                    rref.append((desc, rec, pcalls))
        sm = K.model_steps(ctx, sitems) if sitems else []
        for st, desc, m in zip(sitems, sref, sm):
            ctx.corr("ExpectationPropagation.rescale iteration", K.step_agrees(st, m, **TS_TOL),
                     "impl=%r model=%r" % ((st["ts_res"], st["pe_res"]), m),
                     replay={"input": desc, "step": {k: st[k] for k in ("t", "cps", "liks", "fixed", "parent", "child")}, "model": m})
        rm = K.model_recover(ctx, ritems) if ritems else []
        for it, (desc, rec, pcalls), m in zip(ritems, rref, rm):
            if rec is None or isinstance(rec[2], Exception):
                ok, got = m is None, "raised"
            else:
                got = [float(v) for v in rec[2]]
                ok = m is not None and K.close_list(got, m, **TS_TOL)
                if ok and pcalls:       # and these are the breaks both posterior calls receive
                    for pc in pcalls:
                        ok = ok and K.close_list([float(v) for v in pc[1][2]], got) \
                            and K.close_list([float(v) for v in pc[1][3]], it["rb"])
            ctx.corr("ExpectationPropagation.rescale breakpoint recovery", ok, "impl=%r model=%r" % (got, m),
                     replay={"input": desc, "recover": it, "model": m})
        # the two posterior calls of each run against the model, through the recorded tables
        pcases = []
        for desc, run, _s in runs:
            for nm, args, res in run["calls"]:
                if nm == "piecewise_scale_posterior" and not isinstance(res, Exception):
                    c = {"posts": [[float(a), float(b)] for a, b in args[0]], "fixed": [bool(x) for x in args[1]],
                         "ob": [float(x) for x in args[2]], "rb": [float(x) for x in args[3]],
                         "qw": float(args[4]), "ms": float(args[5])}
                    got = [None if (math.isnan(a) and math.isnan(b)) else (float(a), float(b)) for a, b in res]
                    pcases.append((c, got))
        pcases = pcases[: ctx.n(40, 400)]
        reruns = [K.run_posterior(c) for c, _g in pcases]
        pm = K.model_posterior(ctx, [c for c, _g in pcases], [(g, f) for _r, g, f in reruns]) if pcases else []
        for (c, got), (res, g, f), m in zip(pcases, reruns, pm):
            ctx.corr("piecewise_scale_posterior (recorded)", K.same_posterior(got, m) and not isinstance(res, str),
                     "impl=%r model=%r" % (got, m), replay={"case": c, "impl": got, "model": m})
            oracle_posterior(ctx, c, got, f, label="ep-post")
    for desc, run, summ in runs:
        free = sum(1 for f in run["fixed"] if not f)
        ctx.case({"stream": "ep", "ts": summ, "opts": desc["opts"], "status": run["status"],
                  "means_before": run["m0"][:8], "means_after": run["m1"][:8]},
                 nontrivial=run["status"] == "ok" and free >= 1,
                 kind="ep/" + ("ok" if run["status"] == "ok" else "rejected") + ("/second-call" if run["call"] else "")
                 + ("/numpy-typed" if desc["opts"].get("numpy_typed") else ""))
        oracle_ep(ctx, desc, run)


# ------------------------------------------------------------------ stream 5: entry through the public API / infer()
def api_case(rng):
    from vlib import gen
    for _ in range(50):
        ts = gen.sim_ts(rng, n=rng.randint(3, 7), historical=False, L=rng.choice([100, 1000]))
        if 3 <= ts.num_mutations <= 1500:
            break
    ts, kinds = K.maybe_exotic(rng, ts, kinds=("extra_flags", "permute_nodes", "monomorphic_sites", "states", "populations",
                                               "unknown_mutation_times"))
    opts = {"entry": rng.choice(["variational_gamma", "date", "infer"]), "mu": rng.choice([0.3, 1.0, 3.0]) / ts.sequence_length,
            "max_shape": rng.choice([2, 5, 20, 50, 200]), "rescaling_intervals": rng.choice([1, 3, 1000]),
            "rescaling_iterations": rng.choice([1, 5]), "match_segregating_sites": rng.random() < 0.5,
            "max_iterations": rng.choice([1, 2, 5]), "numpy_typed": rng.random() < 0.3, "exotic": kinds}
    return ts, opts


def run_api(ts, o):
    """date through a public entry point with rescaling on; the kernels rescale() calls are recorded
    -> (status, fit object or None, recorded calls)"""
    import warnings
    import tsdate
    import tsdate.variational as V
    ms, ri, it, seg = o["max_shape"], o["rescaling_intervals"], o["rescaling_iterations"], o["match_segregating_sites"]
    if o["numpy_typed"]:
        ms, ri, it, seg = np.float64(ms), np.int64(ri), np.int32(it), np.bool_(seg)
    fit = None
    with K.Recorder() as rec:
        try:
            with warnings.catch_warnings():
                warnings.simplefilter("ignore")
                if o["entry"] == "infer":
                    fit = V.ExpectationPropagation(ts, mutation_rate=o["mu"], singletons_phased=True)
                    fit.infer(ep_iterations=o["max_iterations"], max_shape=ms, rescale_intervals=ri, rescale_iterations=it,
                              regularise=True, rescale_segsites=seg)
                else:
                    kw = dict(mutation_rate=o["mu"], max_shape=ms, rescaling_intervals=ri, rescaling_iterations=it,
                              match_segregating_sites=seg, max_iterations=o["max_iterations"], return_fit=True)
                    if o["entry"] == "date":
                        _out, fit = tsdate.date(ts, method="variational_gamma", **kw)
                    else:
                        _out, fit = tsdate.variational_gamma(ts, **kw)
            st = "ok"
        except AssertionError as e:
            st = "assert:" + str(e)[:60]
        except Exception as e:  # noqa
            st = "raise:%s:%s" % (type(e).__name__, str(e)[:80])
    return st, fit, rec.calls


def oracle_api(ctx, desc, st, fit, calls):
    """the clauses of the property on what the public entry point leaves behind: shape cap at the
    CALLER's max_shape, fixed nodes untouched, order of posterior means across the rescaling step"""
    import tskit
    o = desc["opts"]
    rp = {"input": desc, "status": st}
    pcalls = [c for c in calls if c[0] == "piecewise_scale_posterior" and not isinstance(c[2], Exception)]
    if st != "ok":
        if K.K2_MSG in st or "Zero edge span" in st:
            ctx.tally("api/rejected-by-own-assertion")
        else:
            ctx.tally("api/other-error:" + st.split(":")[1])        # dating failures outside the rescaling step: C35
        return
    if fit is None or not pcalls:
        ctx.oracle_fail("api-no-rescale", "rescaling was requested but no rescaling step ran", rp)
        return
    cap = float(o["max_shape"]) * (1 + 1e-9)
    post = np.array(fit.node_posterior, dtype=float)
    fixed = np.array(fit.node_constraints[:, 0] == fit.node_constraints[:, 1])
    for i in range(post.shape[0]):
        if fixed[i]:
            continue
        a, b = post[i]
        if not (a > -1 and b > 0 and a + 1 <= cap):
            ctx.oracle_fail("api-shape-cap:node", "a node posterior left by %s has shape above the caller's max_shape (or is improper)" % o["entry"],
                            dict(rp, node=i, shape=float(a + 1), rate=float(b), max_shape=o["max_shape"]))
            return
    mpost = np.array(fit.mutation_posterior, dtype=float)
    for i in range(mpost.shape[0]):
        a, b = mpost[i]
        if math.isnan(a):
            continue
        if not (a > -1 and b > 0 and a + 1 <= cap):
            ctx.oracle_fail("api-shape-cap:mutation", "a mutation posterior has shape above the caller's max_shape (or is improper)",
                            dict(rp, mutation=i, shape=float(a + 1), rate=float(b), max_shape=o["max_shape"]))
            return
    # fixed nodes keep their (sample) time
    m1 = fit.node_moments()[0]
    for u in range(len(fixed)):
        if fixed[u] and float(m1[u]) != float(fit.node_constraints[u, 0]):
            ctx.oracle_fail("api-fixed-moved", "a fixed node's time changed", dict(rp, node=u))
            return
    # order of posterior means across every rescaling re-projection (nodes, then mutations)
    for _nm, args, res in pcalls:
        before, fx = np.array(args[0], dtype=float), np.array(args[1], dtype=bool)
        after = np.array(res, dtype=float)
        pairs = [((before[i, 0] + 1) / before[i, 1], (after[i, 0] + 1) / after[i, 1]) for i in range(len(fx)) if not fx[i]]
        pairs.sort()
        top = max([p[1] for p in pairs] + [0.0])
        for (x0, y0), (x1, y1) in zip(pairs[:-1], pairs[1:]):
            if y1 < y0 * (1 - ORACLE_REL) - 1e-12 * top:
                ctx.oracle_fail("api-order", "order of two posterior means reversed by the rescaling step",
                                dict(rp, before=[x0, x1], after=[y0, y1]))
                return
        for i in range(len(fx)):
            if not fx[i] and not (after[i, 0] + 1 <= cap):
                ctx.oracle_fail("api-shape-cap:reprojection", "the rescaling re-projection returned a shape above the caller's max_shape",
                                dict(rp, row=i, shape=float(after[i, 0] + 1), max_shape=o["max_shape"]))
                return


def api_block(ctx, n):
    from vlib import gen
    for _ in range(n):
        ts, o = api_case(ctx.rng)
        desc = {"tables": gen.ts_tables_dict(ts), "opts": o}
        st, fit, calls = run_api(ts, o)
        free = 0 if fit is None else int(np.sum(fit.node_constraints[:, 0] != fit.node_constraints[:, 1]))
        ctx.case({"stream": "api", "ts": gen.ts_summary(ts), "opts": o, "status": st,
                  "max_node_shape": None if fit is None or st != "ok" else float(np.nanmax(np.array(fit.node_posterior)[:, 0]) + 1)},
                 nontrivial=st == "ok" and free >= 1, kind="api/%s/%s" % (o["entry"], "ok" if st == "ok" else "rejected"))
        oracle_api(ctx, desc, st, fit, calls)


# ------------------------------------------------------------------ driver entry points
def run(ctx, model_ok=True):
    kernel_block(ctx, model_ok, ctx.n(90, 600))
    point_block(ctx, model_ok, ctx.n(150, 1000))
    posterior_block(ctx, model_ok, ctx.n(60, 400))
    ep_block(ctx, model_ok, ctx.n(32, 300))
    api_block(ctx, ctx.n(30, 250))


def search(ctx):
    """a tie broke and no failing input yet: oracle-only, more inputs"""
    for _ in range(ctx.n(4, 10)):
        kernel_block(ctx, False, 150)
        point_block(ctx, False, 300)
        posterior_block(ctx, False, 100)
        ep_block(ctx, False, 60)
        api_block(ctx, 60)
        if ctx.oracle_fails:
            return


def replay(ctx, data):
    from vlib import gen
    case = data.get("case") or {}
    before = len(ctx.oracle_fails)
    if "input" in case and "entry" in case["input"].get("opts", {}):       # a public-API run
        ts = gen.ts_from_dict(case["input"]["tables"])
        st, fit, calls = run_api(ts, case["input"]["opts"])
        oracle_api(ctx, case["input"], st, fit, calls)
    elif "input" in case:                                 # an ExpectationPropagation.rescale run
        ts = gen.ts_from_dict(case["input"]["tables"])
        for run in run_ep(ts, case["input"]["opts"]):
            oracle_ep(ctx, case["input"], run)
    else:
        c = case.get("case", case)
        if "posts" in c:
            res, _g, f = K.run_posterior(c)
            oracle_posterior(ctx, c, res, f)
        elif "ob" in c:
            oracle_point(ctx, c, K.impl_point(c))
        elif "t" in c:
            a = K.impl_area(c)
            oracle_area(ctx, c, a)
            if "max_intervals" in c and not isinstance(a, str):
                oracle_timescale(ctx, c, a, K.impl_changepoints(a, c["max_intervals"]), K.impl_timescale(c))
    return len(ctx.oracle_fails) == before
