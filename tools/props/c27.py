"""C27 -- constraint enforcement is minimal and idempotent."""
from props import _constrain as K

ENV_BY_TIER = {"quick": {"NUMBA_DISABLE_JIT": "1"}, "thorough": {}}

RULE = ("(kernel) msprime tree sequences (2-7 samples, 1-1000 bp, Kingman/Beta/Dirac mergers, historical and internal "
        "samples) x time-vector styles (noise, ties, reversed, 1e6..1e12, 1e-6..1e-12, zero, valid) x eps x "
        "iteration counts; a case is non-trivial when the kernel changes at least one time or k>0; distinct by "
        "content hash; (plumbing) EstimationMethod.get_modified_ts on fabricated means for every method class x given/absent constr_iterations and min_branch_length vs util.constrain_ages with the documented effective parameters; (pipeline) inside_outside / variational_gamma with DEFAULT constr_iterations on contemporaneous-sample "
        "inputs (60% with randomly renumbered nodes) and a min_branch_length chosen relative to the dated branch lengths: "
        "node times must equal the least fixed point of the 'mn' metadata exactly")
ASSUME = ["tskit edge-table order gives children_first (checked on every generated input by the model's "
          "children_firstb)", "numba compiles _constrain_ages without fast-math"]


def oracle(ctx, case, out):
    """the property itself, on the implementation's output, in doubles"""
    if out == "assert":
        return
    if case["k"] == 0:
        ref = K.lfp_reference(case)
        if not K.same_floats(ref, out):
            ctx.oracle_fail("lfp", "k=0 output is not max(t[u], max_c t'[c]+eps)",
                            {"case": case, "impl": out, "expected": ref})
    # idempotence for every k
    again = K.run_impl(dict(case, t=out))
    if not K.same_floats(again, out):
        ctx.oracle_fail("idempotent", "constraining constrained times changed them",
                        {"case": case, "first": out, "second": again})
    # every constraint holds afterwards
    for p, c in zip(case["parent"], case["child"]):
        if not (out[c] + case["eps"] <= out[p]):
            ctx.oracle_fail("sat", "edge %d->%d violates t[c]+eps<=t[p]" % (p, c), {"case": case, "impl": out})
            break


def strict_case(rng):
    """a vector that already satisfies every constraint strictly"""
    from vlib import gen
    ts = gen.sim_ts(rng)
    eps = rng.choice(K.EPS_CHOICES)
    scale = rng.choice([1.0, 1e3, 1e-3])
    c = K.make_case(rng, ts=ts, style="valid", eps=eps, k=rng.choice(K.ITER_CHOICES))
    t = [x * scale for x in c["t"]]
    ok = all(t[ch] + eps < t[p] for p, ch in zip(c["parent"], c["child"]))
    c["t"] = t
    return c if ok else None


def pipeline_oracle(ctx, rng):
    """API level: with all samples contemporaneous the least-squares phase is off BY DEFAULT
    (constr_iterations not passed), so the dated node times must be exactly
    max(unconstrained mean, children + min_branch_length), the means being the 'mn' metadata"""
    import numpy as np
    from vlib import gen
    from props import _dating as D
    method = rng.choice(["inside_outside", "inside_outside", "variational_gamma"])
    ts = D.datable_ts(rng, historical=False, internal=False, big=rng.random() < 0.3)
    if rng.random() < 0.6:
        ts = gen.permute_nodes(rng, ts)
    kw = D.method_options(rng, method, ts)
    kw.pop("constr_iterations", None)
    kw.pop("min_branch_length", None)
    r = D.call(method, ts, **kw)
    if r[0] != "ok":
        return
    t0 = r[1].nodes_time
    lengths = np.array([t0[e.parent] - t0[e.child] for e in r[1].edges()])
    eps = float(np.quantile(lengths, rng.choice([0.1, 0.5, 0.9]))) * rng.choice([0.5, 1.0, 2.0]) if rng.random() < 0.7 else 1e-8
    if not eps > 0:
        eps = 1e-8
    kw["min_branch_length"] = eps
    r = D.call(method, ts, **kw)
    desc = {"level": "pipeline", "method": method, "opts": D.jsonable_opts(kw), "ts": gen.ts_summary(ts)}
    if r[0] != "ok":
        ctx.case(dict(desc, outcome=r[1]), nontrivial=False, kind="pipeline/raise")
        return
    out = r[1]
    mn = D.node_md(out, "mn")
    mean = [float(mn[u]) if not np.isnan(mn[u]) else float(ts.nodes_time[u]) for u in range(ts.num_nodes)]
    case = {"t": mean, "parent": [int(x) for x in ts.edges_parent], "child": [int(x) for x in ts.edges_child], "eps": eps, "k": 0}
    ref = K.lfp_reference(case)
    got = [float(x) for x in out.nodes_time]
    raised = sum(1 for a, b in zip(mean, got) if a != b)
    ctx.case(dict(desc, outcome="ok", nodes_raised=raised), nontrivial=True, kind="pipeline/ok" + ("/raised" if raised else ""))
    if not K.same_floats(ref, got):
        bad = [u for u in range(len(got)) if ref[u] != got[u]][:5]
        ctx.oracle_fail("pipeline-not-least-fixed-point",
                        "%s with default constr_iterations on contemporaneous samples: node times are not max(mean, children+eps) at nodes %r "
                        "(e.g. node %d: mean %r, expected %r, got %r)" % (method, bad, bad[0], mean[bad[0]], ref[bad[0]], got[bad[0]]),
                        {"level": "pipeline", "ts": gen.ts_tables_dict(ts), "method": method, "opts": D.jsonable_opts(kw)})


def plumbing_oracle(ctx, rng):
    """option plumbing: EstimationMethod.get_modified_ts on FABRICATED unconstrained means must constrain them with
    exactly the documented parameters -- min_branch_length as given (default 1e-8), constr_iterations as given, and when
    it is not given 0 for contemporaneous samples / 100 when sample ages differ -- i.e. its node times must equal
    util.constrain_ages(ts, means, eps, k) for that (eps, k); the kernel itself is tied to the model above"""
    import warnings
    import numpy as np
    from vlib import gen
    import tsdate.core as core
    import tsdate.util as U
    from props import _dating as D
    hist = rng.random() < 0.6
    ts = D.datable_ts(rng, historical=hist, internal=hist and rng.random() < 0.4, big=rng.random() < 0.2)
    t, style = gen.random_times(rng, ts, rng.choice(["noise", "ties", "reverse", "valid", "noise"]))
    samples = list(ts.samples())
    t[samples] = ts.nodes_time[samples]
    t = np.where(np.array([u in set(samples) for u in range(ts.num_nodes)]), t, np.maximum(t, 1e-6))
    kw = {}
    k_opt = rng.choice([None, 0, 0, 1, 7, 100])
    if k_opt is not None or rng.random() < 0.3:
        kw["constr_iterations"] = k_opt
    e_opt = rng.choice([None, 1e-8, 1e-3, 0.3, 2.0])
    if e_opt is not None or rng.random() < 0.3:
        kw["min_branch_length"] = e_opt
    cls = rng.choice(["VariationalGammaMethod", "InsideOutsideMethod", "MaximizationMethod"])
    mkw = dict(kw, mutation_rate=0.1)
    if cls != "VariationalGammaMethod":
        mkw["population_size"] = 1.0
    ages = np.unique(ts.nodes_time[samples])
    k_eff = k_opt if k_opt is not None else (100 if ages.size > 1 else 0)
    e_eff = e_opt if e_opt is not None else 1e-8
    desc = {"level": "plumbing", "class": cls, "opts": {k: v for k, v in kw.items()}, "sample_ages": int(ages.size),
            "style": style, "ts": gen.ts_summary(ts)}
    replay = {"level": "plumbing", "ts": gen.ts_tables_dict(ts), "class": cls, "opts": kw, "t": [float(x) for x in t]}
    with warnings.catch_warnings():
        warnings.simplefilter("ignore")
        try:
            m = getattr(core, cls)(ts, **mkw)
        except Exception as e:  # noqa  (e.g. the discrete methods reject non-contemporaneous samples)
            ctx.case(dict(desc, outcome=type(e).__name__), nontrivial=False, kind="plumbing/raise")
            return
        res = core.Results(t.copy(), np.ones(ts.num_nodes), None, None, 0.0, ts.mutations_node.copy(), None)
        try:
            out = m.get_modified_ts(res)
            got = ("ok", [float(x) for x in out.nodes_time])
        except Exception as e:  # noqa
            got = ("raise", type(e).__name__)
        try:
            want = ("ok", [float(x) for x in U.constrain_ages(ts, t.copy(), e_eff, k_eff)])
        except Exception as e:  # noqa
            want = ("raise", type(e).__name__)
    if want[0] == "ok":
        # get_modified_ts also has to build a tree sequence from the times; when tskit rejects them both raise
        tb = ts.dump_tables()
        tb.nodes.time = np.array(want[1])
        try:
            import tskit
            tb.mutations.time = np.full(tb.mutations.num_rows, tskit.UNKNOWN_TIME)
            tb.sort()
            tb.tree_sequence()
        except Exception as e:  # noqa
            want = ("raise", type(e).__name__)
    changed = want[0] == "ok" and not K.same_floats(want[1], [float(x) for x in t])
    ctx.case(dict(desc, outcome=got[0], changed=changed), nontrivial=changed, kind="plumbing/" + got[0])
    if want[0] == "ok" and got[0] == "ok":
        if not K.same_floats(want[1], got[1]):
            bad = [u for u in range(len(got[1])) if want[1][u] != got[1][u]][:5]
            ctx.oracle_fail("options-not-honoured",
                            "%s(%r).get_modified_ts: node times differ from constrain_ages(means, min_branch_length=%r, iterations=%r) "
                            "at nodes %r (e.g. node %d: expected %r, got %r)" % (cls, kw, e_eff, k_eff, bad, bad[0], want[1][bad[0]], got[1][bad[0]]), replay)
    elif want[0] != got[0]:
        ctx.oracle_fail("options-not-honoured/outcome", "%s(%r).get_modified_ts %s but constrain_ages with (%r, %r) %s"
                        % (cls, kw, got, e_eff, k_eff, want[0]), replay)


def run(ctx, model_ok=True):
    for _ in range(ctx.n(60, 400)):
        plumbing_oracle(ctx, ctx.rng)
    n = ctx.n(240, 1500)
    cases = [K.make_case(ctx.rng) for _ in range(n)]
    strict = [s for s in (strict_case(ctx.rng) for _ in range(n // 3)) if s]
    allc = cases + strict
    if model_ok:
        impl = K.correspondence(ctx, allc)
    else:
        impl = [K.run_impl(c) for c in allc]
    for c, out in zip(allc, impl):
        changed = out != "assert" and not K.same_floats(out, c["t"])
        ctx.case({"nodes": len(c["t"]), "edges": len(c["parent"]), "eps": c["eps"], "k": c["k"],
                  "style": c["style"], "t": c["t"][:12], "out": out if out == "assert" else out[:12]},
                 nontrivial=changed or c["k"] > 0, kind=c["style"] + ("/changed" if changed else "/same"))
        oracle(ctx, c, out)
    for c, out in zip(strict, impl[len(cases):]):
        if out == "assert" or not K.same_floats(out, c["t"]):
            ctx.oracle_fail("strict-unchanged", "strictly constrained times were modified",
                            {"case": c, "impl": out})
    for _ in range(ctx.n(60, 600)):
        pipeline_oracle(ctx, ctx.rng)


def search(ctx):
    """extended failing-input search when a tie broke: 10x oracle-only cases"""
    for _ in range(ctx.n(600, 3000)):
        c = K.make_case(ctx.rng)
        oracle(ctx, c, K.run_impl(c))
        if ctx.oracle_fails:
            return
    for _ in range(ctx.n(300, 1500)):
        pipeline_oracle(ctx, ctx.rng)
        if ctx.oracle_fails:
            return


def replay(ctx, data):
    case = data["case"]["case"]
    out = K.run_impl(case)
    before = len(ctx.oracle_fails)
    oracle(ctx, case, out)
    return len(ctx.oracle_fails) == before
