"""C27 -- constraint enforcement is minimal and idempotent."""
from props import _constrain as K

ENV_BY_TIER = {"quick": {"NUMBA_DISABLE_JIT": "1"}, "thorough": {}}

RULE = ("msprime tree sequences (2-7 samples, 1-1000 bp, Kingman/Beta/Dirac mergers, historical and internal "
        "samples) x time-vector styles (noise, ties, reversed, 1e6..1e12, 1e-6..1e-12, zero, valid) x eps x "
        "iteration counts; a case is non-trivial when the kernel changes at least one time or k>0; distinct by "
        "content hash")
ASSUME = ["tskit edge-table order gives children_first (checked on every generated input by the model's "
          "children_firstb)", "numba compiles _constrain_ages without fast-math"]


def oracle(ctx, case, out):
    """the property itself, on the implementation's output, in doubles"""
    if out == "assert":
        return
    if case["k"] == 0:
        ref = K.lfp_reference(case)
        if not K.same_floats(ref, out):
            ctx.oracle_fail("lfp", "k=0 output is not max(t[u], max_c t'[c]+eps)",
                            {"case": case, "impl": out, "expected": ref})
    # idempotence for every k
    again = K.run_impl(dict(case, t=out))
    if not K.same_floats(again, out):
        ctx.oracle_fail("idempotent", "constraining constrained times changed them",
                        {"case": case, "first": out, "second": again})
    # every constraint holds afterwards
    for p, c in zip(case["parent"], case["child"]):
        if not (out[c] + case["eps"] <= out[p]):
            ctx.oracle_fail("sat", "edge %d->%d violates t[c]+eps<=t[p]" % (p, c), {"case": case, "impl": out})
            break


def strict_case(rng):
    """a vector that already satisfies every constraint strictly"""
    from vlib import gen
    ts = gen.sim_ts(rng)
    eps = rng.choice(K.EPS_CHOICES)
    scale = rng.choice([1.0, 1e3, 1e-3])
    c = K.make_case(rng, ts=ts, style="valid", eps=eps, k=rng.choice(K.ITER_CHOICES))
    t = [x * scale for x in c["t"]]
    ok = all(t[ch] + eps < t[p] for p, ch in zip(c["parent"], c["child"]))
    c["t"] = t
    return c if ok else None


def run(ctx, model_ok=True):
    n = ctx.n(240, 1500)
    cases = [K.make_case(ctx.rng) for _ in range(n)]
    strict = [s for s in (strict_case(ctx.rng) for _ in range(n // 3)) if s]
    allc = cases + strict
    if model_ok:
        impl = K.correspondence(ctx, allc)
    else:
        impl = [K.run_impl(c) for c in allc]
    for c, out in zip(allc, impl):
        changed = out != "assert" and not K.same_floats(out, c["t"])
        ctx.case({"nodes": len(c["t"]), "edges": len(c["parent"]), "eps": c["eps"], "k": c["k"],
                  "style": c["style"], "t": c["t"][:12], "out": out if out == "assert" else out[:12]},
                 nontrivial=changed or c["k"] > 0, kind=c["style"] + ("/changed" if changed else "/same"))
        oracle(ctx, c, out)
    for c, out in zip(strict, impl[len(cases):]):
        if out == "assert" or not K.same_floats(out, c["t"]):
            ctx.oracle_fail("strict-unchanged", "strictly constrained times were modified",
                            {"case": c, "impl": out})


def search(ctx):
    """extended failing-input search when a tie broke: 10x oracle-only cases"""
    for _ in range(ctx.n(600, 3000)):
        c = K.make_case(ctx.rng)
        oracle(ctx, c, K.run_impl(c))
        if ctx.oracle_fails:
            return


def replay(ctx, data):
    case = data["case"]["case"]
    out = K.run_impl(case)
    before = len(ctx.oracle_fails)
    oracle(ctx, case, out)
    return len(ctx.oracle_fails) == before
