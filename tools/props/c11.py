"""C11 -- discrete-time dating is invariant to node numbering and input time order."""
import math
import numpy as np
from props import _discrete as D

ENV_BY_TIER = {"quick": {"NUMBA_DISABLE_JIT": "1"}, "thorough": {}}
ENV = {"XDG_CACHE_HOME": "/verif/.work/disc/cache"}
COQ_REQ = ("lib.Num", "model.Discrete", "model.DiscreteFloat")
TOL = 1e-9   # relative, on returned node times / posterior means (measured <= 1e-13, see evidence notes)

RULE = ("metamorphic pairs: a base input (msprime, 2-7 contemporaneous samples, 1-15 trees, some with multiple "
        "mergers; or a single tree of any shape up to 5 leaves) and a transformed copy in which the non-sample nodes "
        "are renumbered by a random permutation and/or re-timed (an increasing function of the old times, or fresh "
        "random times that only keep parent > child, which changes the order of unrelated nodes); both are dated "
        "with tsdate.inside_outside and tsdate.maximization, in a random probability space, (a) with an explicit "
        "prior grid carried through the permutation and (b) with the default conditional-coalescent prior built "
        "by tsdate from population_size and (c) with a prior built by tsdate.build_prior_grid on each copy (exact / "
        "approximate / gamma, 4-20 timepoints, allow_unary for the 20% of multi-tree inputs with a unary chain); the same "
        "options go to both copies (outside_standardize and cache_inside on/off, num_threads None/1(/2), numpy-typed "
        "values); re-timing includes exactly tied times; ~40% of the base inputs carry vlib.gen.exotic decorations "
        "(extra flag bits, ALL nodes renumbered, mutation-free sites, allele strings, populations, mutation times); "
        "thorough adds 4 larger inputs (12-18 samples); results are compared through the permutation. A pair is non-trivial when "
        "the permutation is not the identity or the time order of the non-sample nodes changes; distinct by hash."
        "About half of the inputs carry 1-3 extra mutations that sit on NO edge (above the root of the local tree; valid tskit input); the references count only mutations on edges, computed from the tables.")
ASSUME = ["tskit's table sort / tree-sequence validation (the transformed copy is rebuilt and sorted by tskit)",
          "the correspondence of the inside pass model is the one of C10/C12 (re-run here on the transformed inputs)"]


def transform(rng, d):
    """renumber and/or re-time; returns (new dict, old->new id map, description)"""
    what = rng.choice(["renumber", "renumber", "retime-monotone", "retime-free", "retime-ties", "both", "both", "both"])
    m = {u: u for u in range(len(d["nodes_time"]))}
    out = d
    if what in ("renumber", "both"):
        out, m = D.renumber(out, rng)
    if what in ("retime-monotone", "retime-free", "retime-ties", "both"):
        mode = "monotone" if what == "retime-monotone" else ("ties" if what == "retime-ties" else
                                                             rng.choice(["free", "free", "monotone", "ties"]))
        new = D.retime(out, rng, mode)
        if new is not None:
            out = new
            what += "/" + mode
    return out, m, what


def gen_pairs(ctx, n_multi, n_single):
    rng = ctx.rng
    pairs = []
    shapes = [s for k in range(2, 6) for s in D.tree_shapes(k)]
    nbig = 4 if ctx.tier == "thorough" else 0
    for k in range(n_multi + n_single + nbig):
        unary = False
        if k >= n_multi + n_single:
            d = D.sim_dict(rng, n=rng.randint(12, 18), big=True)
            kind = "big"
        elif k < n_multi:
            d = D.sim_dict(rng, n=rng.randint(2, 7))
            kind = "multi"
            if rng.random() < 0.2:
                d2 = D.add_unary_chain(d, rng)
                if d2 is not None:
                    d, unary, kind = d2, True, "multi+unary"
        else:
            d = D.shape_to_tables(rng.choice(shapes), rng, L=rng.choice([1.0, 10.0, 1000.0]))
            d = D.canon(D.add_mutations(d, [rng.choice([0, 0, 1, 1, 2, 3]) for _ in d["edges"]], rng))
            kind = "single"
        o = D.random_options(rng, ctx.tier == "thorough")
        o["built_kind"] = rng.choice(["built", "built-approx", "built-gamma"])
        o["prior_timepoints"] = rng.choice([4, 8, 20])
        if kind == "big":
            o["space"] = D.LOG
        base = D.make_case(rng, d, kind=kind, allow_unary=unary, **o)
        d = base["ts"]
        d2, m, what = transform(rng, d)
        other = dict(base)
        other["ts"] = d2
        other["prior"] = {str(m[int(u)]): row for u, row in base["prior"].items()}
        order = [m[u] for u in base["nonfixed_order"]]
        rng.shuffle(order)     # the row order of the prior object is arbitrary too
        other["nonfixed_order"] = order
        pairs.append((base, other, m, what))
    return pairs


def api(case, method, default_prior):
    """default_prior: False = explicit prior rows carried through the permutation; "pop" = tsdate builds its
    default prior from population_size; "built" = a prior built by tsdate.build_prior_grid on this input
    (exact / approximate / gamma), as a user would"""
    import tsdate
    ts = D.ts_from_dict(case["ts"])
    kw = dict(mutation_rate=D.opt(case, "mu", case["mu"]), eps=D.opt(case, "eps", case["eps"]),
              probability_space=case["space"], num_threads=case.get("num_threads"),
              cache_inside=D.opt(case, "cache", bool(case.get("cache_inside"))),
              return_fit=True, record_provenance=False)
    if case.get("allow_unary"):
        kw["allow_unary"] = True
    if default_prior == "pop":
        kw["population_size"] = 1.0
    elif default_prior == "built":
        kw["priors"] = D.built_priors(dict(case, prior_kind=case.get("built_kind", "built")), ts)
    else:
        kw["priors"] = D.make_priors(case, ts)
    if method == "inside_outside":
        kw["outside_standardize"] = D.opt(case, "out_std", bool(case.get("out_std", True)))
        new, fit = tsdate.inside_outside(ts, **kw)
        mn = [n.metadata.get("mn") if n.metadata else None for n in new.nodes()]
        return {"times": [float(x) for x in new.nodes_time], "mn": mn, "fit": fit}
    new, fit = tsdate.maximization(ts, **kw)
    return {"times": [float(x) for x in new.nodes_time], "pm": [float(x) for x in fit.posterior_mean], "fit": fit}


KC11 = "K-C11-1:unary-chain-prior-depends-on-node-order"


def unary_chain_len2(d):
    """does the input have two consecutive nodes (parent/child in some tree) that are unary wherever they appear?"""
    ts = D.ts_from_dict(d)
    only_unary = set(range(ts.num_nodes))
    seen = set()
    for tree in ts.trees():
        for u in tree.nodes():
            if tree.num_children(u) != 1:
                only_unary.discard(u)
            seen.add(u)
    only_unary &= seen
    for tree in ts.trees():
        for u in only_unary:
            p = tree.parent(u)
            if p != -1 and p in only_unary:
                return True
    return False


def built_priors_differ(base, other, m, default_prior):
    """is the prior that tsdate builds for the two copies different (through the permutation)?"""
    import tsdate
    out = []
    for c in (base, other):
        ts = D.ts_from_dict(c["ts"])
        if default_prior == "pop":
            out.append(tsdate.build_prior_grid(ts, 1.0, allow_unary=bool(c.get("allow_unary"))))
        else:
            out.append(D.built_priors(dict(c, prior_kind=c.get("built_kind", "built")), ts))
    pa, pb = out
    if len(pa.timepoints) != len(pb.timepoints) or not np.allclose(pa.timepoints, pb.timepoints, rtol=1e-12):
        return True
    return any(not np.allclose(pa[u], pb[m[u]], rtol=1e-9, atol=0) for u in pa.nonfixed_nodes)


def classify(base, other, m, default_prior, sig):
    """the known defect K-C11-1 (prior.py SpansBySamples.second_pass visits unassigned unary nodes in set order,
    so with allow_unary=True and a chain of >= 2 only-unary nodes the BUILT prior depends on node order) gets its
    own signature; every other failure keeps the generic one"""
    try:
        if default_prior and base.get("allow_unary") and unary_chain_len2(base["ts"]) \
                and built_priors_differ(base, other, m, default_prior):
            return KC11
    except Exception:
        pass
    return sig


def rel(a, b):
    if a is None or b is None:
        return 0.0 if a is b else math.inf
    if a == b:
        return 0.0
    if math.isnan(a) or math.isnan(b):
        return 0.0 if (math.isnan(a) and math.isnan(b)) else math.inf
    return abs(a - b) / max(abs(a), abs(b), 1e-300)


def oracle_pair(ctx, base, other, m, what, stats):
    rp = {"case": base, "transformed": other, "map": {str(k): v for k, v in m.items()}, "what": what}
    n = len(base["ts"]["nodes_time"])
    for default_prior in (False, "pop", "built"):
        tag = {False: "explicit-prior", "pop": "default-prior", "built": "built-prior:" + str(base.get("built_kind"))}[default_prior]
        # ---- inside_outside
        try:
            a = api(base, "inside_outside", default_prior)
            b = api(other, "inside_outside", default_prior)
        except Exception as e:
            ctx.oracle_fail("exception:" + type(e).__name__, "inside_outside raised %r (%s)" % (e, tag), rp)
            return
        worst = 0.0
        for u in range(n):
            worst = max(worst, rel(a["times"][u], b["times"][m[u]]), rel(a["mn"][u], b["mn"][m[u]]))
        if worst <= TOL:
            stats["io"] = max(stats.get("io", 0.0), worst)
        if not worst <= TOL:
            ctx.oracle_fail(classify(base, other, m, default_prior, "inside_outside/" + tag),
                            "dates change by %.3g under %s (%s)" % (worst, what, tag),
                            dict(rp, base_times=a["times"], transformed_times=b["times"]))
        # ---- maximization
        try:
            a = api(base, "maximization", default_prior)
            b = api(other, "maximization", default_prior)
        except Exception as e:
            ctx.oracle_fail("exception:" + type(e).__name__, "maximization raised %r (%s)" % (e, tag), rp)
            return
        same = all(a["pm"][u] == b["pm"][m[u]] for u in range(n))
        if same:
            worst = max(rel(a["times"][u], b["times"][m[u]]) for u in range(n))
            stats["max"] = max(stats.get("max", 0.0), worst)
            if not worst <= TOL:
                ctx.oracle_fail(classify(base, other, m, default_prior, "maximization-constrained/" + tag),
                                "same timepoints but returned times differ by %.3g under %s" % (worst, what), rp)
        else:
            # numerically tied timepoints may be broken differently: the transformed run's choice, mapped
            # back, must satisfy the documented rule on the base input up to 1e-9
            grid = [float(x) for x in a["fit"].lik.timepoints]
            inv = {v: k for k, v in m.items()}
            idx_b = D.grid_index(grid, b["pm"])
            idx_back = [idx_b[m[u]] for u in range(n)]
            cc = dict(base, grid=grid)
            bad = [("?", "off grid")] if None in idx_back else D.rule_check(
                cc, D.inside_rows(a["fit"], n), idx_back, tol=1e-9)
            if bad:
                ctx.oracle_fail(classify(base, other, m, default_prior, "maximization/" + tag),
                                "timepoints change under %s and are not tied: %r (%s)" % (what, bad[:2], tag),
                                dict(rp, base_pm=a["pm"], transformed_pm=b["pm"]))
            else:
                ctx.tally("maximization/tie-broken-differently")


def order_changed(base, other, m):
    ns = [u for u, f in enumerate(base["ts"]["nodes_flags"]) if not f]
    t0 = base["ts"]["nodes_time"]
    t1 = other["ts"]["nodes_time"]
    o0 = sorted(ns, key=lambda u: (t0[u], u))
    o1 = sorted(ns, key=lambda u: (t1[m[u]], m[u]))
    return o0 != o1


def run(ctx, model_ok=True):
    pairs = gen_pairs(ctx, ctx.n(25, 150), ctx.n(10, 60))
    stats = {}
    for base, other, m, what in pairs:
        ident = all(k == v for k, v in m.items())
        changed = order_changed(base, other, m)
        s = D.summary(base)
        s["transform"] = what
        ctx.case(s, nontrivial=(not ident) or changed,
                 kind=base["kind"] + "/" + what + ("/order-changed" if changed else "/order-kept"))
        oracle_pair(ctx, base, other, m, what, stats)
    ctx.notes["max_relative_change_inside_outside"] = stats.get("io")
    ctx.notes["max_relative_change_maximization"] = stats.get("max")
    ctx.notes["tolerance"] = TOL
    if model_ok:
        # the model of the inside/outside passes on the transformed inputs (edge orders differ from the base)
        cases = [o for _b, o, _m, _w in pairs[: ctx.n(20, 120)] if o["kind"] != "big"]
        res = []
        for c in cases:
            try:
                res.append(D.run_io_impl(c))
            except Exception:
                res.append(None)
        D.io_correspondence(ctx, cases, res, COQ_REQ)


def search(ctx):
    stats = {}
    for base, other, m, what in gen_pairs(ctx, ctx.n(150, 600), ctx.n(50, 200)):
        oracle_pair(ctx, base, other, m, what, stats)
        if ctx.oracle_fails:
            return


def replay(ctx, data):
    c = data["case"]
    m = {int(k): v for k, v in c["map"].items()}
    before = len(ctx.oracle_fails)
    oracle_pair(ctx, c["case"], c["transformed"], m, c["what"], {})
    return len(ctx.oracle_fails) == before
