"""C18 -- EP moment updates respect support and match the true tilted moments."""
import math

from props import _approx as A

# pure-Python kernels in both tiers: the projection wrappers have to be wrapped from outside to record
# the arguments real EP runs pass to them; the thorough tier additionally re-evaluates every generated
# case with the numba-compiled functions in a subprocess (JIT on) and compares.
ENV_BY_TIER = {"quick": {"NUMBA_DISABLE_JIT": "1"}, "thorough": {"NUMBA_DISABLE_JIT": "1"}}
LEVEL = "proof"

RULE = ("(1) argument tuples RECORDED from tsdate.date (variational_gamma) runs on small msprime tree sequences "
        "(haploid/diploid, phased/unphased singletons, internal and historical samples) for all 14 projection "
        "wrappers; (2) those tuples moved within EP's range: one common change of time unit c in 1e-6..1e6 and "
        "independent factors in [1/2, 2] on every shape (kept >= 1), rate, count and span; (3) coherent "
        "log-uniform situations (time scale 1e-4..1e8, shapes 1..5e3, counts 0..1e4 incl. fractional); "
        "(4) for the float correspondence of the translated text also shapes down to 0.05, zero / negative / "
        "infinite / NaN arguments (guards and assertions).  A case is non-trivial when the update is not skipped.")
ASSUME = [
    "tools/translate.py reads the Python of approx.py/hypergeo.py correctly (its reading is listed in its docstring); "
    "checked on every run by evaluating the translated text on binary64 inside Coq against the implementation",
    "special-function values (exp, log, lgamma) used by the float instance of the translated text are the ones "
    "recorded from the implementation's own run (libm); sqrt is PrimFloat's",
    "mpmath tanh-sinh quadrature (25 digits) of the tilted densities as written in the docstrings of approx.py is "
    "the reference for the accuracy clause; the Laplace approximations' accuracy is TESTED against it, not proved",
]

# Tolerances, measured on the unchanged tree (see manifest note): relative error of the returned MEAN
# against numerical integration.
TOL_MEAN_EP = 0.05        # tuples recorded from EP runs: measured max 1.7 % (240 integrated tuples per wrapper)
TOL_MEAN_GEN = 0.10       # perturbed recorded tuples: measured max 3.3 %; log-uniform coherent tuples with
                          # shapes >= 1: measured max 5.1 % (750 situations x 5 families)
TOL_VAR_EP = 0.30         # VARIANCE on recorded tuples only: measured max 3 % (not part of the property text's
                          # accuracy clause; it makes variance-only formula edits produce a failing input)
TOL_CLOSED = 1e-10        # closed-form cases

GROUP = None


def group():
    import translate
    g = translate.GROUPS["C18"]
    return g["hypergeo"] + g["approx"]


def regen(ctx):
    A.regen(ctx)


# ------------------------------------------------------------------ the property on one update
def nat_mean(p):
    return (p[0] + 1.0) / p[1]


def nat_var(p):
    return (p[0] + 1.0) / (p[1] * p[1])


def finite(*xs):
    return all(isinstance(x, float) and x == x and not math.isinf(x) for x in xs)


def sane(args):
    for x in A.flat(tuple(args)):
        if not finite(x) or (x != 0.0 and not (1e-100 <= abs(x) <= 1e100)):
            return False
    return True


def valid_input(fn, args):
    """a valid gamma cavity and edge data: shapes > 0, rates > 0, count >= 0, span > 0, ages in order"""
    params = A.info()["meta"][fn]["params"]
    d = dict(zip(params, args))
    for p in ("pars_i", "pars_j"):
        if p in d:
            a, b = d[p]
            if not (finite(a, b) and a + 1.0 > 0 and b > 0):
                return False
    if "pars_ij" in d:
        y, mu = d["pars_ij"]
        if not (finite(y, mu) and y >= 0 and mu > 0):
            return False
    if fn in ("mutation_edge_projection",):
        return finite(*args) and args[0] > args[1] >= 0
    if fn in ("mutation_block_projection",):
        return finite(*args) and args[0] > 0 and args[1] > 0
    if "t_i" in d and not (finite(d["t_i"]) and d["t_i"] > 0):
        return False
    if "t_j" in d and not (finite(d["t_j"]) and d["t_j"] >= 0):
        return False
    return True


def reference(fn, args):
    """numerically integrated moments of the tilted distribution this wrapper projects"""
    from props import _approx_ref as R
    d = dict(zip(A.info()["meta"][fn]["params"], args))
    if fn in ("gamma_projection", "mutation_gamma_projection"):
        (ai, bi), (aj, bj), (y, mu) = d["pars_i"], d["pars_j"], d["pars_ij"]
        return R.pair(ai + 1, bi, aj + 1, bj, y, mu)
    if fn in ("unphased_projection", "mutation_unphased_projection"):
        (ai, bi), (aj, bj), (y, mu) = d["pars_i"], d["pars_j"], d["pars_ij"]
        return R.unphased(ai + 1, bi, aj + 1, bj, y, mu)
    if fn in ("rootward_projection", "mutation_rootward_projection"):
        (a, b), (y, mu) = d["pars_i"], d["pars_ij"]
        return R.rootward(d["t_j"], a + 1, b, y, mu)
    if fn in ("leafward_projection", "mutation_leafward_projection"):
        (a, b), (y, mu) = d["pars_j"], d["pars_ij"]
        return R.leafward(d["t_i"], a + 1, b, y, mu)
    if fn in ("sideways_projection", "mutation_sideways_projection"):
        (a, b), (y, mu) = d["pars_j"], d["pars_ij"]
        return R.sideways(d["t_i"], a + 1, b, y, mu)
    if fn in ("twin_projection", "mutation_twin_projection"):
        (a, b), (y, mu) = d["pars_i"], d["pars_ij"]
        return R.twin(a + 1, b, y, mu)
    return None


def closed_form(fn, args):
    """exact natural parameters / moments where the tilted distribution is known in closed form"""
    d = dict(zip(A.info()["meta"][fn]["params"], args))
    if fn == "rootward_projection" and d["t_j"] == 0.0:
        (a, b), (y, mu) = d["pars_i"], d["pars_ij"]
        return {"nat": [(a + y, b + mu)]}                       # gamma conjugacy
    if fn == "twin_projection":
        (a, b), (y, mu) = d["pars_i"], d["pars_ij"]
        return {"nat": [(a + y, b + 2 * mu)]}
    if fn == "mutation_edge_projection":
        ti, tj = args
        return {"pr": 1.0, "mean": (ti + tj) / 2, "var": (ti - tj) ** 2 / 12}     # uniform
    if fn == "mutation_block_projection":
        ti, tj = args
        pr = ti / (ti + tj)
        mean = pr * ti / 2 + (1 - pr) * tj / 2
        return {"pr": pr, "mean": mean, "var": pr * ti * ti / 3 + (1 - pr) * tj * tj / 3 - mean * mean}
    if fn == "mutation_twin_projection":
        (a, b), (y, mu) = d["pars_i"], d["pars_ij"]
        s, r = a + 1 + y, b + 2 * mu
        return {"pr": 0.5, "mean": s / r / 2, "var": (s + 1) * s / (3 * r * r) - (s / r / 2) ** 2}
    if fn == "mutation_rootward_projection" and d["t_j"] == 0.0:
        (a, b), (y, mu) = d["pars_i"], d["pars_ij"]
        s, r = a + 1 + y, b + mu
        return {"pr": 1.0, "mean": s / r / 2, "var": (s + 1) * s / (3 * r * r) - (s / r / 2) ** 2}
    return None


def rel(a, b):
    return abs(a - b) / max(abs(b), 1e-300)


def check_update(ctx, fn, args, tol_mean, with_ref, source):
    """the property text on ONE update of the implementation; returns 'raise' / 'skip' / 'value'"""
    case = {"fn": fn, "args": A.jsonable(args), "source": source}
    out = A.run_py(A.real_fn(fn), args)
    if out in ("ValueError", "OverflowError"):
        # pure-Python math raises on domain / range errors where libm (and numba-compiled code) returns
        # nan / inf: decide the case on the twin, which has the C semantics
        out, _ = A.twin().call(fn, args)
        if out == "OverflowError":          # float ** int overflow: Python-only, cannot be decided here
            ctx.tally("python-only-overflow-not-decided")
            return "raise"
    case["impl"] = A.jsonable(out)
    ok_in = valid_input(fn, args)
    if isinstance(out, str):
        # an exception is neither a skip nor a result.  It is a violation on every input in EP's range
        # (recorded, perturbed, coherent); on the "wild" stream (independent magnitudes 1e-300..1e300, inf,
        # nan: not a range EP produces) assertions may fire and are only counted
        if out == "KLMinimizationFailedError":
            # C18_skip_or_valid: for EVERY input the guards keep the projection inside its domain
            ctx.oracle_fail("raises:%s:%s" % (fn, out), "the update is not skipped although its moments are not a "
                            "positive mean and variance: approximate_gamma_mom raises", case)
        elif ok_in and source != "wild":
            ctx.oracle_fail("raises:%s:%s" % (fn, out), "a valid update neither skips nor returns moments: it raises " + out, case)
        else:
            ctx.tally("raises-outside-ep-range:" + out)
        return "raise"
    first = out[0]
    if first != first:
        return "skip"
    if source == "wild" and not sane(args):
        # magnitudes beyond 1e+-100: binary64 overflows (e.g. mean^2 of a count of 1e300) where the real-number
        # theorem has no such limit; DESIGN.md section 11.  Only the exception clause above is checked there.
        ctx.tally("wild-beyond-1e100-values-not-checked")
        return "value"
    # --- finite moments, positive variance, phase in [0, 1]
    pars = [p for p in out[1:]]
    if not finite(first) and fn.startswith("mutation_"):
        ctx.oracle_fail("valid:%s" % fn, "phase probability is not finite", case)
        return "value"
    for p in pars:
        if not (finite(*p) and p[0] + 1.0 > 0 and p[1] > 0):
            ctx.oracle_fail("valid:%s" % fn, "update not skipped but the returned gamma is improper: %r" % (p,), case)
            return "value"
    if fn.startswith("mutation_") and not (0.0 <= first <= 1.0):
        ctx.oracle_fail("phase:%s" % fn, "phase probability %r outside [0, 1]" % first, case)
    if not ok_in:
        return "value"
    d = dict(zip(A.info()["meta"][fn]["params"], args))
    means = [nat_mean(p) for p in pars]
    # --- support of the tilted distribution (strict on EP's range; in the "extreme" corners, where the
    # likelihood pins a node to within 1e-5..1e-9 of a fixed age, the Laplace mean was measured to overshoot
    # the bound by 6e-8 relative on the unchanged tree: slack 1e-6 there)
    slack = 1e-6 if source == "extreme" else 0.0
    d = dict(d)
    if "t_i" in d:
        d["t_i"] = d["t_i"] * (1 + slack)
    if "t_j" in d:
        d["t_j"] = d["t_j"] * (1 - slack)
    bad = None
    if fn == "rootward_projection" and not means[0] > d["t_j"]:
        bad = "free parent mean %r not above the fixed child %r" % (means[0], d["t_j"])
    if fn == "leafward_projection" and not 0 < means[0] < d["t_i"]:
        bad = "free child mean %r not below the fixed parent %r" % (means[0], d["t_i"])
    if fn == "gamma_projection" and not means[0] > means[1] > 0:
        bad = "free parent mean %r not above free child mean %r" % (means[0], means[1])
    if fn == "mutation_rootward_projection" and not means[0] > d["t_j"]:
        bad = "mutation mean %r not above the fixed child %r" % (means[0], d["t_j"])
    if fn == "mutation_leafward_projection" and not 0 < means[0] < d["t_i"]:
        bad = "mutation mean %r not below the fixed parent %r" % (means[0], d["t_i"])
    if fn == "mutation_edge_projection" and not d["t_j"] < means[0] < d["t_i"]:
        bad = "mutation mean %r not between the fixed ends" % means[0]
    if fn == "mutation_block_projection" and not 0 < means[0] < max(d["t_i"], d["t_j"]):
        bad = "mutation mean %r not below the older fixed parent" % means[0]
    if fn == "mutation_sideways_projection" and not 0 < means[0]:
        bad = "mutation mean not positive"
    if bad:
        ctx.oracle_fail("support:%s" % fn, bad, case)
    # --- closed forms are exact
    cf = closed_form(fn, args)
    if cf is not None:
        if "nat" in cf:
            for p, q in zip(pars, cf["nat"]):
                if not (A.close(p[0] + 1, q[0] + 1, TOL_CLOSED) and A.close(p[1], q[1], TOL_CLOSED)):
                    ctx.oracle_fail("closed:%s" % fn, "closed-form case: returned %r, exact %r" % (p, q), case)
        else:
            p = pars[0]
            # the variance of these mixtures is a difference; compare it relative to E[x^2]
            ok = (A.close(first, cf["pr"], TOL_CLOSED) and A.close(nat_mean(p), cf["mean"], 1e-9)
                  and abs(nat_var(p) - cf["var"]) <= 1e-9 * (cf["var"] + cf["mean"] ** 2))
            if not ok:
                ctx.oracle_fail("closed:%s" % fn, "closed-form case: returned phase %r mean %r var %r, exact %r" % (
                    first, nat_mean(p), nat_var(p), cf), case)
    # --- means agree with numerical integration
    if with_ref:
        r = reference(fn, args)
        if r is not None:
            if fn in ("gamma_projection", "unphased_projection"):
                pairs = [(means[0], r["mn_i"], "parent"), (means[1], r["mn_j"], "child")]
            elif fn.startswith("mutation_"):
                pairs = [(means[0], r["mn_m"], "mutation")]
            else:
                pairs = [(means[0], r["mn"], "node")]
            if source == "recorded":
                vars_ = [nat_var(p) for p in pars]
                if fn in ("gamma_projection", "unphased_projection"):
                    vpairs = [(vars_[0], r["va_i"], "parent"), (vars_[1], r["va_j"], "child")]
                elif fn.startswith("mutation_"):
                    vpairs = [(vars_[0], r["va_m"], "mutation")]
                else:
                    vpairs = [(vars_[0], r["va"], "node")]
                for got, want, what in vpairs:
                    e = rel(got, want)
                    ctx.notes["max_rel_err_var_recorded"] = max(ctx.notes.get("max_rel_err_var_recorded", 0.0), e)
                    if not e <= TOL_VAR_EP:
                        ctx.oracle_fail("variance:%s" % fn, "%s variance %r, numerical integration %r (relative error %.3g > %g)" % (
                            what, got, want, e, TOL_VAR_EP), case)
            for got, want, what in pairs:
                e = rel(got, want)
                ctx.notes["max_rel_err_mean_" + source] = max(ctx.notes.get("max_rel_err_mean_" + source, 0.0), e)
                if not e <= tol_mean:
                    ctx.oracle_fail("accuracy:%s" % fn, "%s mean %r, numerical integration %r (relative error %.3g > %g)" % (
                        what, got, want, e, tol_mean), case)
            ctx.tally("integrated:" + fn)
    return "value"


def coherent_args(rng, fn):
    """log-uniform coherent situation with shapes >= 1 for wrapper fn"""
    d = A.gen_edge(rng, min_shape=1.0, coherent_mu=True)
    params = A.info()["meta"][fn]["params"]
    out = []
    for p in params:
        if p in ("pars_i", "pars_j"):
            s = p[-1]
            out.append((d["a_" + s] - 1.0, d["b_" + s]))
        elif p == "pars_ij":
            out.append((d["y_ij"], d["mu_ij"]))
        else:
            out.append(d[p])
    if fn == "mutation_block_projection":
        out = [d["t_i"], d["t_i"] * A.lu(rng, 1e-3, 1e3)]
    if fn == "mutation_edge_projection" and rng.random() < 0.5:
        out[1] = out[0] * rng.uniform(0.0, 1.0)
    return out


def extreme_args(rng, fn):
    """valid situations in the corners of the hypergeometric arguments (shapes >= 1 as in EP):
    two-node updates with the 2F1 argument within 1e-5..1e-9 of 1 (mutational span, or one cavity rate,
    1e5..1e9 times the other rates) or at -1e5..-1e9, shapes up to 1.5e5; one-node updates with the argument of
    U / 1F1 at 1e-8 or 1e+8 times its usual size"""
    d = A.gen_edge(rng, min_shape=1.0, coherent_mu=True)
    f = A.lu(rng, 1e5, 1e9)
    if rng.random() < 0.2:
        d["a_i"] *= A.lu(rng, 1.0, 30.0)
        d["a_j"] *= A.lu(rng, 1.0, 30.0)
    two = fn in ("gamma_projection", "mutation_gamma_projection", "unphased_projection", "mutation_unphased_projection")
    if two:
        k = rng.choice(["mu", "b_i", "b_j"])
        if k == "mu":
            d["mu_ij"] = f * (d["b_i"] + d["b_j"])
        elif k == "b_i":
            d["b_i"] = f * (d["mu_ij"] + d["b_j"])
        else:
            d["b_j"] = f * (d["mu_ij"] + d["b_i"])
    else:
        g = rng.choice([f, 1.0 / f])
        k = rng.choice(["t", "mu", "b"])
        if k == "t":
            d["t_i"] *= g
            d["t_j"] *= g
        elif k == "mu":
            d["mu_ij"] *= g
        else:
            d["b_i"] *= g
            d["b_j"] *= g
    out = []
    for p in A.info()["meta"][fn]["params"]:
        if p in ("pars_i", "pars_j"):
            out.append((d["a_" + p[-1]] - 1.0, d["b_" + p[-1]]))
        elif p == "pars_ij":
            out.append((d["y_ij"], d["mu_ij"]))
        else:
            out.append(d[p])
    return out


# the two-node updates only: measured max relative error of the mean on the unchanged tree in these corners 1.1e-3.
# The one-node updates are NOT accurate in their corners (e.g. leafward with mu * t_i ~ 1e10: the child is pinned just
# below the parent and the Laplace mean is 42 % off, shape 0.5), so no accuracy is claimed or checked there.
EXTREME = ["gamma_projection", "mutation_gamma_projection", "unphased_projection", "mutation_unphased_projection"]


def oracle(ctx, rec, n_rec, n_ref_rec, n_gen, n_ref_gen):
    """rec: recorded tuples; per wrapper: n_rec recorded cases (n_ref_rec of them integrated),
    n_gen perturbed + n_gen coherent cases (n_ref_gen of each integrated)"""
    for fn in A.WRAPPERS:
        lst = list(rec.get(fn, []))
        ctx.rng.shuffle(lst)
        for k, args in enumerate(lst[:n_rec]):
            res = check_update(ctx, fn, args, TOL_MEAN_EP, k < n_ref_rec, "recorded")
            ctx.case({"fn": fn, "args": A.jsonable(args), "source": "recorded", "result": res},
                     nontrivial=res == "value", kind="oracle/%s/%s" % (fn, res))
        for k in range(n_gen):
            if lst:
                args = A.perturb(ctx.rng, fn, ctx.rng.choice(lst))
                res = check_update(ctx, fn, args, TOL_MEAN_GEN, k < n_ref_gen, "perturbed")
                ctx.case({"fn": fn, "args": A.jsonable(args), "source": "perturbed", "result": res},
                         nontrivial=res == "value", kind="oracle/%s/%s" % (fn, res))
            args = coherent_args(ctx.rng, fn)
            res = check_update(ctx, fn, args, TOL_MEAN_GEN, k < n_ref_gen, "coherent")
            ctx.case({"fn": fn, "args": A.jsonable(args), "source": "coherent", "result": res},
                     nontrivial=res == "value", kind="oracle/%s/%s" % (fn, res))
        if fn in EXTREME:
            for k in range(n_gen):
                args = extreme_args(ctx.rng, fn)
                res = check_update(ctx, fn, args, TOL_MEAN_GEN, k < n_ref_gen + 2, "extreme")
                ctx.case({"fn": fn, "args": A.jsonable(args), "source": "extreme", "result": res},
                         nontrivial=res == "value", kind="oracle/%s/%s" % (fn, res))
        # wild arguments: only the unconditional clauses (skip, or a proper gamma and a phase in [0,1])
        for _ in range(n_gen):
            args = A.gen_args(ctx.rng, fn)
            res = check_update(ctx, fn, args, TOL_MEAN_GEN, False, "wild")
            ctx.case({"fn": fn, "args": A.jsonable(args), "source": "wild", "result": res},
                     nontrivial=res == "value", kind="oracle/%s/%s" % (fn, res))


def run(ctx, model_ok=True):
    with A.phase(ctx, "record_ep"):
        rec, runs = A.record_ep(ctx.rng, ctx.n(10, 150))
    ctx.notes["ep_runs_recorded"] = runs
    ctx.notes["recorded_calls"] = {k: len(v) for k, v in rec.items()}
    if model_ok:
        extra = {}
        for fn in A.WRAPPERS:
            extra[fn] = list(rec.get(fn, []))[: ctx.n(4, 60)]
        with A.phase(ctx, "float_correspondence"):
            A.correspondence(ctx, group(), ctx.n(10, 150), extra=extra)
    with A.phase(ctx, "oracle"):
        oracle(ctx, rec, ctx.n(30, 300), ctx.n(2, 40), ctx.n(8, 80), ctx.n(1, 25))
    if ctx.tier == "thorough":
        with A.phase(ctx, "jit_check"):
            A.jit_check(ctx, group(), 200)


def search(ctx):
    """a tie broke (translator / proof / correspondence) and the oracle found nothing yet: look harder"""
    rec, _ = A.record_ep(ctx.rng, ctx.n(40, 150))
    oracle(ctx, rec, ctx.n(150, 600), ctx.n(15, 80), ctx.n(40, 200), ctx.n(12, 60))


def replay(ctx, data):
    case = data["case"]
    A.regen(None)
    args = [tuple(float(x) for x in a) if isinstance(a, list) else float(a) for a in case["args"]]
    before = len(ctx.oracle_fails)
    check_update(ctx, case["fn"], args, TOL_MEAN_EP if case.get("source") == "recorded" else TOL_MEAN_GEN, True,
                 case.get("source", "replay"))
    return len(ctx.oracle_fails) == before
