"""Shared by C32 / C33 / C02 / C04: inputs decorated with every kind of metadata,
individuals, populations, migrations, several mutations per site; the tabulated-codec
correspondence with coq/model/Glue.v; log capture; whole-table comparison helpers."""
import json
import logging
import math
import struct

import numpy as np

from vlib import gen
from vlib.coqfmt import cfloat, cZ, cbool, clist, cpair, copt, cnat

# ----------------------------------------------------------------------------- metadata kinds
# name -> (encodable-by-design?, comment).  "table" is a tskit NodeTable / MutationTable.
KINDS = [
    "none", "raw_all", "raw_some", "raw_zero",
    "json_perm_nobytes", "json_perm_rows", "json_perm_mnvr", "json_perm_mn_string",
    "json_obj_props", "json_default", "json_default_extra",
    "json_addl_false", "json_addl_false_mnvr",
    "json_required_nobytes", "json_required_rows",
    "json_mn_string_type", "json_mn_integer", "json_vr_min",
    "struct_with", "struct_with_zero", "struct_with_nobytes", "struct_with_default_nobytes", "struct_without",
    "struct_mn_f32",
    # codec raises something that is not a metadata error (finding C32-undecodable)
    "struct_mn_int", "json_badbytes", "json_array", "json_null_rows", "json_scalar",
    "struct_short", "json_restr_then_bad", "json_bad_then_restr",
]
CRASH_KINDS = {"struct_mn_int", "json_badbytes", "json_array", "json_null_rows", "json_scalar",
               "struct_short", "json_bad_then_restr"}
LOSSY_KINDS = {"struct_mn_f32"}


def _j(d):
    return json.dumps(d).encode()


def decorate(table, kind, rng):
    """install schema + row metadata of the given kind on a node / mutation table"""
    import tskit
    n = table.num_rows
    MS = tskit.MetadataSchema

    def rows(f):
        table.packset_metadata([f(i) for i in range(n)])

    def val():
        return rng.choice([1, 2.5, "x", [1, 2], {"q": None}, True, None, -7])

    if kind == "none":
        return
    if kind == "raw_all":
        rows(lambda i: b"raw%d" % i)
    elif kind == "raw_zero":
        rows(lambda i: b"\x00" * rng.choice([1, 4, 8]))      # metadata PRESENT although every stored byte is zero
    elif kind == "raw_some":
        k = rng.randrange(n)
        rows(lambda i: b"\x00\xff" if i == k else b"")
    elif kind == "json_perm_nobytes":
        table.metadata_schema = MS({"codec": "json"})
    elif kind == "json_perm_rows":
        table.metadata_schema = MS({"codec": "json"})
        some = rng.randrange(n)
        rows(lambda i: b"" if (i != some and rng.random() < 0.4) else _j({"name": "n%d" % i, "a": val()}))
    elif kind == "json_perm_mnvr":
        table.metadata_schema = MS({"codec": "json"})
        rows(lambda i: _j(rng.choice([{"mn": 1.5, "z": i, "vr": 2.5}, {"vr": 0.1, "mn": 7}, {"mn": 3}, {"b": 1}])))
    elif kind == "json_perm_mn_string":
        table.metadata_schema = MS({"codec": "json"})
        rows(lambda i: _j({"mn": "old", "k": i}))
    elif kind == "json_obj_props":
        table.metadata_schema = MS({"codec": "json", "type": "object",
                                    "properties": {"a": {"type": "number"}}})
        rows(lambda i: _j({"a": i}) if rng.random() < 0.7 else b"")
    elif kind == "json_default":
        from tsdate import schemas
        table.metadata_schema = (schemas.default_node_schema if type(table).__name__ == "NodeTable"
                                 else schemas.default_mutation_schema)
        rows(lambda i: _j({"mn": float(i), "vr": 0.5 * i}))
    elif kind == "json_default_extra":
        # a table dated before by tsdate (from schema-less tables) and annotated since: the
        # rows hold further keys next to mn / vr (e.g. preprocess_ts' unsplit_node_id)
        from tsdate import schemas
        table.metadata_schema = (schemas.default_node_schema if type(table).__name__ == "NodeTable"
                                 else schemas.default_mutation_schema)
        rows(lambda i: _j(rng.choice([{"mn": float(i), "vr": 0.5 * i, "unsplit_node_id": i},
                                      {"note": "kept?", "mn": 1.0, "vr": 2.0},
                                      {"unsplit_node_id": i, "tag": [i, "x"]}])))
    elif kind == "json_addl_false":
        table.metadata_schema = MS({"codec": "json", "type": "object", "properties": {"a": {"type": "number"}},
                                    "additionalProperties": False})
        rows(lambda i: _j({"a": i}))
    elif kind == "json_addl_false_mnvr":
        table.metadata_schema = MS({"codec": "json", "type": "object",
                                    "properties": {"a": {"type": "number"}, "mn": {"type": "number"},
                                                   "vr": {"type": "number"}},
                                    "additionalProperties": False})
        rows(lambda i: _j({"a": i}))
    elif kind == "json_required_nobytes":
        table.metadata_schema = MS({"codec": "json", "type": "object", "properties": {"a": {"type": "number"}},
                                    "required": ["a"]})
    elif kind == "json_required_rows":
        table.metadata_schema = MS({"codec": "json", "type": "object", "properties": {"a": {"type": "number"}},
                                    "required": ["a"]})
        rows(lambda i: _j({"a": i, "w": "keep"}))
    elif kind == "json_mn_string_type":
        table.metadata_schema = MS({"codec": "json", "type": "object", "properties": {"mn": {"type": "string"}}})
        rows(lambda i: _j({"mn": "s"}))
    elif kind == "json_mn_integer":
        table.metadata_schema = MS({"codec": "json", "type": "object", "properties": {"mn": {"type": "integer"}}})
        rows(lambda i: _j({"u": i}))
    elif kind == "json_vr_min":
        table.metadata_schema = MS({"codec": "json", "type": "object",
                                    "properties": {"vr": {"type": "number", "minimum": 0.25}}})
        rows(lambda i: _j({"u": i}))
    elif kind in ("struct_with", "struct_with_zero", "struct_with_nobytes"):
        table.metadata_schema = MS({"codec": "struct", "type": "object", "properties": {
            "a": {"type": "number", "binaryFormat": "i"}, "mn": {"type": "number", "binaryFormat": "d"},
            "vr": {"type": "number", "binaryFormat": "d"}}})
        if kind == "struct_with":
            sc = table.metadata_schema
            rows(lambda i: sc.validate_and_encode_row({"a": 3 * i + 1, "mn": 1.0, "vr": 2.0}))
        if kind == "struct_with_zero":                         # every stored byte is zero, yet the rows hold data
            sc = table.metadata_schema
            rows(lambda i: sc.validate_and_encode_row({"a": 0, "mn": 0.0, "vr": 0.0}))
    elif kind == "struct_with_default_nobytes":
        table.metadata_schema = MS({"codec": "struct", "type": "object", "properties": {
            "a": {"type": "number", "binaryFormat": "i", "default": 7},
            "mn": {"type": "number", "binaryFormat": "d"}, "vr": {"type": "number", "binaryFormat": "d"}}})
    elif kind == "struct_without":
        table.metadata_schema = MS({"codec": "struct", "type": "object", "properties": {
            "a": {"type": "number", "binaryFormat": "i"}}})
        sc = table.metadata_schema
        rows(lambda i: sc.validate_and_encode_row({"a": i}))
    elif kind == "struct_mn_f32":
        table.metadata_schema = MS({"codec": "struct", "type": "object", "properties": {
            "mn": {"type": "number", "binaryFormat": "f"}, "vr": {"type": "number", "binaryFormat": "d"}}})
        sc = table.metadata_schema
        rows(lambda i: sc.validate_and_encode_row({"mn": 1.0, "vr": 2.0}))
    elif kind == "struct_mn_int":
        table.metadata_schema = MS({"codec": "struct", "type": "object", "properties": {
            "mn": {"type": "number", "binaryFormat": "i"}, "vr": {"type": "number", "binaryFormat": "d"}}})
        sc = table.metadata_schema
        rows(lambda i: sc.validate_and_encode_row({"mn": 1, "vr": 2.0}))
    elif kind == "json_badbytes":
        table.metadata_schema = MS({"codec": "json"})
        rows(lambda i: rng.choice([b"notjson", b"{", b"\xff\xfe"]))
    elif kind == "json_array":
        table.metadata_schema = MS({"codec": "json"})
        rows(lambda i: b"[1,2]")
    elif kind == "json_null_rows":
        table.metadata_schema = MS({"codec": "json", "type": ["object", "null"]})
        rows(lambda i: b"null" if i == n - 1 else _j({"a": 1}))
    elif kind == "json_scalar":
        table.metadata_schema = MS({"codec": "json"})
        rows(lambda i: rng.choice([b"3", b'"x"']))
    elif kind == "struct_short":
        table.metadata_schema = MS({"codec": "struct", "type": "object", "properties": {
            "a": {"type": "number", "binaryFormat": "i"}, "mn": {"type": "number", "binaryFormat": "d"},
            "vr": {"type": "number", "binaryFormat": "d"}}})
        rows(lambda i: b"ab")
    elif kind == "json_restr_then_bad":
        # row 0 fails validation (metadata error) before the undecodable last row is reached
        table.metadata_schema = MS({"codec": "json", "type": "object", "properties": {"a": {"type": "number"}},
                                    "additionalProperties": False})
        rows(lambda i: b"{" if (i == n - 1 and n > 1) else _j({"a": i}))
    elif kind == "json_bad_then_restr":
        table.metadata_schema = MS({"codec": "json", "type": "object", "properties": {"a": {"type": "number"}},
                                    "additionalProperties": False})
        rows(lambda i: b"{" if i == 0 else _j({"a": i}))
    else:
        raise ValueError(kind)


# ----------------------------------------------------------------------------- small inputs
def _batch(rng, multi, extras, min_muts, max_muts, n, L, reps=12, migrations=None):
    """suitable tree sequences from ONE simulator set-up (msprime's set-up costs ~0.25 s,
    a replicate ~1 ms)"""
    import msprime
    n_ = n or rng.randint(2, 4)
    L_ = L or (rng.choice([3, 5, 10]) if multi else rng.choice([5, 20, 100]))
    seed = rng.randrange(1, 2 ** 31 - 1)
    rec = rng.choice([0, 0.02, 0.2]) * 5.0 / L_
    if extras:
        demog = msprime.Demography()
        demog.add_population(name="A", initial_size=1.0)
        demog.add_population(name="B", initial_size=1.0)
        demog.add_population(name="C", initial_size=1.0)
        demog.add_population_split(time=rng.choice([0.5, 2.0]), derived=["A", "B"], ancestral="C")
        demog.set_symmetric_migration_rate(["A", "B"], rng.choice([0.0, 0.5]))
        ploidy = rng.choice([1, 2])
        k = max(1, n_ // ploidy)
        it = msprime.sim_ancestry(samples={"A": k, "B": max(1, k // 2)}, demography=demog, ploidy=ploidy,
                                  sequence_length=L_, recombination_rate=rec, random_seed=seed,
                                  record_migrations=(rng.random() < 0.5) if migrations is None else migrations,
                                  num_replicates=reps)
    else:
        it = msprime.sim_ancestry(n_, ploidy=1, sequence_length=L_, population_size=1.0,
                                  recombination_rate=rec, random_seed=seed, num_replicates=reps)
    out = []
    for j, ts in enumerate(it):
        rate = rng.choice([1.0, 2.0, 4.0]) / L_ * (1.5 if multi else 1.0)
        ts = msprime.sim_mutations(ts, rate=rate, random_seed=seed + j + 1,
                                   discrete_genome=True if multi else rng.random() < 0.5)
        if not (min_muts <= ts.num_mutations <= max_muts):
            continue
        has_multi = any(len(s.mutations) > 1 for s in ts.sites())
        if has_multi != bool(multi):
            continue
        out.append(ts)
    return out


def base_ts(rng, multi=False, extras=False, min_muts=1, max_muts=12, n=None, L=None):
    """small msprime tree sequence with min_muts..max_muts mutations; multi: several mutations
    at some site (finite sites), otherwise at most one per site; extras: individuals,
    populations, migrations"""
    for _ in range(200):
        got = _batch(rng, multi, extras, min_muts, max_muts, n, L, reps=6)
        if got:
            return got[0]
    raise RuntimeError("no suitable tree sequence")


_POOLS = {}


def pooled_ts(rng, size=10, **kw):
    """draw from a per-run pool of small inputs (filled batch-wise)"""
    key = tuple(sorted(kw.items()))
    pool = _POOLS.setdefault(key, [])
    tries = 0
    while len(pool) < size and tries < 200:
        tries += 1
        a = dict(multi=False, extras=False, min_muts=1, max_muts=12, n=None, L=None, migrations=None)
        a.update(kw)
        pool.extend(_batch(rng, a["multi"], a["extras"], a["min_muts"], a["max_muts"], a["n"], a["L"],
                           migrations=a["migrations"])[:3])
    if not pool:
        raise RuntimeError("no suitable tree sequence")
    return rng.choice(pool)


def maybe_permuted(rng, ts, p=0.5):
    """with probability p renumber all nodes at random: node ids are then neither samples-first
    nor in time order"""
    if ts.num_migrations > 0:      # tskit cannot renumber nodes under migrations
        return ts
    return gen.permute_nodes(rng, ts) if rng.random() < p else ts


def maybe_root_mutations(rng, ts, p=0.4):
    """with probability p add 1-3 mutations above the root of the local tree (on no edge): valid
    input that simulators never produce"""
    return gen.add_root_mutations(rng, ts) if rng.random() < p else ts


def annotate_rows(table, rng):
    """add a key to every row of a JSON-metadata table (as a user, or preprocess_ts'
    unsplit_node_id, would between two datings)"""
    schema = table.metadata_schema
    rows = []
    for i, b in enumerate(table_rows(table)):
        d = schema.decode_row(b)
        d = dict(d)
        d["unsplit_node_id"] = i
        if rng.random() < 0.5:
            d["note"] = {"by": "user", "n": i}
        rows.append(schema.validate_and_encode_row(d))
    table.packset_metadata(rows)


def random_values(rng, n, style=None):
    """fabricated posterior means / variances"""
    style = style or rng.choice(["plain", "plain", "ints", "special", "small"])
    out = []
    for _ in range(n):
        if style == "plain":
            x = rng.random() * 10
        elif style == "ints":
            x = float(rng.randint(0, 3))
        elif style == "small":
            x = rng.random() * 0.3
        else:
            x = rng.choice([0.0, -0.0, float("nan"), float("inf"), 1e300, 1e-300, 1.0, 0.1, 2.5])
        out.append(x)
    return out


# ----------------------------------------------------------------------------- log capture
class LogTap(logging.Handler):
    """collect the tsdate.core log events the policy talks about"""

    def __init__(self):
        super().__init__(level=logging.DEBUG)
        self.events = []   # (code, table name)

    def emit(self, record):
        msg = record.getMessage()
        if record.levelno == logging.WARNING and msg.startswith("Could not set time metadata on"):
            self.events.append((0, msg.split()[6]))
        elif msg.startswith("Clearing metadata from"):
            self.events.append((1, msg.split()[-1]))
        elif msg.startswith("Setting metadata schema on"):
            self.events.append((2, msg.split()[-1]))

    def __enter__(self):
        self.logger = logging.getLogger("tsdate.core")
        self.old_level = self.logger.level
        self.old_prop = self.logger.propagate
        self.logger.setLevel(logging.DEBUG)
        self.logger.propagate = False
        self.logger.addHandler(self)
        return self

    def __exit__(self, *a):
        self.logger.removeHandler(self)
        self.logger.setLevel(self.old_level)
        self.logger.propagate = self.old_prop


def quiet_logging():
    logging.getLogger("tsdate").setLevel(logging.ERROR)
    logging.getLogger().setLevel(logging.ERROR)


# ----------------------------------------------------------------------------- codec tables
class Interner:
    def __init__(self):
        self.ids = {}
        self.items = []

    def __call__(self, x):
        if x not in self.ids:
            self.ids[x] = len(self.items) + 1
            self.items.append(x)
        return self.ids[x]


def set_field(row, k, v):
    """python mirror of dict assignment on an insertion-ordered list of pairs"""
    for i, (k2, _v) in enumerate(row):
        if k2 == k:
            return row[:i] + [(k, v)] + row[i + 1:]
    return row + [(k, v)]


def cvalue(v):
    if v[0] == "num":
        return "(VNum %s)" % cfloat(v[1])
    return "(VOther %s)" % cZ(v[1])


def ckey(k):
    assert all(32 <= ord(c) < 127 and c != '"' for c in k), k
    return '"%s"%%string' % k


def crow(row):
    return clist(row, lambda kv: "(%s, %s)" % (ckey(kv[0]), cvalue(kv[1])))


def cbytes(bid):
    return "[]" if bid == 0 else "[%s]" % cZ(bid)


class MetaCase:
    """one call of set_time_metadata: the table side, the codec answers, the Coq term"""

    def __init__(self, table, mean, var, default_schema, sm, base=0):
        import tskit
        self.sm = sm
        self.base = base
        self.mean = [float(x) for x in mean]
        self.var = None if var is None else [float(x) for x in var]
        self.bid = Interner()      # non-empty byte strings -> 1..
        self.vid = Interner()      # other values (canonical json) -> 1..
        self.sid = {}              # schema repr -> id (default = 0)
        self.default_schema = default_schema
        self.sid[repr(default_schema)] = base
        schema = table.metadata_schema
        self.schema = schema
        self.has_schema = schema.schema is not None
        self.in_sid = None
        if self.has_schema:
            self.in_sid = self.sid.setdefault(repr(schema), base + 1)
        self.rows = [bytes(b) for b in tskit.unpack_bytes(table.metadata, table.metadata_offset)]
        self.row_ids = [self.b(b) for b in self.rows]
        self.dec_tab = []
        self.enc_tab = []
        self._build()

    def b(self, bts):
        return 0 if len(bts) == 0 else self.bid(bts)

    def schema_id(self, schema):
        if schema.schema is None:
            return -1
        return self.sid.get(repr(schema), 99)

    def _decode(self, schema, bts):
        """('row', pairs, pydict) or ('crash',)"""
        try:
            d = schema.decode_row(bts)
        except Exception:
            return ("crash",)
        if not isinstance(d, dict):
            return ("crash",)
        pairs = [(str(k), ("other", self.vid(json.dumps(v, sort_keys=True, default=str)))) for k, v in d.items()]
        return ("row", pairs, d)

    def _encode(self, schema, d):
        import tskit
        try:
            return ("ok", self.b(schema.validate_and_encode_row(d)))
        except (tskit.MetadataEncodingError, tskit.MetadataValidationError):
            return ("err",)
        except Exception:
            return ("crash",)

    def _build(self):
        if self.var is None:
            return
        seen_dec = set()
        seen_enc = set()
        schemas_ = [(self.base, self.default_schema)]
        if self.has_schema and self.in_sid != self.base:
            schemas_.append((self.in_sid, self.schema))
        n = min(len(self.rows), len(self.mean), len(self.var))
        for sid, schema in schemas_:
            for i in range(n):
                bts, bid = self.rows[i], self.row_ids[i]
                bases = [([], {})]
                if self.has_schema and sid == self.in_sid:
                    dec = self._decode(schema, bts)
                    if (sid, bid) not in seen_dec:
                        seen_dec.add((sid, bid))
                        self.dec_tab.append((sid, bid, dec))
                    if dec[0] == "row":
                        bases.append((dec[1], dec[2]))
                for pairs, d in bases:
                    m, v = self.mean[i], self.var[i]
                    row = set_field(set_field(list(pairs), "mn", ("num", m)), "vr", ("num", v))
                    key = (sid, crow(row))
                    if key in seen_enc:
                        continue
                    seen_enc.add(key)
                    dd = dict(d)
                    dd.update((("mn", np.float64(m)), ("vr", np.float64(v))))
                    self.enc_tab.append((sid, row, self._encode(schema, dd)))

    def coq_parts(self):
        """(decode table, encode table, the call with @DT@ / @ET@ standing for them)"""
        def cdec(e):
            sid, bid, dec = e
            r = "DecCrash" if dec[0] == "crash" else "(DecRow %s)" % crow(dec[1])
            return "(%s, %s, %s)" % (cZ(sid), cbytes(bid), r)

        def cenc(e):
            sid, row, enc = e
            r = {"ok": lambda: "(EncOk %s)" % cbytes(enc[1]), "err": lambda: "EncErr",
                 "crash": lambda: "EncCrash"}[enc[0]]()
            return "(%s, %s, %s)" % (cZ(sid), crow(row), r)
        sm = {None: "None", True: "(Some true)", False: "(Some false)"}[self.sm]
        t = "(mkMT %s %s)" % (copt(self.in_sid, cZ), clist(self.row_ids, cbytes))
        var = "None" if self.var is None else "(Some %s)" % clist(self.var, cfloat)
        call = "(run_set_meta @DT@ @ET@ %s %s %s %s %s)" % (sm, t, clist(self.mean, cfloat), var, cZ(self.base))
        return clist(self.dec_tab, cdec), clist(self.enc_tab, cenc), call

    def coq_term(self):
        d, e, call = self.coq_parts()
        return call.replace("@DT@", "(%s : dec_tab)" % d).replace("@ET@", "(%s : enc_tab)" % e)

    def bytes_of(self, ids):
        """model bytes (a list with at most one interned id) -> python bytes"""
        if not ids:
            return b""
        i = ids[0]
        return self.bid.items[i - 1] if 1 <= i <= len(self.bid.items) else b"<not-in-codec-table>"

    def schema_of(self, sid):
        if sid == -1:
            return None
        if sid == self.base:
            return self.default_schema
        return self.schema

    def impl_result(self, table, exc, events):
        """canonical (kind, schema-or-exn, rows, log) of what the implementation did"""
        import tskit
        if exc is not None:
            if isinstance(exc, AssertionError):
                code = 0
            elif isinstance(exc, (tskit.MetadataEncodingError, tskit.MetadataValidationError)):
                code = 3
            else:
                code = 12   # ExDecode (1) or ExEncode (2): some other exception escaped
            return (1, code, [], [])
        rows = [bytes(b) for b in tskit.unpack_bytes(table.metadata, table.metadata_offset)]
        return (0, self.schema_id(table.metadata_schema),
                [[] if len(b) == 0 else [self.bid.ids.get(b, -2)] for b in rows], [e[0] for e in events])


def eval_meta_cases(ctx, mcs, chunk=300, tag="setmeta"):
    """run the Coq model on a list of MetaCase; identical codec tables are defined once"""
    out = []
    for i in range(0, len(mcs), chunk):
        names = {}
        defs = []
        calls = []
        for mc in mcs[i:i + chunk]:
            d, e, call = mc.coq_parts()
            ref = []
            for txt, ty in ((d, "dec_tab"), (e, "enc_tab")):
                if (txt, ty) not in names:
                    names[(txt, ty)] = "tab%d" % len(names)
                    defs.append("Definition %s : %s := %s." % (names[(txt, ty)], ty, txt))
                ref.append(names[(txt, ty)])
            calls.append(call.replace("@DT@", ref[0]).replace("@ET@", ref[1]))
        body = "From Coq Require Import String.\n" + "\n".join(defs) + \
            "\nDefinition cases := %s.\nEval vm_compute in cases.\n" % clist(calls)
        out += [canon_model(r) for r in ctx.coq_eval(body, requires=("model.Glue",), tag=tag)[0]]
    return out


def canon_model(res):
    kind, a, rows, log = res
    if kind == 1 and a in (1, 2):
        a = 12
    return (kind, a, [list(r) for r in rows], list(log))


def call_set_time_metadata(method, table, mean, var, default_schema):
    """run the implementation on (a copy of) the table; returns (table, exception, events)"""
    t = table.copy()
    exc = None
    with LogTap() as tap:
        try:
            method.set_time_metadata(t, None if mean is None else np.array(mean, dtype=float),
                                     None if var is None else np.array(var, dtype=float), default_schema)
        except Exception as e:   # noqa: BLE001 - every escape is an observable outcome
            exc = e
    return t, exc, tap.events


def stripped_for_priors(ts):
    """the discrete methods build their prior with simplify(), which rejects migrations and
    edge metadata: same nodes/edges without them"""
    t = ts.dump_tables()
    t.migrations.clear()
    t.edges.drop_metadata()
    return t.tree_sequence()


def make_method(ts, sm, cls="variational_gamma", **kw):
    """a method object without running the inference"""
    import tsdate
    from tsdate import core
    if cls == "variational_gamma":
        return core.VariationalGammaMethod(ts, mutation_rate=1.0, set_metadata=sm, **kw)
    C = core.InsideOutsideMethod if cls == "inside_outside" else core.MaximizationMethod
    if ts.num_migrations > 0 or len(ts.tables.edges.metadata) > 0:
        priors = tsdate.build_prior_grid(stripped_for_priors(ts), population_size=1.0)
        return C(ts, mutation_rate=1.0, priors=priors, set_metadata=sm, **kw)
    return C(ts, mutation_rate=1.0, population_size=1.0, set_metadata=sm, **kw)


# ----------------------------------------------------------------------------- policy oracle (no Coq)
def table_rows(table):
    import tskit
    return [bytes(b) for b in tskit.unpack_bytes(table.metadata, table.metadata_offset)]


def policy_expected(schema, rows, mean, var, default_schema, sm):
    """what the property text says must come out, computed from tskit's codec only.
    Returns ('untouched', warn?) | ('written', schema, rows) | ('outside',) when the stored
    metadata does not decode to dicts under its own schema / the codec raises non-metadata
    exceptions (outside the policy: finding C32-undecodable)"""
    import tskit
    if sm is False or var is None:
        return ("untouched", False)
    has_schema = schema.schema is not None
    has_bytes = any(len(b) > 0 for b in rows)

    def fresh():
        return ("written", default_schema,
                [default_schema.validate_and_encode_row({"mn": np.float64(m), "vr": np.float64(v)})
                 for m, v in zip(mean, var)])
    if not has_schema:
        if not has_bytes:
            return fresh()
        return ("untouched", True) if sm is None else fresh()
    out = []
    can = True
    for b, m, v in zip(rows, mean, var):
        if has_bytes:
            try:
                d = schema.decode_row(b)
            except Exception:
                return ("outside",)
            if not isinstance(d, dict):
                return ("outside",)
        else:
            d = {}
        d = dict(d)
        d["mn"] = np.float64(m)
        d["vr"] = np.float64(v)
        try:
            out.append(schema.validate_and_encode_row(d))
        except (tskit.MetadataEncodingError, tskit.MetadataValidationError):
            can = False
            break
        except Exception:
            return ("outside",)
    if can:
        return ("written", schema, out)
    return ("untouched", True) if sm is None else fresh()


def check_policy(label, schema0, rows0, table1, mean, var, default_schema, sm, warned):
    """compare a table after dating with the policy; returns None or (sig, detail)"""
    exp = policy_expected(schema0, rows0, mean, var, default_schema, sm)
    rows1 = table_rows(table1)
    schema1 = table1.metadata_schema
    if exp[0] == "outside":
        return None
    if exp[0] == "untouched":
        if repr(schema1) != repr(schema0) or rows1 != rows0:
            return ("c32:%s:modified-but-must-be-untouched:sm=%s" % (label, sm),
                    "schema %r -> %r" % (schema0, schema1))
        if exp[1] and not warned:
            return ("c32:%s:no-warning:sm=%s" % (label, sm), "table left untouched without the warning")
        if not exp[1] and warned:
            return ("c32:%s:spurious-warning:sm=%s" % (label, sm), "")
        return None
    _w, schema_e, rows_e = exp
    if warned:
        return ("c32:%s:warning-although-written:sm=%s" % (label, sm), "")
    if repr(schema1) != repr(schema_e):
        return ("c32:%s:wrong-schema:sm=%s" % (label, sm), "expected %r got %r" % (schema_e, schema1))
    if rows1 != rows_e:
        bad = [i for i, (a, b) in enumerate(zip(rows1, rows_e)) if a != b][:3]
        return ("c32:%s:wrong-rows:sm=%s" % (label, sm),
                "rows %r: got %r expected %r" % (bad, [rows1[i] for i in bad], [rows_e[i] for i in bad]))
    # every row carries both fields
    for i, b in enumerate(rows1):
        d = schema1.decode_row(b)
        if not (isinstance(d, dict) and "mn" in d and "vr" in d):
            return ("c32:%s:row-without-mn-vr:sm=%s" % (label, sm), "row %d = %r" % (i, b))
    return None


def same_float(a, b):
    return (math.isnan(a) and math.isnan(b)) or (a == b and math.copysign(1, a) == math.copysign(1, b))


# ----------------------------------------------------------------------------- get_modified_ts
def decorate_extras(tables, rng, edge_md=True):
    """things dating must not touch: top-level metadata, reference sequence, individual /
    population / site / edge / migration metadata, individual parents and locations"""
    import tskit
    if rng.random() < 0.6:
        tables.metadata_schema = tskit.MetadataSchema({"codec": "json"})
        tables.metadata = {"top": rng.randint(0, 9), "mn": "not a time"}
    if rng.random() < 0.4:
        tables.reference_sequence.data = "ACGT" * 3
    if rng.random() < 0.6:
        tables.sites.packset_metadata([b"s%d" % i for i in range(tables.sites.num_rows)])
    if edge_md and rng.random() < 0.6:
        tables.edges.packset_metadata([b"e%d" % i for i in range(tables.edges.num_rows)])
    if tables.migrations.num_rows and rng.random() < 0.6:
        tables.migrations.packset_metadata([b"g%d" % i for i in range(tables.migrations.num_rows)])
    if tables.individuals.num_rows == 0 and rng.random() < 0.6:
        # pair up the samples into diploid individuals, leftover haploid; parents given
        samples = [u for u in range(tables.nodes.num_rows) if tables.nodes.flags[u] & 1]
        ind = tables.nodes.individual.copy()
        k = 0
        tables.individuals.metadata_schema = tskit.MetadataSchema({"codec": "json"})
        for i in range(0, len(samples), 2):
            tables.individuals.add_row(flags=rng.randint(0, 3), location=[rng.random(), 1.0],
                                       parents=[-1, k - 1] if k > 0 else [-1, -1],
                                       metadata={"id": "ind%d" % k})
            for u in samples[i:i + 2]:
                ind[u] = k
            k += 1
        tables.nodes.individual = ind
    # rows nothing refers to, a site without mutations, an edge stored as two adjacent pieces:
    # all valid, and all of them vanish under simplify() / squash()
    if rng.random() < 0.5:
        if tables.populations.metadata_schema.schema is not None:
            tables.populations.add_row(metadata={"name": "unused", "description": None})
        else:
            tables.populations.add_row(metadata=b"unused")
    if rng.random() < 0.5:
        if tables.individuals.metadata_schema.schema is None:
            tables.individuals.add_row(flags=7, metadata=b"nobody")
        else:
            tables.individuals.add_row(flags=7)
    if rng.random() < 0.5:
        pos = set(tables.sites.position)
        free = [x + 0.5 for x in range(int(tables.sequence_length)) if x + 0.5 not in pos]
        if free:
            tables.sites.add_row(position=rng.choice(free), ancestral_state="N")
            tables.sort()
            tables.build_index()
            tables.compute_mutation_parents()
    if len(tables.edges.metadata) == 0 and rng.random() < 0.4:
        cand = [i for i in range(tables.edges.num_rows) if tables.edges.right[i] - tables.edges.left[i] >= 2]
        if cand:
            i = rng.choice(cand)
            e = tables.edges[i]
            mid = float(int((e.left + e.right) / 2))
            tables.edges[i] = e.replace(right=mid)
            tables.edges.add_row(left=mid, right=e.right, parent=e.parent, child=e.child)
            tables.sort()
            tables.build_index()
            tables.compute_mutation_parents()
    if tables.populations.num_rows == 0 and rng.random() < 0.5:
        tables.populations.add_row(metadata=b"popA")
        tables.populations.add_row(metadata=b"popB")
        pop = tables.nodes.population.copy()
        for u in range(len(pop)):
            pop[u] = rng.choice([0, 1, -1])
        tables.nodes.population = pop


def unpack(col, off):
    import tskit
    return [bytes(b) for b in tskit.unpack_bytes(col, off)]


class ModCase:
    """one call of get_modified_ts with a fabricated Results: Coq term of the model, and the
    application of the model's answer (plus tskit's own build_index / compute_mutation_parents
    / compute_mutation_times) to a copy of the input tables"""

    UNITS = {}

    def __init__(self, its, method, res, pvalues):
        from tsdate import schemas
        self.its = its
        self.method = method
        self.res = res
        t = its.dump_tables()
        self.t = t
        sm = method.set_metadata
        self.mc_n = MetaCase(t.nodes, [] if res.posterior_mean is None else res.posterior_mean,
                             res.posterior_var, schemas.default_node_schema, sm, base=0)
        self.mc_m = MetaCase(t.mutations, [] if res.mutation_mean is None else res.mutation_mean,
                             res.mutation_var, schemas.default_mutation_schema, sm, base=10)
        self.V = pvalues
        self.units = Interner()

    def coq_term(self):
        t = self.t
        m = self.method
        res = self.res
        dn, en, _ = self.mc_n.coq_parts()
        dm, em, _ = self.mc_m.coq_parts()
        dt = "(%s ++ %s)%%list" % (dn, dm)
        et = "(%s ++ %s)%%list" % (en, em)
        nodes = clist(range(t.nodes.num_rows), lambda i: "(zNode %s %s %s %s %s)" % (
            cZ(t.nodes.flags[i]), cfloat(t.nodes.time[i]), cZ(t.nodes.population[i]), cZ(t.nodes.individual[i]),
            cbytes(self.mc_n.row_ids[i])))
        edges = clist(range(t.edges.num_rows), lambda i: "(zEdge %s %s %s %s [%s])" % (
            cfloat(t.edges.left[i]), cfloat(t.edges.right[i]), cnat(t.edges.parent[i]), cnat(t.edges.child[i]), cZ(i)))
        import tskit

        def mtime(x):
            return "None" if tskit.is_unknown_time(x) else "(Some %s)" % cfloat(x)
        muts = clist(range(t.mutations.num_rows), lambda i: "(zMut %s %s %s %s %s %s)" % (
            cnat(t.mutations.site[i]), cnat(t.mutations.node[i]), mtime(t.mutations.time[i]), cZ(i),
            "None" if t.mutations.parent[i] < 0 else "(Some %s)" % cnat(t.mutations.parent[i]),
            cbytes(self.mc_m.row_ids[i])))
        migs = clist(range(t.migrations.num_rows), lambda i: "(zMig %s %s %s %s %s %s [%s])" % (
            cfloat(t.migrations.left[i]), cfloat(t.migrations.right[i]), cnat(t.migrations.node[i]),
            cZ(t.migrations.source[i]), cZ(t.migrations.dest[i]), cfloat(t.migrations.time[i]), cZ(i)))
        provs = clist(range(t.provenances.num_rows), lambda i: '[("old"%%string, %s)]' % cZ(1000 + i))
        tabs = "(zTables %s %s %s %s %s %s %s %s %s tt tt %s tt)" % (
            cfloat(t.sequence_length), cZ(self.units(t.time_units)), nodes, copt(self.mc_n.in_sid, cZ), edges,
            clist(range(t.sites.num_rows), cZ), muts, copt(self.mc_m.in_sid, cZ), migs, provs)
        pp = m.provenance_params
        ppc = "None" if pp is None else "(Some %s)" % clist(
            pp.items(), lambda kv: "(%s, %s)" % (ckey(kv[0]), cZ(self.V(kv[1]))))
        cfg = "(zConfig %s %s %s %s)" % (cZ(self.units(m.time_units)),
                                           {None: "None", True: "(Some true)", False: "(Some false)"}[m.set_metadata],
                                           ckey(m.name), ppc)

        def optl(x):
            return "None" if x is None else "(Some %s)" % clist([float(v) for v in x], cfloat)
        r = "(zResult %s %s %s %s %s)" % (clist([float(v) for v in res.posterior_mean], cfloat),
                                           optl(res.posterior_var), optl(res.mutation_mean), optl(res.mutation_var),
                                           clist([int(v) for v in res.mutation_node], cnat))
        return "(run_get_modified %s %s %s %s %s %s %s)" % (dt, et, cfloat(m.min_branch_length),
                                                          cnat(m.constr_iterations), cfg, tabs, r)

    def apply(self, model):
        """tables predicted by the model (None when the model says the call raises);
        raises tskit errors from the tskit steps"""
        import tskit
        kind = model[0]
        if kind == 1:
            return None, model[1][0]
        _k, (tu, ntime, nmd, nsch), (eperm, gperm), (mrows, msch), (provs, log) = model
        t = self.t
        pred = self.its.dump_tables()
        pred.time_units = self.units.items[tu - 1]
        nschema = self.mc_n.schema_of(nsch)
        pred.nodes.set_columns(flags=t.nodes.flags, time=np.array(ntime, dtype=float),
                               population=t.nodes.population, individual=t.nodes.individual)
        pred.nodes.packset_metadata([self.mc_n.bytes_of(b) for b in nmd])
        pred.nodes.metadata_schema = nschema if nschema is not None else tskit.MetadataSchema(None)
        ep = [e[0] for e in eperm]
        pred.edges.replace_with(t.edges[np.array(ep, dtype=int)] if ep else t.edges)
        gp = [g[0] for g in gperm]
        if gp:
            pred.migrations.replace_with(t.migrations[np.array(gp, dtype=int)])
        order = [r[0] for r in mrows]
        mt = (t.mutations[np.array(order, dtype=int)] if order else t.mutations).copy()
        mt.node = np.array([r[1] for r in mrows], dtype=np.int32)
        mt.time = np.full(len(order), tskit.UNKNOWN_TIME)
        mt.parent = np.full(len(order), tskit.NULL, dtype=np.int32)
        mt.packset_metadata([self.mc_m.bytes_of(r[2]) for r in mrows])
        mschema = self.mc_m.schema_of(msch)
        mt.metadata_schema = mschema if mschema is not None else tskit.MetadataSchema(None)
        pred.mutations.replace_with(mt)
        pred.mutations.metadata_schema = mt.metadata_schema
        migs = pred.migrations.copy()
        pred.build_index()
        pred.compute_mutation_parents()
        pred.compute_mutation_times()          # tskit re-sorts migrations here too
        pred.migrations.replace_with(migs)     # the model returns them as given
        self.pred_order = order
        self.pred_provs = provs
        self.pred_log = log
        return pred, None


def table_diff(a, b):
    """names of the tables / columns in which two TableCollections differ (provenance ignored)"""
    out = []
    if a.sequence_length != b.sequence_length:
        out.append("sequence_length")
    if a.time_units != b.time_units:
        out.append("time_units")
    if a.metadata_schema != b.metadata_schema or a.metadata_bytes != b.metadata_bytes:
        out.append("top-level metadata")
    if a.reference_sequence != b.reference_sequence:
        out.append("reference_sequence")
    for name in ("nodes", "edges", "sites", "mutations", "migrations", "individuals", "populations"):
        ta, tb = getattr(a, name), getattr(b, name)
        if ta.num_rows != tb.num_rows:
            out.append("%s.num_rows" % name)
            continue
        if repr(ta.metadata_schema) != repr(tb.metadata_schema):
            out.append("%s.metadata_schema" % name)
        da, db = ta.asdict(), tb.asdict()
        for col in da:
            if col == "metadata_schema":
                continue
            x, y = np.asarray(da[col]), np.asarray(db[col])
            if x.shape != y.shape or not np.array_equal(x, y, equal_nan=(x.dtype.kind == "f")):
                out.append("%s.%s" % (name, col))
    return out


# ----------------------------------------------------------------------------- replay files
def tc_to_json(tc):
    """a TableCollection as plain JSON (float columns as uint64 bit patterns: UNKNOWN_TIME survives)"""
    def conv(x):
        if isinstance(x, dict):
            return {k: conv(v) for k, v in x.items()}
        if isinstance(x, np.ndarray):
            if x.dtype.kind == "f":
                return {"__nd__": "f8bits", "v": x.astype(np.float64).view(np.uint64).tolist()}
            return {"__nd__": x.dtype.str, "v": x.tolist()}
        if isinstance(x, bytes):
            return {"__b__": list(x)}
        if isinstance(x, (np.integer,)):
            return int(x)
        if isinstance(x, (np.floating,)):
            return float(x)
        return x
    return conv(tc.asdict())


def tc_from_json(j):
    import tskit

    def conv(x):
        if isinstance(x, dict):
            if "__nd__" in x:
                if x["__nd__"] == "f8bits":
                    return np.array(x["v"], dtype=np.uint64).view(np.float64)
                return np.array(x["v"], dtype=np.dtype(x["__nd__"]))
            if "__b__" in x:
                return bytes(x["__b__"])
            return {k: conv(v) for k, v in x.items()}
        return x
    return tskit.TableCollection.fromdict(conv(j))


def plain(v):
    """JSON-able copy of a keyword value (numpy scalars / arrays tagged so they can be rebuilt)"""
    if isinstance(v, np.ndarray):
        return {"__np__": "array", "v": v.tolist()}
    if isinstance(v, np.generic):
        return {"__np__": type(v).__name__, "v": v.item()}
    if hasattr(v, "as_dict"):
        d = v.as_dict()
        return {"__obj__": "PopulationSizeHistory", "v": {k: np.asarray(x).tolist() for k, x in d.items()}}
    if isinstance(v, dict):
        return {k: plain(x) for k, x in v.items()}
    if isinstance(v, (list, tuple)):
        return [plain(x) for x in v]
    return v


def unplain(v):
    if isinstance(v, dict):
        if "__np__" in v:
            return np.array(v["v"]) if v["__np__"] == "array" else getattr(np, v["__np__"])(v["v"])
        if "__obj__" in v:
            import tsdate
            return tsdate.demography.PopulationSizeHistory(np.array(v["v"]["population_size"]),
                                                           np.array(v["v"]["time_breaks"]))
        return {k: unplain(x) for k, x in v.items()}
    if isinstance(v, list):
        return [unplain(x) for x in v]
    return v


def hexlist(x):
    return None if x is None else [float(v).hex() for v in x]


def unhexlist(x):
    return None if x is None else np.array([float.fromhex(v) for v in x], dtype=float)


def results_to_json(res):
    return {"posterior_mean": hexlist(res.posterior_mean), "posterior_var": hexlist(res.posterior_var),
            "mutation_mean": hexlist(res.mutation_mean), "mutation_var": hexlist(res.mutation_var),
            "mutation_node": [int(x) for x in res.mutation_node]}


def results_from_json(j):
    from tsdate import core
    return core.Results(unhexlist(j["posterior_mean"]), unhexlist(j["posterior_var"]), unhexlist(j["mutation_mean"]),
                        unhexlist(j["mutation_var"]), None, np.array(j["mutation_node"], dtype=np.int32), None)



def raised_in(exc, *function_names):
    """does the traceback of exc pass through one of these functions?"""
    import traceback
    return any(fr.name in function_names for fr in traceback.extract_tb(exc.__traceback__))



def replay_verdict(ctx):
    """print what a replay found; the case counts as failing iff something fails that is not a
    listed known finding (same rule as the check's exit code)"""
    for sig, detail, _r in ctx.oracle_fails:
        print("property fails:", sig, detail)
    seen = set()
    for f, sig in ctx.known_hits:
        if sig not in seen:
            seen.add(sig)
            print("known finding %s also shows on this case: %s" % (f.get("id"), sig))
    return not ctx.oracle_fails
