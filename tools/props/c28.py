"""C28 -- preprocessing removes only data-free regions and preserves genotypes.

 correspondence (bit for bit, binary64 model coq/model/Preprocess.v evaluated in Coq): the
   intervals preprocess_ts hands to tskit.delete_intervals -- read back from the provenance
   record it writes -- and its ValueErrors, against preprocess_intervals FNum, over generated
   site sets (integer and non-integer positions) x minimum_gap x erase_flanks x remove_telomeres
   x delete_intervals;
 oracle on the real function across the option grid (tskit's delete_intervals / simplify are
   external, so these clauses are tested, not proved): expected intervals recomputed from the
   documentation, every site outside user intervals kept, samples kept in order, genotypes at
   kept sites identical, node times drawn from the input, local trees unchanged outside the
   removed intervals and empty inside, output simplified, no node with a gap when split_disjoint.
"""
import json
import math
import warnings

import numpy as np

from vlib import gen
from vlib.coqfmt import cfloat, clist, cbool

ENV_BY_TIER = {"quick": {"NUMBA_DISABLE_JIT": "1"}, "thorough": {"NUMBA_DISABLE_JIT": "1"}}

RULE = ("msprime tree sequences (2-7 samples, 1-40 trees, L in 20..2e6, integer or continuous site positions, "
        "historical samples, populations/individuals) whose sites are thinned to leave flanks and gaps; sites "
        "placed exactly on tree breakpoints (45%), mutation-free sites, unreferenced / de-sampled nodes, and on "
        "~40% gen.exotic decorations (extra flag bits, all nodes renumbered, mutations above roots, unknown "
        "mutation times, arbitrary allele states, populations); "
        "minimum_gap drawn from the actual gap sizes (exactly equal, just below, just above), 0, 2, 2.5, the "
        "default; erase_flanks / remove_telomeres in {None, True, False}; delete_intervals None, [], or random "
        "disjoint sorted user intervals (some containing sites); split_disjoint and the three filter flags; "
        "non-trivial = at least one interval removed or an argument conflict; distinct by content hash")
ASSUME = ["tskit's TableCollection.delete_intervals removes the half-open intervals [l, r) it is given; "
          "simplify / sort are tskit's",
          "the provenance record written by preprocess_ts lists the intervals it passed to delete_intervals "
          "(the same Python object is passed to both)",
          "site positions of a valid tree sequence are strictly increasing and lie in [0, L)"]
LEVEL = "proof"


# ------------------------------------------------------------------ inputs
def make_ts(rng):
    import msprime
    n = rng.randint(2, 7)
    L = rng.choice([20, 50, 100, 1000, 2_000_000])
    seed = rng.randrange(1, 2**31 - 1)
    cont = rng.random() < 0.3
    if rng.random() < 0.25 and n > 2:
        k = rng.randint(1, n - 1)
        samples = [msprime.SampleSet(n - k, time=0, ploidy=1), msprime.SampleSet(k, time=round(0.1 + rng.random(), 3), ploidy=1)]
    else:
        samples = [msprime.SampleSet(n, time=0, ploidy=rng.choice([1, 1, 2]))]
    ts = msprime.sim_ancestry(samples=samples, sequence_length=L, recombination_rate=rng.choice([0.5, 2.0, 8.0]) / L,
                              random_seed=seed, population_size=1)
    ts = msprime.sim_mutations(ts, rate=rng.choice([4.0, 10.0, 25.0]) / L, random_seed=seed, discrete_genome=not cont)
    # thin the sites: leave flanks and one or two gaps
    if ts.num_sites > 3:
        tables = ts.dump_tables()
        lo = rng.random() * 0.2 * L if rng.random() < 0.8 else 0
        hi = L - rng.random() * 0.2 * L if rng.random() < 0.8 else L
        holes = []
        for _ in range(rng.randint(0, 2)):
            a = lo + rng.random() * (hi - lo)
            holes.append((a, a + rng.random() * 0.3 * (hi - lo)))
        drop = [s.id for s in ts.sites() if not (lo <= s.position < hi) or any(a <= s.position < b for a, b in holes)]
        if len(drop) < ts.num_sites:
            tables.delete_sites(drop)
            ts = tables.tree_sequence()
    # sites exactly ON tree breakpoints (where edges -- and, after splitting, node ids -- change), each with a
    # mutation on a node of the tree that starts there
    if rng.random() < 0.45 and ts.num_trees > 1:
        import tskit
        tables = ts.dump_tables()
        tables.mutations.time = np.full(tables.mutations.num_rows, tskit.UNKNOWN_TIME)
        used = set(float(x) for x in tables.sites.position)
        bps = [b for b in list(ts.breakpoints())[1:-1] if float(b) not in used]
        rng.shuffle(bps)
        for x in bps[:rng.randint(1, 4)]:
            tree = ts.at(x)
            nodes = [u for u in tree.nodes() if tree.parent(u) != -1]
            if not nodes:
                continue
            sid = tables.sites.add_row(float(x), "0")
            tables.mutations.add_row(site=sid, node=int(rng.choice(nodes)), derived_state="1", time=tskit.UNKNOWN_TIME)
        tables.sort()
        tables.build_index()
        tables.compute_mutation_parents()
        ts = tables.tree_sequence()
    # gen.exotic decorations on ~40% of the inputs
    if rng.random() < 0.4 and L <= 1000:
        try:
            ts, _kinds = gen.exotic(rng, ts, p=0.35)
        except Exception:   # noqa: BLE001
            pass
    elif rng.random() < 0.4:
        try:
            ts, _kinds = gen.exotic(rng, ts, kinds=["extra_flags", "permute_nodes", "unknown_mutation_times", "states",
                                                    "populations"], p=0.35)
        except Exception:   # noqa: BLE001
            pass
    # sometimes not simplified: a node that no edge refers to, and unary stretches of nodes
    if rng.random() < 0.3:
        if rng.random() < 0.5 and ts.num_samples > 2:
            keep = list(ts.samples())
            full = ts
            # drop nothing, but re-simplify a superset with unary nodes kept is not available here:
            # mark one sample's ancestors unary by removing another sample from the sample set
            tables = ts.dump_tables()
            flags = tables.nodes.flags
            victim = int(keep[-1])
            flags[victim] = 0                     # no longer a sample: its ancestors become unary / dangling
            tables.nodes.flags = flags
            ts = tables.tree_sequence()
        else:
            tables = ts.dump_tables()
            tables.nodes.add_row(flags=0, time=float(max(ts.nodes_time)) + 1.0)
            ts = tables.tree_sequence()
    # sometimes a few sites without any mutation (kept unless filter_sites=True)
    if rng.random() < 0.35:
        tables = ts.dump_tables()
        used = set(float(x) for x in tables.sites.position)
        for _ in range(rng.randint(1, 3)):
            x = float(rng.randrange(int(L)))
            if x not in used:
                used.add(x)
                tables.sites.add_row(x, "0")
        tables.sort()
        ts = tables.tree_sequence()
    return ts


def pick_options(rng, ts):
    sites = ts.sites_position
    L = ts.sequence_length
    kw = {}
    gaps = sorted(set(float(g) for g in np.diff(sites))) if len(sites) > 1 else []
    r = rng.random()
    if r < 0.25:
        pass                                           # minimum_gap None
    elif gaps and r < 0.75:
        g = rng.choice(gaps)
        kw["minimum_gap"] = rng.choice([g, g, np.nextafter(g, 0), np.nextafter(g, np.inf), g - 1, g + 1, g / 2])
        if float(kw["minimum_gap"]).is_integer() and rng.random() < 0.5:
            kw["minimum_gap"] = int(kw["minimum_gap"])
        else:
            kw["minimum_gap"] = float(kw["minimum_gap"])
    else:
        kw["minimum_gap"] = rng.choice([0, 1, 2, 2.5, 3, 10, 1000000, 1e9, -5])
    r = rng.random()
    if r < 0.35:
        kw["erase_flanks"] = rng.choice([True, False])
    elif r < 0.45:
        kw["remove_telomeres"] = rng.choice([True, False])
    elif r < 0.5:
        kw["erase_flanks"] = rng.choice([True, False])
        kw["remove_telomeres"] = rng.choice([True, False])
    if rng.random() < 0.3:
        # user intervals: sorted, disjoint, inside [0, L]; sometimes with the other options -> ValueError
        k = rng.randint(0, 3)
        pts = sorted(rng.random() * L for _ in range(2 * k))
        if rng.random() < 0.5:
            pts = [float(int(p)) for p in pts]
        ivs = [[pts[2 * i], pts[2 * i + 1]] for i in range(k) if pts[2 * i] < pts[2 * i + 1]]
        kw["delete_intervals"] = ivs
        if rng.random() < 0.7:
            kw.pop("minimum_gap", None)
            kw.pop("erase_flanks", None)
            kw.pop("remove_telomeres", None)
    if rng.random() < 0.5:
        kw["split_disjoint"] = rng.choice([True, False])
    for f in ("filter_populations", "filter_individuals", "filter_sites"):
        if rng.random() < 0.25:
            kw[f] = rng.choice([True, False])
    return kw


# ------------------------------------------------------------------ the documentation, in Python
def expected_intervals(ts, kw):
    """None = ValueError.  Written from the docstring of preprocess_ts."""
    ef = kw.get("erase_flanks")
    rt = kw.get("remove_telomeres")
    if rt is not None and ef is not None:
        return None
    if rt is not None:
        ef = rt
    mg = kw.get("minimum_gap")
    user = kw.get("delete_intervals")
    if user is not None:
        if mg is not None or ef is not None:
            return None
        return [[float(a), float(b)] for a, b in user]
    if ts.num_sites < 1:
        return None
    mg = 1000000 if mg is None else mg
    ef = True if ef is None else ef
    sites = [float(x) for x in ts.sites_position]
    L = float(ts.sequence_length)
    out = []
    if ef and sites[0] - 1 > 0:
        out.append([0.0, sites[0] - 1])
    for a, b in zip(sites[:-1], sites[1:]):
        if b - a >= mg and b - 1 > a + 1:
            out.append([a + 1, b - 1])
    if ef and sites[-1] + 1 < L:
        out.append([sites[-1] + 1, L])
    return out


def call(ts, kw):
    import tsdate
    try:
        with warnings.catch_warnings():
            warnings.simplefilter("ignore")
            return tsdate.preprocess_ts(ts, **kw)
    except Exception as e:   # noqa: BLE001
        return "%s: %s" % (type(e).__name__, str(e)[:100])


def recorded_intervals(out):
    rec = json.loads(out.provenance(out.num_provenances - 1).record)
    return [[float(a), float(b)] for a, b in rec["parameters"]["delete_intervals"]], rec["parameters"]


def same_intervals(a, b):
    if a is None or b is None:
        return a is None and b is None
    return len(a) == len(b) and all(x[0] == y[0] and x[1] == y[1] for x, y in zip(a, b))


# ------------------------------------------------------------------ model
def copt(x, f):
    return "None" if x is None else "(Some %s)" % f(x)


def model_intervals(ctx, cases):
    out = []
    for i in range(0, len(cases), 150):
        chunk = cases[i:i + 150]
        terms = []
        for ts, kw in chunk:
            user = kw.get("delete_intervals")
            terms.append("preprocess_intervals FNum %s %s %s %s %s %s" % (
                copt(kw.get("remove_telomeres"), cbool), copt(kw.get("erase_flanks"), cbool),
                copt(kw.get("minimum_gap"), lambda g: cfloat(float(g))),
                copt(user, lambda u: clist(u, lambda ab: "(%s, %s)" % (cfloat(ab[0]), cfloat(ab[1])))),
                cfloat(ts.sequence_length), clist([float(x) for x in ts.sites_position], cfloat)))
        body = "Definition cases := %s.\nEval vm_compute in cases.\n" % ("[" + ";\n ".join(terms) + "]")
        res = ctx.coq_eval(body, requires=("lib.Num", "model.Preprocess"), tag="preprocess")
        for r in res[0]:
            out.append(None if r is None else [[float(a), float(b)] for a, b in r[1]])
    return out


# ------------------------------------------------------------------ oracle on the output
def node_has_gap(ts, u):
    spans = sorted([(ts.edges_left[e], ts.edges_right[e]) for e in range(ts.num_edges)
                    if ts.edges_parent[e] == u or ts.edges_child[e] == u])
    if not spans:
        return False
    end = spans[0][1]
    for l, r in spans[1:]:
        if l > end:
            return True
        end = max(end, r)
    return False


def mrca_times(tree, samples):
    out = []
    for i in range(len(samples)):
        for j in range(i + 1, len(samples)):
            m = tree.mrca(samples[i], samples[j])
            out.append(None if m == -1 else float(tree.time(m)))
    return out


def check_output(ctx, ts, kw, out, ivs, rp):
    import tskit
    fail = lambda sig, msg: ctx.oracle_fail(sig, msg + " | options %r" % (kw,), rp)   # noqa: E731
    removed = lambda x: any(a <= x < b for a, b in ivs)                              # noqa: E731
    # sites
    in_pos = [float(x) for x in ts.sites_position]
    out_pos = [float(x) for x in out.sites_position]
    if not kw.get("filter_sites", False):
        want = [x for x in in_pos if not removed(x)]
        if out_pos != want:
            lost = sorted(set(want) - set(out_pos))
            fail("sites-lost" if lost else "sites-changed", "site positions %r expected, got %r (lost %r)" % (want[:10], out_pos[:10], lost[:5]))
            return
    else:
        # filter_sites=True: exactly the sites that carry a mutation survive (outside user intervals)
        # (which sites still carry a mutation after simplification is tskit's rule: ask tskit)
        with_mut = set(float(x) for x in ts.simplify(filter_sites=True, filter_populations=False,
                                                     filter_individuals=False).sites_position)
        want = [x for x in in_pos if not removed(x) and x in with_mut]
        if out_pos != want:
            fail("sites-filter", "filter_sites=True: site positions %r expected, got %r" % (want[:10], out_pos[:10]))
            return
    # populations / individuals are kept unless their filter flag is set
    if not kw.get("filter_populations", False) and out.num_populations != ts.num_populations:
        fail("populations-dropped", "populations %d -> %d" % (ts.num_populations, out.num_populations))
        return
    if not kw.get("filter_individuals", False) and out.num_individuals != ts.num_individuals:
        fail("individuals-dropped", "individuals %d -> %d" % (ts.num_individuals, out.num_individuals))
        return
    # samples in order, with their times
    if out.num_samples != ts.num_samples or not np.array_equal(out.nodes_time[out.samples()], ts.nodes_time[ts.samples()]):
        fail("samples-changed", "samples %r -> %r" % (list(ts.nodes_time[ts.samples()]), list(out.nodes_time[out.samples()])))
        return
    # genotypes at kept sites
    gin = {float(v.site.position): (tuple(v.alleles), v.genotypes.copy()) for v in ts.variants()}
    for v in out.variants():
        x = float(v.site.position)
        if x not in gin:
            fail("site-invented", "site at %r is not in the input" % x)
            return
        al, g = gin[x]
        a_in = [al[k] if k >= 0 else None for k in g]
        a_out = [v.alleles[k] if k >= 0 else None for k in v.genotypes]
        if removed(x):
            continue            # a site inside a user interval that survived: nothing promised
        if a_in != a_out:
            fail("genotypes-changed", "genotypes at site %r: %r -> %r" % (x, a_in, a_out))
            return
    # node times come from the input
    tin = set(float(t) for t in ts.nodes_time)
    extra = [float(t) for t in out.nodes_time if float(t) not in tin]
    if extra:
        fail("node-times-invented", "node times %r are not in the input" % extra[:5])
        return
    # local trees: unchanged outside the removed intervals, empty inside
    L = float(ts.sequence_length)
    probes = set(in_pos)
    for a, b in ivs:
        probes.update([a, (a + b) / 2, np.nextafter(b, 0), b, np.nextafter(a, 0)])
    bps = list(ts.breakpoints())
    probes.update((bps[i] + bps[i + 1]) / 2 for i in range(len(bps) - 1))
    s_in, s_out = list(ts.samples()), list(out.samples())
    for x in sorted(p for p in probes if 0 <= p < L):
        t_out = out.at(x)
        if removed(x):
            if t_out.num_edges != 0:
                fail("not-removed", "position %r lies in a removed interval %r but the output tree has %d edges" % (x, ivs, t_out.num_edges))
                return
        else:
            if mrca_times(ts.at(x), s_in) != mrca_times(t_out, s_out):
                fail("topology-changed", "position %r is outside the removed intervals %r but the sample MRCA ages changed" % (x, ivs))
                return
    # simplified
    t2 = out.dump_tables()
    t2.simplify(filter_populations=False, filter_individuals=False, filter_sites=False, filter_nodes=True)
    t2.sort()
    if t2.nodes.num_rows != out.num_nodes or t2.edges.num_rows != out.num_edges:
        fail("not-simplified", "re-simplifying changes nodes %d -> %d, edges %d -> %d" % (
            out.num_nodes, t2.nodes.num_rows, out.num_edges, t2.edges.num_rows))
        return
    sd = kw.get("split_disjoint")
    if sd is None or sd:
        for u in range(out.num_nodes):
            if not (out.nodes_flags[u] & tskit.NODE_IS_SAMPLE) and node_has_gap(out, u):
                fail("disjoint-node-left", "split_disjoint is on but node %d is absent from the trees over a stretch "
                     "between two stretches where it is present" % u)
                return


def run(ctx, model_ok=True):
    n = ctx.n(240, 1200)
    cases = []
    for _ in range(n):
        ts = make_ts(ctx.rng)
        kw = pick_options(ctx.rng, ts)
        cases.append((ts, kw))
    # a tree sequence without sites
    import msprime
    cases.append((msprime.sim_ancestry(3, ploidy=1, sequence_length=10, random_seed=5), {}))
    model = model_intervals(ctx, cases) if model_ok else [None] * len(cases)
    for (ts, kw), mo in zip(cases, model):
        out = call(ts, kw)
        exp = expected_intervals(ts, kw)
        rp = {"ts": gen.ts_tables_dict(ts), "kw": {k: (v if not isinstance(v, (np.floating, np.integer)) else float(v)) for k, v in kw.items()}}
        if isinstance(out, str):
            impl = None
            if not out.startswith("ValueError"):
                ctx.oracle_fail("crash|" + out[:50], "preprocess_ts(%r) raised %s" % (kw, out), rp)
        else:
            impl, params = recorded_intervals(out)
        ctx.case({"sites": int(ts.num_sites), "L": float(ts.sequence_length), "kw": rp["kw"],
                  "intervals": None if impl is None else len(impl)},
                 nontrivial=impl is None or len(impl) > 0,
                 kind="error" if impl is None else ("user" if kw.get("delete_intervals") is not None else "computed:%d" % min(len(impl), 4)))
        if model_ok:
            ctx.corr("preprocess_intervals", same_intervals(mo, impl), "options %r sites %r L %r: model %r, implementation %r (%s)" % (
                rp["kw"], [float(x) for x in ts.sites_position][:12], ts.sequence_length, mo, impl, out if isinstance(out, str) else "ok"),
                replay=dict(rp, model=mo, impl=impl))
        if not same_intervals(exp, impl):
            if exp is None:
                ctx.oracle_fail("conflict-accepted", "preprocess_ts(%r) should raise ValueError but returned intervals %r" % (kw, impl), rp)
            elif impl is None:
                ctx.oracle_fail("valid-rejected|" + out[:40], "preprocess_ts(%r) raised %s" % (kw, out), rp)
            else:
                extra = [iv for iv in impl if iv not in exp]
                sig = "removed-outside-allowed" if extra else "allowed-region-kept"
                ctx.oracle_fail(sig, "options %r, sites %r, L %r: intervals %r, the documentation gives %r" % (
                    kw, [float(x) for x in ts.sites_position][:12], ts.sequence_length, impl, exp), rp)
            continue
        if impl is not None:
            check_output(ctx, ts, kw, out, impl, rp)


def search(ctx):
    for _ in range(ctx.n(500, 3000)):
        ts = make_ts(ctx.rng)
        kw = pick_options(ctx.rng, ts)
        out = call(ts, kw)
        exp = expected_intervals(ts, kw)
        impl = None if isinstance(out, str) else recorded_intervals(out)[0]
        rp = {"ts": gen.ts_tables_dict(ts), "kw": {k: (v if not isinstance(v, (np.floating, np.integer)) else float(v)) for k, v in kw.items()}}
        if not same_intervals(exp, impl):
            ctx.oracle_fail("intervals-differ", "options %r: intervals %r, documentation %r" % (kw, impl, exp), rp)
        elif impl is not None:
            check_output(ctx, ts, kw, out, impl, rp)
        if ctx.oracle_fails:
            return


def replay(ctx, data):
    rp = data.get("case") or {}
    if "ts" not in rp:
        return True
    ts = gen.ts_from_dict(rp["ts"])
    kw = rp["kw"]
    out = call(ts, kw)
    exp = expected_intervals(ts, kw)
    impl = None if isinstance(out, str) else recorded_intervals(out)[0]
    if not same_intervals(exp, impl):
        return False
    before = len(ctx.oracle_fails)
    if impl is not None:
        check_output(ctx, ts, kw, out, impl, rp)
    return len(ctx.oracle_fails) == before
